// Package engx (E6) builds real storage.Engine fixtures (single-node dragonboat NodeHost on in-memory
// file systems), real gRPC servers on unix sockets and leader/follower pairs whose replication worker
// is stepped by the harness.
package engx

import (
	"context"
	"fmt"
	"net"
	"os"
	"path/filepath"
	"sync/atomic"
	"time"

	pvfs "github.com/cockroachdb/pebble/vfs"
	"github.com/jamf/regatta/regattapb"
	"github.com/jamf/regatta/regattaserver"
	_ "github.com/jamf/regatta/regattaserver/encoding/gzip"
	_ "github.com/jamf/regatta/regattaserver/encoding/proto"
	"github.com/jamf/regatta/storage"
	"github.com/jamf/regatta/storage/table"
	"github.com/lni/dragonboat/v4/logger"
	lvfs "github.com/lni/vfs"
	"go.uber.org/zap"
	"google.golang.org/grpc"
	"google.golang.org/grpc/credentials/insecure"
)

func init() {
	for _, n := range []string{"raft", "rsm", "transport", "grpc", "dragonboat", "logdb", "raftpb", "config", "tan", "registry", "settings", "order"} {
		logger.GetLogger(n).SetLevel(logger.CRITICAL)
	}
}

type Opts struct {
	LogCacheSize    int
	MaxInMemLogSize uint64
	SnapshotEntries uint64
	Compaction      uint64
	RecoveryType    table.SnapshotRecoveryType
	Listener        func(table string, rev uint64)
	RTT             uint64
	// Reuse file systems of an earlier engine (restart).
	FS      lvfs.FS
	TableFS pvfs.FS
	Ports   [2]int
}

type Engine struct {
	*storage.Engine
	Opts Opts
}

func freePort() int {
	l, err := net.Listen("tcp", "127.0.0.1:0")
	if err != nil {
		panic(err)
	}
	defer l.Close()
	return l.Addr().(*net.TCPAddr).Port
}

// Start builds, starts and waits for a single-node engine.
func Start(o Opts) (*Engine, error) {
	if o.FS == nil {
		o.FS = lvfs.NewMem()
	}
	if o.TableFS == nil {
		o.TableFS = pvfs.NewMem()
	}
	if o.RTT == 0 {
		o.RTT = 2
	}
	if o.Ports[0] == 0 {
		o.Ports[0] = freePort()
	}
	if o.Ports[1] == 0 {
		o.Ports[1] = freePort()
	}
	raft := fmt.Sprintf("127.0.0.1:%d", o.Ports[0])
	gossip := fmt.Sprintf("127.0.0.1:%d", o.Ports[1])
	cfg := storage.Config{
		NodeID:         1,
		InitialMembers: map[uint64]string{1: raft},
		WALDir:         "/wal",
		NodeHostDir:    "/nh",
		RTTMillisecond: o.RTT,
		RaftAddress:    raft,
		Gossip:         storage.GossipConfig{BindAddress: gossip, InitialMembers: []string{gossip}, ClusterName: "verif", NodeName: fmt.Sprintf("n%d", o.Ports[0])},
		Table: storage.TableConfig{
			FS: o.TableFS, DataDir: "/tables", TableCacheSize: 256, ElectionRTT: 10, HeartbeatRTT: 1,
			MaxInMemLogSize: o.MaxInMemLogSize, SnapshotEntries: o.SnapshotEntries, CompactionOverhead: o.Compaction,
			RecoveryType: o.RecoveryType, AppliedIndexListener: o.Listener,
		},
		Meta:         storage.MetaConfig{ElectionRTT: 10, HeartbeatRTT: 1},
		FS:           o.FS,
		LogCacheSize: o.LogCacheSize,
		Log:          zap.NewNop().Sugar(),
	}
	_ = o.TableFS.MkdirAll("/tables", 0o755)
	e, err := storage.New(cfg)
	if err != nil {
		return nil, err
	}
	if err := e.Start(); err != nil {
		return nil, err
	}
	ctx, cancel := context.WithTimeout(context.Background(), 30*time.Second)
	defer cancel()
	if err := e.WaitUntilReady(ctx); err != nil {
		return nil, err
	}
	return &Engine{Engine: e, Opts: o}, nil
}

// WaitTable waits until the table accepts linearizable reads (its shard has a leader).
func (e *Engine) WaitTable(name string, d time.Duration) error {
	deadline := time.Now().Add(d)
	var last error
	for time.Now().Before(deadline) {
		t, err := e.GetTable(name)
		if err == nil {
			ctx, cancel := context.WithTimeout(context.Background(), time.Second)
			_, err = t.LocalIndex(ctx, true)
			cancel()
			if err == nil {
				return nil
			}
		}
		last = err
		time.Sleep(2 * time.Millisecond)
	}
	return fmt.Errorf("table %s not ready: %v", name, last)
}

// Dump reads the whole table with a linearizable streamed read.
func (e *Engine) Dump(name string) ([]*regattapb.KeyValue, error) {
	ctx, cancel := context.WithTimeout(context.Background(), 20*time.Second)
	defer cancel()
	seq, err := e.IterateRange(ctx, &regattapb.RangeRequest{Table: []byte(name), Key: []byte{0}, RangeEnd: []byte{0}, Linearizable: true})
	if err != nil {
		return nil, err
	}
	var out []*regattapb.KeyValue
	seq(func(r *regattapb.RangeResponse) bool {
		out = append(out, r.Kvs...)
		return true
	})
	return out, nil
}

var sockSeq atomic.Int64

// Serve starts a gRPC server on a fresh unix socket and returns a client connection to it.
func Serve(register func(s *grpc.Server), opts ...grpc.ServerOption) (*grpc.ClientConn, func(), error) {
	dir, err := os.MkdirTemp("", "verif-sock-")
	if err != nil {
		return nil, nil, err
	}
	path := filepath.Join(dir, fmt.Sprintf("s%d.sock", sockSeq.Add(1)))
	l, err := net.Listen("unix", path)
	if err != nil {
		return nil, nil, err
	}
	s := grpc.NewServer(opts...)
	register(s)
	go func() { _ = s.Serve(l) }()
	conn, err := grpc.NewClient("unix://"+path, grpc.WithTransportCredentials(insecure.NewCredentials()),
		grpc.WithDefaultCallOptions(grpc.MaxCallRecvMsgSize(64<<20), grpc.MaxCallSendMsgSize(64<<20)))
	if err != nil {
		s.Stop()
		return nil, nil, err
	}
	return conn, func() {
		_ = conn.Close()
		s.Stop()
		_ = os.RemoveAll(dir)
	}, nil
}

// ReplicationServers registers the leader-side replication services of an engine.
func ReplicationServers(e *Engine, maxMessageSize uint64) func(s *grpc.Server) {
	return func(s *grpc.Server) {
		regattapb.RegisterMetadataServer(s, &regattaserver.MetadataServer{Tables: e.Engine})
		regattapb.RegisterSnapshotServer(s, &regattaserver.SnapshotServer{Tables: e.Engine})
		regattapb.RegisterLogServer(s, regattaserver.NewLogServer(e.Engine, e.Engine.LogReader, zap.NewNop(), maxMessageSize))
	}
}
