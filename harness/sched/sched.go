// Package sched (E4) is a cooperative scheduler and stateless interleaving explorer with iterative
// preemption bounding (CHESS style). Threads are goroutines that run only while they hold the baton;
// they yield at Point/Await. One execution is fully determined by its choice list.
package sched

import (
	"fmt"
	"hash/fnv"
	"strings"
	"sync/atomic"
)

// T is the handle a thread body uses to yield.
type T struct {
	ID     int
	s      *exec
	resume chan struct{}
	cond   func() bool
	label  string
	done   bool
	chosen int
}

type yieldMsg struct {
	t      *T
	done   bool
	panic  any
	choose int
}

type point struct {
	n          int  // number of enabled threads
	curEnabled bool // the running thread was still enabled
}

type exec struct {
	aborted bool
	threads []*T
	yield   chan yieldMsg
	prefix  []int
	choices []int
	points  []point
	trace   []string
	horizon int
}

// Exec is the outcome of one execution.
type Exec struct {
	Choices  []int
	Trace    []string // "thread:label" per scheduling step
	Deadlock bool
	Livelock bool
	Panic    string
	Diverged string
	Pruned   bool // cut at an already visited complete state (only with Explorer.Prune)
}

func (t *T) wait() {
	<-t.resume
	if t.s.aborted {
		panic(errAbort)
	}
}

// Point yields to the scheduler.
func (t *T) Point(label string) {
	t.label = label
	t.cond = nil
	t.s.yield <- yieldMsg{t: t}
	t.wait()
}

// Await yields until ready() holds (evaluated by the scheduler between steps).
func (t *T) Await(label string, ready func() bool) {
	t.label = label
	t.cond = ready
	t.s.yield <- yieldMsg{t: t}
	t.wait()
	t.cond = nil
}

// Choose is a data choice with n alternatives (an environment answer): default 0; every alternative
// is explored, at no preemption cost. The thread keeps the baton.
func (t *T) Choose(label string, n int) int {
	if n <= 1 {
		return 0
	}
	t.label = label
	t.s.yield <- yieldMsg{t: t, choose: n}
	t.wait()
	return t.chosen
}

// Scenario is created fresh for every execution.
type Scenario struct {
	Threads []func(t *T)
	// Key optionally returns a COMPLETE state key (user state only; the explorer adds per-thread
	// labels and remaining budget) for visited-state pruning. Leave nil for no pruning.
	Key func() string
}

// StateSet holds the visited states as 128-bit FNV-1a digests of their complete keys (a key is
// 100-300 bytes; explorations visit hundreds of millions of states). Two different keys collide
// with probability about n^2/2^129, i.e. below 1e-20 for a billion states.
type StateSet map[[16]byte]struct{}

func digest(k string) (d [16]byte) {
	h := fnv.New128a()
	_, _ = h.Write([]byte(k))
	h.Sum(d[:0])
	return d
}

func run(sc Scenario, prefix []int, horizon int, states StateSet, prune bool) (*exec, Exec) {
	e := &exec{yield: make(chan yieldMsg), prefix: prefix, horizon: horizon}
	var out Exec
	for i, body := range sc.Threads {
		t := &T{ID: i, s: e, resume: make(chan struct{}), label: "start"}
		e.threads = append(e.threads, t)
		go func(t *T, body func(*T)) {
			<-t.resume
			if e.aborted {
				return
			}
			defer func() {
				if r := recover(); r != nil {
					if r == errAbort {
						return
					}
					e.yield <- yieldMsg{t: t, done: true, panic: r}
					return
				}
				e.yield <- yieldMsg{t: t, done: true}
			}()
			body(t)
		}(t, body)
	}
	cur := -1
	steps := 0
	abort := func() {
		// unblock parked goroutines so they do not leak: they panic with errAbort at next resume
		e.aborted = true
		for _, t := range e.threads {
			if !t.done {
				t.done = true
				close(t.resume)
			}
		}
	}
	for {
		var enabled []int
		allDone := true
		for _, t := range e.threads {
			if t.done {
				continue
			}
			allDone = false
			if t.cond == nil || t.cond() {
				enabled = append(enabled, t.ID)
			}
		}
		if states != nil && sc.Key != nil {
			var sb strings.Builder
			sb.WriteString(sc.Key())
			for _, t := range e.threads {
				if t.done {
					sb.WriteString("|done")
				} else {
					sb.WriteString("|" + t.label)
				}
			}
			k := digest(sb.String())
			if _, seen := states[k]; seen && prune && len(e.choices) >= len(prefix) && len(prefix) > 0 {
				out.Pruned = true
				abort()
				break
			}
			states[k] = struct{}{}
		}
		if len(enabled) == 0 {
			if !allDone {
				out.Deadlock = true
				abort()
			}
			break
		}
		var order []int
		curEnabled := false
		for _, id := range enabled {
			if id == cur {
				curEnabled = true
			}
		}
		if curEnabled {
			order = append(order, cur)
		}
		for _, id := range enabled {
			if id != cur {
				order = append(order, id)
			}
		}
		c := 0
		pos := len(e.choices)
		if pos < len(prefix) {
			c = prefix[pos]
		}
		if c >= len(order) {
			out.Diverged = fmt.Sprintf("choice %d at position %d but only %d enabled", c, pos, len(order))
			abort()
			break
		}
		e.choices = append(e.choices, c)
		e.points = append(e.points, point{n: len(order), curEnabled: curEnabled})
		cur = order[c]
		t := e.threads[cur]
		e.trace = append(e.trace, fmt.Sprintf("%d:%s", cur, t.label))
		current.Store(t)
		t.resume <- struct{}{}
		m := <-e.yield
		current.Store(nil)
		diverged := false
		for m.choose > 0 {
			c := 0
			pos := len(e.choices)
			if pos < len(prefix) {
				c = prefix[pos]
			}
			if c >= m.choose {
				out.Diverged = fmt.Sprintf("data choice %d at position %d but only %d alternatives", c, pos, m.choose)
				diverged = true
				break
			}
			e.choices = append(e.choices, c)
			e.points = append(e.points, point{n: m.choose})
			e.trace = append(e.trace, fmt.Sprintf("%d:%s=%d", cur, m.t.label, c))
			m.t.chosen = c
			current.Store(m.t)
			m.t.resume <- struct{}{}
			m = <-e.yield
			current.Store(nil)
		}
		if diverged {
			abort()
			break
		}
		if m.done {
			m.t.done = true
			if m.panic != nil {
				out.Panic = fmt.Sprintf("thread %d: %v", m.t.ID, m.panic)
				abort()
				break
			}
		}
		steps++
		if steps > horizon {
			out.Livelock = true
			abort()
			break
		}
	}
	out.Choices = e.choices
	out.Trace = e.trace
	return e, out
}

var errAbort = fmt.Errorf("sched: execution aborted")

// current is the thread that holds the baton (for hooks inside instrumented code that cannot be
// handed a *T). Only meaningful while a single exploration runs in the process.
var current atomic.Pointer[T]

// Cur returns the running scheduled thread, or nil outside an execution.
func Cur() *T { return current.Load() }

func init() {}

// Result summarises an exploration.
type Result struct {
	Executions   int64
	Points       int64 // scheduling decisions taken in total (transitions)
	Bound        int   // preemption bound completed
	Exhausted    bool  // no alternative left unexplored at any bound (space fully covered)
	Pruned       int64
	MaxLen       int
	Outcomes     map[string]int64
	StoppedEarly bool
}

// Explorer drives the exploration.
type Explorer struct {
	Mk       func() Scenario
	Check    func(x Exec, sc *Scenario) string // returns an outcome string; violations are the caller's business
	Horizon  int
	MaxBound int
	Stop     func() bool
	Prune    bool     // cut executions at already visited states; requires a COMPLETE Scenario.Key and unbounded mode
	States   StateSet // distinct (user state key, thread labels) seen at scheduling points (if Scenario.Key is set)
	res      Result
	visited  map[string]int
	skipped  bool
}

func (ex *Explorer) explore(prefix []int, bound int) {
	if ex.Stop != nil && ex.Stop() {
		ex.res.StoppedEarly = true
		return
	}
	sc := ex.Mk()
	e, x := run(sc, prefix, ex.Horizon, ex.States, ex.Prune)
	ex.res.Executions++
	if x.Pruned {
		ex.res.Pruned++
	}
	ex.res.Points += int64(len(x.Choices))
	if len(x.Choices) > ex.res.MaxLen {
		ex.res.MaxLen = len(x.Choices)
	}
	if !x.Pruned {
		out := ex.Check(x, &sc)
		ex.res.Outcomes[out]++
	}
	// preemptions used before each point
	pre := 0
	for i := 0; i < len(e.points); i++ {
		p := e.points[i]
		if i >= len(prefix) {
			cost := pre
			if p.curEnabled {
				cost++
			}
			if cost <= bound {
				for alt := 1; alt < p.n; alt++ {
					np := append(append([]int(nil), x.Choices[:i]...), alt)
					ex.explore(np, bound)
				}
			} else if p.n > 1 {
				ex.skipped = true
			}
		}
		if p.curEnabled && x.Choices[i] != 0 {
			pre++
		}
	}
}

// Run explores with preemption bounds 0,1,..,MaxBound; stops when a bound exhausts the space.
func (ex *Explorer) Run() Result {
	if ex.Horizon == 0 {
		ex.Horizon = 10000
	}
	var last Result
	if ex.MaxBound < 0 { // unbounded: one pass over the whole space
		ex.res = Result{Outcomes: map[string]int64{}}
		ex.skipped = false
		ex.explore(nil, 1<<30)
		ex.res.Bound = -1
		ex.res.Exhausted = !ex.res.StoppedEarly
		return ex.res
	}
	for b := 0; b <= ex.MaxBound; b++ {
		ex.res = Result{Outcomes: map[string]int64{}}
		ex.skipped = false
		ex.explore(nil, b)
		ex.res.Bound = b
		ex.res.Exhausted = !ex.skipped && !ex.res.StoppedEarly
		last = ex.res
		if ex.res.Exhausted || ex.res.StoppedEarly {
			break
		}
	}
	return last
}

// TraceStr renders a trace.
func TraceStr(x Exec) string { return strings.Join(x.Trace, " ") }

// Replay runs exactly one execution with the given choices.
func Replay(mk func() Scenario, choices []int, horizon int) (Exec, Scenario) {
	sc := mk()
	if horizon == 0 {
		horizon = 10000
	}
	_, x := run(sc, choices, horizon, nil, false)
	return x, sc
}
