// Package cmdx has terse constructors for commands and requests.
package cmdx

import "github.com/jamf/regatta/regattapb"

var Table = []byte("t")

func B(s string) []byte { return []byte(s) }

func Put(k, v string, prev bool) *regattapb.Command {
	return &regattapb.Command{Table: Table, Type: regattapb.Command_PUT, Kv: &regattapb.KeyValue{Key: B(k), Value: B(v)}, PrevKvs: prev}
}

// Del builds a delete; end == nil means single key.
func Del(k string, end []byte, prev, count bool) *regattapb.Command {
	return &regattapb.Command{Table: Table, Type: regattapb.Command_DELETE, Kv: &regattapb.KeyValue{Key: B(k)}, RangeEnd: end, PrevKvs: prev, Count: count}
}

func PutBatch(kvs ...string) *regattapb.Command {
	c := &regattapb.Command{Table: Table, Type: regattapb.Command_PUT_BATCH}
	for i := 0; i+1 < len(kvs); i += 2 {
		c.Batch = append(c.Batch, &regattapb.KeyValue{Key: B(kvs[i]), Value: B(kvs[i+1])})
	}
	return c
}

func DelBatch(ks ...string) *regattapb.Command {
	c := &regattapb.Command{Table: Table, Type: regattapb.Command_DELETE_BATCH}
	for _, k := range ks {
		c.Batch = append(c.Batch, &regattapb.KeyValue{Key: B(k)})
	}
	return c
}

func Seq(cs ...*regattapb.Command) *regattapb.Command {
	return &regattapb.Command{Table: Table, Type: regattapb.Command_SEQUENCE, Sequence: cs}
}

func Dummy() *regattapb.Command {
	return &regattapb.Command{Table: Table, Type: regattapb.Command_DUMMY}
}

func WithLeader(c *regattapb.Command, li uint64) *regattapb.Command {
	c.LeaderIndex = &li
	return c
}

func Txn(cmp []*regattapb.Compare, succ, fail []*regattapb.RequestOp) *regattapb.Command {
	return &regattapb.Command{Table: Table, Type: regattapb.Command_TXN, Txn: &regattapb.Txn{Compare: cmp, Success: succ, Failure: fail}}
}

func Exists(k string, end []byte) *regattapb.Compare {
	return &regattapb.Compare{Key: B(k), RangeEnd: end}
}

func Cmp(k string, end []byte, res regattapb.Compare_CompareResult, v string) *regattapb.Compare {
	return &regattapb.Compare{Key: B(k), RangeEnd: end, Result: res, Target: regattapb.Compare_VALUE, TargetUnion: &regattapb.Compare_Value{Value: B(v)}}
}

func OpGet(k string, end []byte, limit int64, keysOnly, countOnly bool) *regattapb.RequestOp {
	return &regattapb.RequestOp{Request: &regattapb.RequestOp_RequestRange{RequestRange: &regattapb.RequestOp_Range{Key: B(k), RangeEnd: end, Limit: limit, KeysOnly: keysOnly, CountOnly: countOnly}}}
}

func OpPut(k, v string, prev bool) *regattapb.RequestOp {
	return &regattapb.RequestOp{Request: &regattapb.RequestOp_RequestPut{RequestPut: &regattapb.RequestOp_Put{Key: B(k), Value: B(v), PrevKv: prev}}}
}

func OpDel(k string, end []byte, prev, count bool) *regattapb.RequestOp {
	return &regattapb.RequestOp{Request: &regattapb.RequestOp_RequestDeleteRange{RequestDeleteRange: &regattapb.RequestOp_DeleteRange{Key: B(k), RangeEnd: end, PrevKv: prev, Count: count}}}
}

func Ops(o ...*regattapb.RequestOp) []*regattapb.RequestOp { return o }
func Cmps(c ...*regattapb.Compare) []*regattapb.Compare    { return c }
