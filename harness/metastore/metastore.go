// Package metastore is the store adapter for C14/C15: it implements the interface table.Manager
// expects over real kv.LFSM replicas that share one log. Writes are appended to the log (= committed)
// and answered from the proposing node's replica after it applied them; reads are stale reads of the
// node's own replica, whose lag is an explorer-controlled data choice. Entries are built exactly as
// kv.RaftStore builds them and results are mapped exactly as kv.RaftStore maps them.
package metastore

import (
	"bytes"
	"encoding/json"
	"fmt"
	"hash/fnv"
	"sort"
	"strings"

	"github.com/jamf/regatta/storage/kv"
	dbsm "github.com/lni/dragonboat/v4/statemachine"

	"verif/harness/sched"
)

// LogRec is one committed entry with its provenance and result.
type LogRec struct {
	Index  uint64
	Node   int
	Update kv.Update
	Code   uint64
	Call   string // label of the manager call that issued it
}

type Cluster struct {
	Log      []LogRec
	cmds     [][]byte
	replicas []*kv.LFSM
	applied  []int
	results  []map[int]dbsm.Result
	Lag      bool // explore replica lag on reads
	// Divergence is set when two replicas produced different results for the same log position
	// (replicas catch up in ONE apply call whatever the number of missing entries, so they see
	// different batchings of the same log - dragonboat's contract allows any).
	Divergence string
	// SnapReads: a lagging replica that moves forward to serve a stale read does so by installing a
	// snapshot of the log prefix (taken from a scratch replica) instead of replaying the entries;
	// catch-up before applying the node's own proposal stays log replay. With a correct store both
	// give the same replica state.
	SnapReads bool
}

func NewCluster(nodes int, lag bool) *Cluster {
	c := &Cluster{Lag: lag}
	for i := 0; i < nodes; i++ {
		c.replicas = append(c.replicas, kv.NewLFSM()(1000, uint64(i+1)).(*kv.LFSM))
		c.applied = append(c.applied, 0)
		c.results = append(c.results, map[int]dbsm.Result{})
	}
	return c
}

// catchUp applies log entries to node's replica up to position upTo (count of entries).
func (c *Cluster) catchUp(node, upTo int) {
	from := c.applied[node]
	if from >= upTo {
		return
	}
	batch := make([]dbsm.Entry, 0, upTo-from)
	for i := from; i < upTo; i++ {
		batch = append(batch, dbsm.Entry{Index: uint64(i + 1), Cmd: c.cmds[i]})
	}
	out, err := c.replicas[node].Update(batch)
	if err != nil {
		panic(err)
	}
	for k := range out {
		i := from + k
		c.results[node][i] = out[k].Result
		for other := range c.results {
			if o, ok := c.results[other][i]; ok && other != node && (o.Value != out[k].Result.Value || string(o.Data) != string(out[k].Result.Data)) && c.Divergence == "" {
				c.Divergence = fmt.Sprintf("log position %d: replica %d (applied in a call of %d entries) -> code %d %s, replica %d -> code %d %s", i+1, node+1, len(batch), out[k].Result.Value, out[k].Result.Data, other+1, o.Value, o.Data)
			}
		}
	}
	c.applied[node] = upTo
}

// installSnapshot moves node's replica to position upTo with a snapshot of the prefix.
func (c *Cluster) installSnapshot(node, upTo int) {
	if c.applied[node] >= upTo {
		return
	}
	donor := kv.NewLFSM()(1000, 98).(*kv.LFSM)
	batch := make([]dbsm.Entry, 0, upTo)
	for i := 0; i < upTo; i++ {
		batch = append(batch, dbsm.Entry{Index: uint64(i + 1), Cmd: c.cmds[i]})
	}
	if len(batch) > 0 {
		if _, err := donor.Update(batch); err != nil {
			panic(err)
		}
	}
	ctx, err := donor.PrepareSnapshot()
	if err != nil {
		panic(err)
	}
	var buf bytes.Buffer
	if err := donor.SaveSnapshot(ctx, &buf, nil, nil); err != nil {
		panic(err)
	}
	if err := c.replicas[node].RecoverFromSnapshot(&buf, nil, nil); err != nil {
		panic(err)
	}
	c.applied[node] = upTo
}

// stopIfDiverged ends the execution of a scheduled thread at once (reported by the caller's check
// as a violation, never pruned away); outside a thread the caller reads Divergence.
func (s *NodeStore) stopIfDiverged() {
	if s.T != nil && s.C.Divergence != "" {
		panic("metadata-replicas-disagree-under-batching: " + s.C.Divergence)
	}
}

// Seed commits an update outside any scheduled thread and applies it everywhere.
func (c *Cluster) Seed(u kv.Update) {
	b, _ := json.Marshal(u)
	c.cmds = append(c.cmds, b)
	c.Log = append(c.Log, LogRec{Index: uint64(len(c.cmds)), Node: -1, Update: u, Code: kv.ResultCodeSuccess, Call: "seed"})
	for n := range c.replicas {
		c.catchUp(n, len(c.cmds))
	}
}

// Key renders the complete shared state (log results + replica positions).
func (c *Cluster) Key() string {
	var sb strings.Builder
	for _, r := range c.Log {
		fmt.Fprintf(&sb, "%d:%s:%s:%s:%d:%d;", r.Node, r.Update.Op, r.Update.KVPair.Key, r.Update.KVPair.Value, r.Update.KVPair.Ver, r.Code)
	}
	fmt.Fprintf(&sb, "|%v", c.applied)
	return sb.String()
}

// Final returns the content of a fully caught-up replica as sorted "key=value@ver".
func (c *Cluster) Final() []string {
	c.catchUp(0, len(c.cmds))
	all, _ := c.replicas[0].Lookup(kv.QueryAll{Pattern: "*"})
	// "*" does not match '/', collect with several patterns
	seen := map[string]kv.Pair{}
	for _, pat := range []string{"*", "/*", "/*/*", "/*/*/*", "/*/*/*/*"} {
		r, _ := c.replicas[0].Lookup(kv.QueryAll{Pattern: pat})
		for _, p := range r.([]kv.Pair) {
			seen[p.Key] = p
		}
	}
	_ = all
	var out []string
	for _, p := range seen {
		out = append(out, fmt.Sprintf("%s=%s@%d", p.Key, p.Value, p.Ver))
	}
	sort.Strings(out)
	return out
}

// NodeStore is one node's view; it implements the store interface of table.Manager.
type NodeStore struct {
	C    *Cluster
	Node int
	T    *sched.T
	Call string // label of the manager call in progress (set by the thread body)
	Hist uint64 // running hash of every answer this node's thread has received (its complete local state)
	// Frozen: the node is cut off from the store's quorum - reads are served from the replica as it
	// is (no catch-up); the caller is expected to fail proposals itself.
	Frozen bool
}

func (s *NodeStore) note(answer string) {
	h := fnv.New64a()
	fmt.Fprintf(h, "%d|%s", s.Hist, answer)
	s.Hist = h.Sum64()
}

// read is a stale read: the replica has applied at least its current position and at most the whole
// log; the explorer chooses the position. Reduction (sound): positions are monotone per node, so among
// the positions that give the SAME answer to this query only the smallest is explored - every future
// of a larger position is also a future of the smaller one. Default = the answer of a fully caught-up
// replica.
func (s *NodeStore) read(label string, q any) {
	if s.T != nil {
		s.T.Point(fmt.Sprintf("n%d.%s", s.Node, label))
	}
	if s.Frozen {
		return
	}
	lo, hi := s.C.applied[s.Node], len(s.C.cmds)
	if !s.C.Lag || s.T == nil || lo == hi {
		s.C.catchUp(s.Node, hi)
		s.stopIfDiverged()
		return
	}
	// answers at every candidate position, computed on a scratch replica
	scratch := kv.NewLFSM()(1000, 99).(*kv.LFSM)
	for i := 0; i < lo; i++ {
		_, _ = scratch.Update([]dbsm.Entry{{Index: uint64(i + 1), Cmd: s.C.cmds[i]}})
	}
	type opt struct {
		pos int
		ans string
	}
	var opts []opt
	seen := map[string]bool{}
	for p := lo; p <= hi; p++ {
		if p > lo {
			_, _ = scratch.Update([]dbsm.Entry{{Index: uint64(p), Cmd: s.C.cmds[p-1]}})
		}
		a, err := scratch.Lookup(q)
		ans := fmt.Sprintf("%v|%v", a, err)
		if !seen[ans] {
			seen[ans] = true
			opts = append(opts, opt{p, ans})
		}
	}
	// default first: the option whose answer equals the fully caught-up answer
	a, err := scratch.Lookup(q)
	full := fmt.Sprintf("%v|%v", a, err)
	sort.SliceStable(opts, func(i, j int) bool {
		if (opts[i].ans == full) != (opts[j].ans == full) {
			return opts[i].ans == full
		}
		return opts[i].pos > opts[j].pos
	})
	c := s.T.Choose(fmt.Sprintf("n%d.lag", s.Node), len(opts))
	if s.C.SnapReads {
		s.C.installSnapshot(s.Node, opts[c].pos)
	} else {
		s.C.catchUp(s.Node, opts[c].pos)
	}
	s.stopIfDiverged()
}

func (s *NodeStore) propose(label string, u kv.Update) dbsm.Result {
	if s.T != nil {
		s.T.Point(fmt.Sprintf("n%d.%s", s.Node, label))
	}
	b, err := json.Marshal(u)
	if err != nil {
		panic(err)
	}
	s.C.cmds = append(s.C.cmds, b)
	pos := len(s.C.cmds) - 1
	s.C.catchUp(s.Node, pos+1)
	s.stopIfDiverged()
	res := s.C.results[s.Node][pos]
	s.note(fmt.Sprintf("%d:%s", res.Value, res.Data))
	s.C.Log = append(s.C.Log, LogRec{Index: uint64(pos + 1), Node: s.Node, Update: u, Code: res.Value, Call: s.Call})
	return res
}

func (s *NodeStore) Exists(key string) (bool, error) {
	s.read("exists", kv.QueryExist{Key: key})
	ok, err := s.C.replicas[s.Node].Lookup(kv.QueryExist{Key: key})
	s.note(fmt.Sprintf("%v|%v", ok, err))
	if err != nil {
		return false, err
	}
	return ok.(bool), nil
}

func (s *NodeStore) Get(key string) (kv.Pair, error) {
	s.read("get", kv.QueryKey{Key: key})
	val, err := s.C.replicas[s.Node].Lookup(kv.QueryKey{Key: key})
	s.note(fmt.Sprintf("%v|%v", val, err))
	if err != nil {
		return kv.Pair{}, err
	}
	return val.(kv.Pair), nil
}

func (s *NodeStore) GetAll(pattern string) ([]kv.Pair, error) {
	s.read("getall", kv.QueryAll{Pattern: pattern})
	val, err := s.C.replicas[s.Node].Lookup(kv.QueryAll{Pattern: pattern})
	s.note(fmt.Sprintf("%v|%v", val, err))
	if err != nil {
		return nil, err
	}
	return val.([]kv.Pair), nil
}

// Set mirrors kv.RaftStore.Set.
func (s *NodeStore) Set(key string, value string, ver uint64) (kv.Pair, error) {
	pair := kv.Pair{Key: key, Value: value, Ver: ver}
	res := s.propose("set", kv.Update{Op: kv.UpdateOpSet, KVPair: pair})
	if err := json.Unmarshal(res.Data, &pair); err != nil {
		return kv.Pair{}, err
	}
	if res.Value == kv.ResultCodeVersionMismatch {
		return pair, kv.ErrVersionMismatch
	}
	return pair, nil
}

// Delete mirrors kv.RaftStore.Delete.
func (s *NodeStore) Delete(key string, ver uint64) error {
	res := s.propose("delete", kv.Update{Op: kv.UpdateOpDelete, KVPair: kv.Pair{Key: key, Ver: ver}})
	if res.Value == kv.ResultCodeVersionMismatch {
		return kv.ErrVersionMismatch
	}
	return nil
}
