// Package simraft (E5) is a simulated Raft host implementing the four methods table.ActiveTable needs
// over replicas that are REAL fsm.FSM instances sharing one log. Semantics follow dragonboat's
// documented contract: a proposal is appended (= committed) and answered with the result the
// proposing node's replica computes when it applies that index, only after that replica applied it;
// SyncRead captures the commit index at invocation and answers from the local replica once it has
// applied at least that index; StaleRead answers from the local replica as it is.
package simraft

import (
	"context"
	"errors"
	"fmt"

	"github.com/jamf/regatta/regattapb"
	"github.com/jamf/regatta/storage/table"
	"github.com/jamf/regatta/util/iter"
	"github.com/lni/dragonboat/v4"
	"github.com/lni/dragonboat/v4/client"
	sm "github.com/lni/dragonboat/v4/statemachine"

	"verif/harness/fsmx"
	"verif/harness/sched"
)

// LogEntry is one committed entry; Cmd == nil means a non-application entry (never shown to the FSM).
type LogEntry struct {
	Index uint64
	Cmd   []byte
}

// Cluster is the shared log plus the replicas.
type Cluster struct {
	Log        []LogEntry
	next       uint64
	Nodes      []*Node
	ShardID    uint64
	Base       uint64 // index before the first log entry
	ReadFaults bool   // explore SyncRead failing with a temporary error on a lagging replica
	Eager      []bool // Eager[i]: node i applies every entry at commit time
}

// Node is one replica with its applied position (count of log entries consumed).
type Node struct {
	C       *Cluster
	ID      int
	Inst    *fsmx.Inst
	Pos     int // log entries consumed (applied or skipped)
	Results map[uint64]sm.Result
}

func NewCluster(shard uint64, insts ...*fsmx.Inst) *Cluster {
	c := &Cluster{ShardID: shard}
	for i, in := range insts {
		c.Nodes = append(c.Nodes, &Node{C: c, ID: i, Inst: in, Results: map[uint64]sm.Result{}})
	}
	return c
}

// NewClusterAt is NewCluster with the log starting after index base.
func NewClusterAt(shard, base uint64, insts ...*fsmx.Inst) *Cluster {
	c := NewCluster(shard, insts...)
	c.next = base
	c.Base = base
	return c
}

// Commit returns the commit index (= last log index).
func (c *Cluster) Commit() uint64 { return c.next }

// Append commits a command (nil = non-application entry) and returns its index.
func (c *Cluster) Append(cmd []byte) uint64 {
	c.next++
	c.Log = append(c.Log, LogEntry{Index: c.next, Cmd: cmd})
	for i, n := range c.Nodes {
		if i < len(c.Eager) && c.Eager[i] {
			if err := n.CatchUp(); err != nil {
				panic(err)
			}
		}
	}
	return c.next
}

// Applied returns the index of the last entry the node consumed.
func (n *Node) Applied() uint64 {
	if n.Pos == 0 {
		return n.C.Base
	}
	return n.C.Log[n.Pos-1].Index
}

// Step applies up to k pending entries in ONE Update call (non-application entries are skipped and
// end a batch only by not being part of it). Returns the number of log entries consumed.
func (n *Node) Step(k int) (int, error) {
	var ents []sm.Entry
	consumed := 0
	for n.Pos+consumed < len(n.C.Log) && len(ents) < k {
		e := n.C.Log[n.Pos+consumed]
		consumed++
		if e.Cmd == nil {
			continue
		}
		ents = append(ents, sm.Entry{Index: e.Index, Cmd: e.Cmd})
	}
	if len(ents) > 0 {
		out, err := n.Inst.Update(ents)
		if err != nil {
			return 0, err
		}
		for _, o := range out {
			n.Results[o.Index] = o.Result
		}
	}
	n.Pos += consumed
	return consumed, nil
}

// CatchUp applies everything pending, one entry per call.
func (n *Node) CatchUp() error {
	for n.Pos < len(n.C.Log) {
		if _, err := n.Step(1); err != nil {
			return err
		}
	}
	return nil
}

var ErrCanceled = errors.New("simraft: context canceled")

// Host is the raftHandler view of one node. Without a scheduler thread (T == nil) every call is
// synchronous: proposals and linearizable reads first catch the node up.
type Host struct {
	N    *Node
	T    *sched.T // the calling client's scheduler handle (nil = synchronous mode)
	last *uint64
}

// NewHost returns the view of node n for one client thread.
func NewHost(n *Node, t *sched.T) Host { return Host{N: n, T: t, last: new(uint64)} }

// LastIndex is the log index of the last proposal made through this host (0 if none), and resets it.
func (h Host) LastIndex() uint64 {
	if h.last == nil {
		return 0
	}
	v := *h.last
	*h.last = 0
	return v
}

func (h Host) GetNoOPSession(id uint64) *client.Session { return &client.Session{ShardID: id} }

func (h Host) SyncPropose(ctx context.Context, _ *client.Session, cmd []byte) (sm.Result, error) {
	n := h.N
	if h.T != nil {
		h.T.Point(fmt.Sprintf("n%d.append", n.ID))
	}
	idx := n.C.Append(append([]byte(nil), cmd...))
	if h.last != nil {
		*h.last = idx
	}
	if h.T != nil {
		h.T.Await(fmt.Sprintf("n%d.wait-applied(%d)", n.ID, idx-n.C.Base), func() bool { return n.Applied() >= idx })
	} else if err := n.CatchUp(); err != nil {
		return sm.Result{}, err
	}
	return n.Results[idx], nil
}

func (h Host) SyncRead(ctx context.Context, _ uint64, q interface{}) (interface{}, error) {
	n := h.N
	if h.T != nil {
		h.T.Point(fmt.Sprintf("n%d.readindex", n.ID))
	}
	ri := n.C.Commit()
	if h.T != nil && n.C.ReadFaults && n.Applied() < ri {
		// environment answer: the read index is not confirmed in time (temporary error); explored as a
		// data choice whenever the replica lags (on an up-to-date replica a failed read can only be an
		// error or the correct answer)
		if h.T.Choose(fmt.Sprintf("n%d.readindex-times-out", n.ID), 2) == 1 {
			return nil, dragonboat.ErrTimeout
		}
	}
	if h.T != nil {
		h.T.Await(fmt.Sprintf("n%d.wait-caughtup(%d)", n.ID, ri-n.C.Base), func() bool { return n.Applied() >= ri })
		h.T.Point(fmt.Sprintf("n%d.lookup", n.ID))
	} else if err := n.CatchUp(); err != nil {
		return nil, err
	}
	return n.Inst.Lookup(q)
}

func (h Host) StaleRead(_ uint64, q interface{}) (interface{}, error) {
	n := h.N
	if h.T != nil {
		h.T.Point(fmt.Sprintf("n%d.stale-lookup", n.ID))
	}
	return n.Inst.Lookup(q)
}

// KV adapts an ActiveTable over a Host to regattaserver.KVService (what storage.Engine does, minus
// header decoration and default timeouts).
type KV struct {
	Host  Host
	Name  string
	Shard uint64
}

func (k KV) tab(name []byte) (table.ActiveTable, error) {
	if string(name) != k.Name {
		return table.ActiveTable{}, errors.New("table not found")
	}
	return table.Table{Name: k.Name, ClusterID: k.Shard}.AsActive(k.Host), nil
}

func (k KV) Range(ctx context.Context, req *regattapb.RangeRequest) (*regattapb.RangeResponse, error) {
	t, err := k.tab(req.Table)
	if err != nil {
		return nil, err
	}
	return t.Range(ctx, req)
}

func (k KV) Put(ctx context.Context, req *regattapb.PutRequest) (*regattapb.PutResponse, error) {
	t, err := k.tab(req.Table)
	if err != nil {
		return nil, err
	}
	return t.Put(ctx, req)
}

func (k KV) Delete(ctx context.Context, req *regattapb.DeleteRangeRequest) (*regattapb.DeleteRangeResponse, error) {
	t, err := k.tab(req.Table)
	if err != nil {
		return nil, err
	}
	return t.Delete(ctx, req)
}

func (k KV) Txn(ctx context.Context, req *regattapb.TxnRequest) (*regattapb.TxnResponse, error) {
	t, err := k.tab(req.Table)
	if err != nil {
		return nil, err
	}
	return t.Txn(ctx, req)
}

func (k KV) IterateRange(ctx context.Context, req *regattapb.RangeRequest) (iter.Seq[*regattapb.RangeResponse], error) {
	t, err := k.tab(req.Table)
	if err != nil {
		return nil, err
	}
	it, err := t.Iterator(ctx, req)
	if err != nil {
		return nil, err
	}
	return iter.Map(it, func(s *regattapb.ResponseOp_Range) *regattapb.RangeResponse {
		return &regattapb.RangeResponse{Kvs: s.Kvs, More: s.More, Count: s.Count}
	}), nil
}
