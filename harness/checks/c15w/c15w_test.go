// Package c15w is the worker-side part of C15: the real replication workers of two follower nodes
// (their own lease routines, started by the real worker.Start) over real table.Manager.LeaseTable /
// ReturnTable and real kv.LFSM replicas, inside testing/synctest bubbles (fake clock). The
// environment cuts one node off from the metadata store for a window (its proposals time out, its
// reads are stale) - every placement of that window on a half-lease-interval grid, for either node
// and three start-up phases. A worker polls the leader exactly while its lease flag is set (read through the
// Leased hook after every half interval). Invariant: the flag is only ever set while the committed
// lease record names that node and has not expired.
//
// It runs as a test binary because of testing/synctest; scripts/check.sh runs it before
// `verifx check C15`, which merges the JSON it writes into C15's evidence and verdict.
//
//go:debug randseednop=0
package c15w

import (
	"encoding/json"
	"fmt"
	"math/rand"
	"os"
	"strings"
	"sync"
	"testing"
	"testing/synctest"
	"time"

	"github.com/jamf/regatta/replication"
	"github.com/jamf/regatta/storage"
	"github.com/jamf/regatta/storage/kv"
	"github.com/jamf/regatta/storage/table"
	"github.com/lni/dragonboat/v4"

	"verif/harness/metastore"
)

const leaseKey = "/tables/t/lease"

type Case struct {
	Kind string `json:"kind"`
	// Mode: "" = the victim is cut off from the metadata store for the window; "restart" = the
	// victim's worker is closed (which returns the lease) at the start of the window and a new worker
	// is started on the same engine at its end
	Mode   string `json:"mode,omitempty"`
	Seed   int64  `json:"seed"`
	Victim int    `json:"victim"` // node cut off (0 or 1)
	Start  int    `json:"start"`  // half intervals before the cut
	Len    int    `json:"len"`    // half intervals cut off (0 = never)
	After  int    `json:"after"`  // half intervals after the cut ends
	// Kind "lease-boundary": node 2 asks when node 1's lease has this long left (negative: after expiry)
	RemainingNs int64 `json:"remaining_ns,omitempty"`
}

func (c Case) String() string {
	if c.Kind == "lease-boundary" {
		return fmt.Sprintf("node 2 asks for the table with %v of node 1's lease remaining", time.Duration(c.RemainingNs))
	}
	if c.Len == 0 {
		return fmt.Sprintf("seed %d, no cut, %d half-intervals", c.Seed, c.Start+c.After)
	}
	if c.Mode == "restart" {
		return fmt.Sprintf("seed %d: %d half-intervals, then node %d's worker is closed, restarted %d half-intervals later, then %d more", c.Seed, c.Start, c.Victim+1, c.Len, c.After)
	}
	return fmt.Sprintf("seed %d: %d half-intervals, then node %d cut off from the metadata store for %d half-intervals, then %d more", c.Seed, c.Start, c.Victim+1, c.Len, c.After)
}

type Violation struct {
	Sig    string `json:"sig"`
	Detail string `json:"detail"`
	Case   Case   `json:"case"`
}

type Result struct {
	Paths        int64       `json:"paths"`
	Events       int64       `json:"events"`
	HolderPolls  int64       `json:"observations_with_lease_flag_set"`
	Takeovers    int64       `json:"paths_with_a_takeover"`
	Boundary     int64       `json:"lease_boundary_cases"`
	Violations   []Violation `json:"violations"`
	Rule         string      `json:"rule"`
	DistinctOutc int         `json:"distinct_outcomes"`
}

// partStore is one node's view of the shared store.
type partStore struct {
	mu     *sync.Mutex
	ns     *metastore.NodeStore
	cut    *bool
	onRead func(key string)
	// beforeSet runs before a write that reaches the store; what it returns runs after the write succeeded
	beforeSet func(key string) func()
}

func (p *partStore) Exists(key string) (bool, error) {
	p.mu.Lock()
	defer p.mu.Unlock()
	p.ns.Frozen = *p.cut
	return p.ns.Exists(key)
}

func (p *partStore) Get(key string) (kv.Pair, error) {
	p.mu.Lock()
	defer p.mu.Unlock()
	p.ns.Frozen = *p.cut
	if p.onRead != nil {
		p.onRead(key)
	}
	return p.ns.Get(key)
}

func (p *partStore) GetAll(pattern string) ([]kv.Pair, error) {
	p.mu.Lock()
	defer p.mu.Unlock()
	p.ns.Frozen = *p.cut
	return p.ns.GetAll(pattern)
}

func (p *partStore) GetAllValues(pattern string) ([]string, error) {
	ps, err := p.GetAll(pattern)
	var out []string
	for _, x := range ps {
		out = append(out, x.Value)
	}
	return out, err
}

func (p *partStore) Set(key, value string, ver uint64) (kv.Pair, error) {
	p.mu.Lock()
	defer p.mu.Unlock()
	if *p.cut {
		return kv.Pair{}, dragonboat.ErrTimeout // the proposal never reaches a quorum
	}
	var after func()
	if p.beforeSet != nil {
		after = p.beforeSet(key)
	}
	pair, err := p.ns.Set(key, value, ver)
	if err == nil && after != nil {
		after()
	}
	return pair, err
}

func (p *partStore) Delete(key string, ver uint64) error {
	p.mu.Lock()
	defer p.mu.Unlock()
	if *p.cut {
		return dragonboat.ErrTimeout
	}
	return p.ns.Delete(key, ver)
}

func runCase(t *testing.T, c Case) (viols [][2]string, outcome string, polls int64, takeover bool) {
	synctest.Test(t, func(t *testing.T) {
		var mu sync.Mutex
		cl := metastore.NewCluster(2, false)
		cuts := [2]bool{}
		// the committed truth about the lease (under mu)
		truth := func() (holder uint64, until time.Time, ok bool) {
			for i := len(cl.Log) - 1; i >= 0; i-- {
				r := cl.Log[i]
				if r.Update.KVPair.Key != leaseKey || r.Code != kv.ResultCodeSuccess {
					continue
				}
				if r.Update.Op == kv.UpdateOpDelete {
					return 0, time.Time{}, false
				}
				var l table.Lease
				_ = json.Unmarshal([]byte(r.Update.KVPair.Value), &l)
				return l.ID, l.Until, true
			}
			return 0, time.Time{}, false
		}
		holders := map[uint64]bool{}
		q := storage.NewNotificationQueue()
		go q.Run()
		var workers []*replication.VerifWorker
		var engines []*storage.Engine
		var stores []*partStore
		var started sync.WaitGroup
		for n := 0; n < 2; n++ {
			n := n
			id := uint64(n + 1)
			ps := &partStore{mu: &mu, ns: &metastore.NodeStore{C: cl, Node: n}, cut: &cuts[n]}
			// a lease write that succeeds while the committed record names ANOTHER node and has not
			// expired puts two unexpired leases side by side (called under mu)
			ps.beforeSet = func(key string) func() {
				if key != leaseKey {
					return nil
				}
				h, until, ok := truth()
				now := time.Now()
				return func() {
					if ok && h != id && until.After(now) {
						viols = append(viols, [2]string{"worker/lease-granted-before-the-previous-lease-expired", fmt.Sprintf("node %d's lease request succeeded at +%v; the committed lease record named node %d until +%v", id, now.Sub(epoch()), h, until.Sub(epoch()))})
					}
				}
			}
			eng := &storage.Engine{Manager: table.VerifNewManager(ps, id)}
			rand.Seed(c.Seed + int64(n)*7919) // worker.Start sleeps rand.Intn(pollInterval) first
			w := replication.VerifNewStartableWorker(eng, "t", ps, q, time.Second, time.Second)
			workers = append(workers, w)
			engines = append(engines, eng)
			stores = append(stores, ps)
			started.Add(1)
			go func() {
				defer started.Done()
				w.Start()
			}()
		}
		// worker.Start returns after its start-up jitter (< one poll interval)
		started.Wait()
		synctest.Wait()
		// a worker polls the leader exactly while its lease flag is set: whenever it is, the committed
		// lease record must name that node and must not have expired
		observe := func() {
			mu.Lock()
			defer mu.Unlock()
			h, until, ok := truth()
			now := time.Now()
			for n, w := range workers {
				if w == nil || !w.Leased() {
					continue
				}
				polls++
				id := uint64(n + 1)
				holders[id] = true
				if !ok || h != id || until.Before(now) {
					viols = append(viols, [2]string{"worker/believes-it-holds-the-lease-without-a-valid-lease", fmt.Sprintf("node %d has its lease flag set at +%v; committed lease record: holder %d until +%v (exists %v)", id, now.Sub(epoch()), h, until.Sub(epoch()), ok)})
				}
			}
		}
		step := func() {
			time.Sleep(500 * time.Millisecond)
			synctest.Wait()
			observe()
		}
		for i := 0; i < c.Start; i++ {
			step()
		}
		if c.Len > 0 && c.Mode == "restart" {
			old := workers[c.Victim]
			old.Close() // returns the lease, as the replication manager does when it stops a worker
			synctest.Wait()
			mu.Lock()
			workers[c.Victim] = nil
			mu.Unlock()
			for i := 0; i < c.Len; i++ {
				step()
			}
			rand.Seed(c.Seed + 31)
			nw := replication.VerifNewStartableWorker(engines[c.Victim], "t", stores[c.Victim], q, time.Second, time.Second)
			nw.Start() // returns after its start-up jitter
			mu.Lock()
			workers[c.Victim] = nw
			mu.Unlock()
			synctest.Wait()
			observe()
		} else if c.Len > 0 {
			mu.Lock()
			cuts[c.Victim] = true
			mu.Unlock()
			for i := 0; i < c.Len; i++ {
				step()
			}
			mu.Lock()
			cuts[c.Victim] = false
			mu.Unlock()
		}
		for i := 0; i < c.After; i++ {
			step()
		}
		mu.Lock()
		var sb strings.Builder
		for _, r := range cl.Log {
			if r.Update.KVPair.Key == leaseKey && r.Code == kv.ResultCodeSuccess {
				fmt.Fprintf(&sb, "%d%s;", r.Node, r.Update.Op[:1])
			}
		}
		takeover = len(holders) > 1
		mu.Unlock()
		outcome = sb.String()
		for _, w := range workers {
			if w != nil {
				w.Close()
			}
		}
		_ = q.Close()
		synctest.Wait()
	})
	return viols, outcome, polls, takeover
}

// runBoundary: node 1 takes a 4 s lease through the real Manager.LeaseTable, node 2 asks for the
// table when the lease has `remaining` left (negative: that long after it ran out). The fake clock of
// the bubble makes the instant exact. A grant with time remaining is two unexpired leases at once.
func runBoundary(t *testing.T, c Case) (viols [][2]string, outcome string) {
	synctest.Test(t, func(t *testing.T) {
		var mu sync.Mutex
		cl := metastore.NewCluster(2, false)
		cuts := [2]bool{}
		var ms []*table.Manager
		for n := 0; n < 2; n++ {
			ps := &partStore{mu: &mu, ns: &metastore.NodeStore{C: cl, Node: n}, cut: &cuts[n]}
			ms = append(ms, table.VerifNewManager(ps, uint64(n+1)))
		}
		const lease = 4 * time.Second
		if err := ms[0].LeaseTable("t", lease); err != nil {
			viols = append(viols, [2]string{"boundary/first-lease-refused", err.Error()})
			return
		}
		remaining := time.Duration(c.RemainingNs)
		time.Sleep(lease - remaining)
		err := ms[1].LeaseTable("t", lease)
		outcome = fmt.Sprintf("remaining=%v granted=%v", remaining, err == nil)
		if err == nil && remaining > 0 {
			viols = append(viols, [2]string{"boundary/lease-granted-before-the-previous-lease-expired", fmt.Sprintf("node 2 was granted the table while node 1's lease had %v left", remaining)})
		}
		if err != nil && remaining <= -time.Hour {
			viols = append(viols, [2]string{"boundary/lease-never-granted-after-expiry", fmt.Sprintf("node 2 refused %v after node 1's lease ran out: %v", -remaining, err)})
		}
		// the holder itself may always renew; afterwards the other node is refused again
		if remaining > 0 && err != nil {
			if err := ms[0].LeaseTable("t", lease); err != nil {
				viols = append(viols, [2]string{"boundary/holder-cannot-renew", err.Error()})
			}
		}
	})
	return viols, outcome
}

var epochT time.Time

// epoch is the bubble's start time (every bubble starts at the same fake instant).
func epoch() time.Time {
	if epochT.IsZero() {
		epochT = time.Date(2000, 1, 1, 0, 0, 0, 0, time.UTC)
	}
	return epochT
}

func TestWorkerLeases(t *testing.T) {
	out := os.Getenv("VERIF_C15W_JSON")
	thorough := os.Getenv("VERIF_TIER") == "thorough"
	maxStart, maxLen, maxAfter := 4, 14, 4
	seeds := []int64{1, 2, 3}
	if thorough {
		maxStart, maxLen, maxAfter = 8, 20, 8
		seeds = []int64{1, 2, 3, 4, 5, 6}
	}
	res := Result{Rule: fmt.Sprintf("worker part: two real replication workers (real worker.Start: lease, statistics and replication routines on their own tickers, lease interval 1s, lease 4s) over real Manager.LeaseTable/ReturnTable and real kv.LFSM replicas in synctest bubbles; one node is cut off from the metadata store (proposals time out, reads stale) for a window: EVERY (start 0..%d, length 0..%d, tail 0..%d) on a half-interval grid x either node x %d start-up phases; and the same grid (length 1..6) with the node's worker closed (which returns the lease) at the start of the window and a new worker started on the same engine at its end; after every half interval a worker whose lease flag is set (it polls the leader exactly then) must be named by the committed lease record, which must not have expired, and no lease write may succeed while the committed record names another node and has not expired; expiry boundary: node 2 asks for a table that node 1 leased for 4s, at 18 exact instants from 2h after to 1ns before and 1ns..3.999s before the lease runs out (fake clock): granted only after it ran out", maxStart, maxLen, maxAfter, len(seeds))}
	outcomes := map[string]bool{}
	var cases []Case
	for _, seed := range seeds {
		for start := 0; start <= maxStart; start++ {
			for l := 0; l <= maxLen; l++ {
				for after := 0; after <= maxAfter; after++ {
					for victim := 0; victim < 2; victim++ {
						if l == 0 && (victim > 0 || after > 0) {
							continue
						}
						cases = append(cases, Case{Kind: "worker-lease", Seed: seed, Victim: victim, Start: start, Len: l, After: after})
						if l > 0 && l <= 6 && after > 0 {
							cases = append(cases, Case{Kind: "worker-lease", Mode: "restart", Seed: seed, Victim: victim, Start: start, Len: l, After: after})
						}
					}
				}
			}
		}
	}
	for _, rem := range []time.Duration{-2 * time.Hour, -time.Minute, -2 * time.Second, -time.Second, -time.Millisecond, -1, 1, time.Microsecond, time.Millisecond, 10 * time.Millisecond, 100 * time.Millisecond, 500 * time.Millisecond, 999 * time.Millisecond, time.Second, 1001 * time.Millisecond, 2 * time.Second, 3 * time.Second, 3999 * time.Millisecond} {
		cases = append(cases, Case{Kind: "lease-boundary", RemainingNs: int64(rem)})
	}
	if rp := os.Getenv("VERIF_C15W_REPLAY"); rp != "" {
		var c Case
		if err := json.Unmarshal([]byte(rp), &c); err != nil {
			t.Fatal(err)
		}
		cases = []Case{c}
	}
	for _, c := range cases {
		if c.Kind == "lease-boundary" {
			vs, outcome := runBoundary(t, c)
			res.Paths++
			res.Boundary++
			outcomes[outcome] = true
			for _, v := range vs {
				res.Violations = append(res.Violations, Violation{Sig: v[0], Detail: v[1] + " | " + c.String(), Case: c})
			}
			continue
		}
		vs, outcome, polls, takeover := runCase(t, c)
		res.Paths++
		res.Events += int64(c.Start + c.Len + c.After)
		res.HolderPolls += polls
		if takeover {
			res.Takeovers++
		}
		outcomes[outcome] = true
		seen := map[string]bool{}
		for _, v := range vs {
			if !seen[v[0]] {
				seen[v[0]] = true
				res.Violations = append(res.Violations, Violation{Sig: v[0], Detail: v[1] + " | " + c.String(), Case: c})
			}
		}
	}
	res.DistinctOutc = len(outcomes)
	b, _ := json.MarshalIndent(res, "", " ")
	if out != "" {
		if err := os.WriteFile(out, b, 0o644); err != nil {
			t.Fatal(err)
		}
	} else {
		fmt.Println(string(b))
	}
}
