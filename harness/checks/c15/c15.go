// Package c15: at most one follower node holds a table's replication lease at a time.
// SCHED: all interleavings, at the granularity of individual metadata-store reads and writes (plus
// replica lag on stale reads), of lease/renew/return calls by 2-3 real table.Managers.
package c15

import (
	"encoding/json"
	"errors"
	"fmt"
	"os"
	"strings"
	"time"

	serrors "github.com/jamf/regatta/storage/errors"
	"github.com/jamf/regatta/storage/kv"
	"github.com/jamf/regatta/storage/table"

	"verif/harness/evid"
	"verif/harness/metastore"
	"verif/harness/par"
	"verif/harness/sched"
)

const leaseKey = "/tables/t/lease"

const (
	opLeaseLong = iota
	opLeaseExpired
	opReturn
	nOps
)

var opName = []string{"lease(long)", "lease(already-expired)", "return"}

type Case struct {
	Initial  string  `json:"initial"` // none | node1-long | node3-expired
	Programs [][]int `json:"programs"`
	Lag      bool    `json:"lag"`
	Snap     bool    `json:"snapshot_catch_up,omitempty"` // lagging replicas move forward for reads by snapshot install
	Choices  []int   `json:"choices,omitempty"`
	Trace    string  `json:"trace,omitempty"`
}

type callRes struct {
	node int
	op   int
	err  error
	ok   bool
}

type world struct {
	stores []*metastore.NodeStore
	c      *metastore.Cluster
	calls  []callRes
}

func mk(c Case) (sched.Scenario, *world) {
	n := len(c.Programs)
	w := &world{c: metastore.NewCluster(n, c.Lag)}
	w.c.SnapReads = c.Snap
	switch c.Initial {
	case "node1-long":
		b, _ := json.Marshal(table.Lease{ID: 1, Until: time.Now().Add(time.Hour)})
		w.c.Seed(kv.Update{Op: kv.UpdateOpSet, KVPair: kv.Pair{Key: leaseKey, Value: string(b)}})
	case "node1-expired":
		b, _ := json.Marshal(table.Lease{ID: 1, Until: time.Now().Add(-time.Hour)})
		w.c.Seed(kv.Update{Op: kv.UpdateOpSet, KVPair: kv.Pair{Key: leaseKey, Value: string(b)}})
	case "node3-expired":
		b, _ := json.Marshal(table.Lease{ID: 3, Until: time.Now().Add(-time.Hour)})
		w.c.Seed(kv.Update{Op: kv.UpdateOpSet, KVPair: kv.Pair{Key: leaseKey, Value: string(b)}})
	}
	w.stores = make([]*metastore.NodeStore, n)
	sc := sched.Scenario{Key: w.key}
	for i := 0; i < n; i++ {
		i := i
		prog := c.Programs[i]
		sc.Threads = append(sc.Threads, func(t *sched.T) {
			st := &metastore.NodeStore{C: w.c, Node: i, T: t}
			w.stores[i] = st
			m := table.VerifNewManager(st, uint64(i+1))
			for k, op := range prog {
				st.Call = fmt.Sprintf("n%d.%d:%s", i, k, opName[op])
				var r callRes
				r.node, r.op = i, op
				switch op {
				case opLeaseLong:
					r.err = m.LeaseTable("t", time.Hour)
				case opLeaseExpired:
					r.err = m.LeaseTable("t", -time.Hour)
				case opReturn:
					r.ok, r.err = m.ReturnTable("t")
				}
				w.calls = append(w.calls, r)
			}
		})
	}
	return sc, w
}

// key is the complete state: shared log + replica positions + every thread's answer history.
func (w *world) key() string {
	var sb strings.Builder
	sb.WriteString(w.c.Key())
	for _, st := range w.stores {
		if st != nil {
			fmt.Fprintf(&sb, "|h%x", st.Hist)
		}
	}
	fmt.Fprintf(&sb, "|calls%d", len(w.calls))
	return sb.String()
}

type viol struct{ sig, detail string }

func check(x sched.Exec, w *world, c Case) (vs []viol, outcome string) {
	if strings.Contains(x.Panic, "metadata-replicas-disagree-under-batching") {
		return []viol{{"metadata-replicas-disagree-under-batching", x.Panic}}, "abnormal"
	}
	if w.c.Divergence != "" {
		return []viol{{"metadata-replicas-disagree-under-batching", w.c.Divergence}}, "abnormal"
	}
	if x.Deadlock || x.Livelock || x.Panic != "" || x.Diverged != "" {
		kind := "abnormal"
		if x.Deadlock {
			kind = "deadlock"
		}
		return []viol{{"execution-" + kind, fmt.Sprintf("deadlock=%v livelock=%v panic=%s diverged=%s", x.Deadlock, x.Livelock, x.Panic, x.Diverged)}}, "abnormal"
	}
	// scan the log in commit order
	var cur *table.Lease
	succSet := map[string]bool{} // call label -> made a successful set
	succDel := map[string]bool{}
	var sb strings.Builder
	for _, r := range w.c.Log {
		if r.Update.KVPair.Key != leaseKey || r.Code != kv.ResultCodeSuccess {
			continue
		}
		if r.Node < 0 {
			l := table.Lease{}
			_ = json.Unmarshal([]byte(r.Update.KVPair.Value), &l)
			cur = &l
			continue
		}
		issuer := uint64(r.Node + 1)
		if r.Update.Op == kv.UpdateOpSet {
			l := table.Lease{}
			if err := json.Unmarshal([]byte(r.Update.KVPair.Value), &l); err != nil {
				vs = append(vs, viol{"lease-record-unparsable", err.Error()})
				continue
			}
			if l.ID != issuer {
				vs = append(vs, viol{"lease-record-names-other-node", fmt.Sprintf("node %d wrote a lease for %d", issuer, l.ID)})
			}
			if cur != nil && cur.ID != issuer && !cur.Until.Before(time.Now()) {
				vs = append(vs, viol{"lease-granted-while-another-node-holds-unexpired-lease", fmt.Sprintf("node %d acquired at log index %d while node %d holds until %s (call %s)", issuer, r.Index, cur.ID, cur.Until.Format(time.RFC3339), r.Call)})
			}
			cur = &l
			succSet[r.Call] = true
			fmt.Fprintf(&sb, "S%d", issuer)
		} else {
			if cur != nil && cur.ID != issuer {
				vs = append(vs, viol{"return-removed-another-nodes-lease", fmt.Sprintf("node %d deleted the lease of node %d at log index %d (call %s)", issuer, cur.ID, r.Index, r.Call)})
			}
			succDel[r.Call] = true // a committed delete (of the caller's record, or of nothing)
			cur = nil
			fmt.Fprintf(&sb, "D%d", issuer)
		}
	}
	// call results must agree with what was committed
	perNode := map[int]int{}
	believers := map[int]bool{}
	if c.Initial == "node1-long" {
		believers[0] = true
	}
	for _, r := range w.calls {
		label := fmt.Sprintf("n%d.%d:%s", r.node, perNode[r.node], opName[r.op])
		perNode[r.node]++
		switch r.op {
		case opLeaseLong, opLeaseExpired:
			if (r.err == nil) != succSet[label] {
				vs = append(vs, viol{"lease-call-result-disagrees-with-store", fmt.Sprintf("%s returned %v, committed successful set: %v", label, r.err, succSet[label])})
			}
			if r.err != nil && !errors.Is(r.err, serrors.ErrLeaseNotAcquired) && !errors.Is(r.err, kv.ErrVersionMismatch) {
				vs = append(vs, viol{"lease-call-unexpected-error", fmt.Sprintf("%s: %v", label, r.err)})
			}
			if r.err == nil {
				believers[r.node] = r.op == opLeaseLong
			}
			fmt.Fprintf(&sb, ";%s=%v", label, r.err == nil)
		case opReturn:
			if r.ok != succDel[label] {
				vs = append(vs, viol{"return-call-result-disagrees-with-store", fmt.Sprintf("%s returned %v,%v, committed a delete: %v", label, r.ok, r.err, succDel[label])})
			}
			if r.err != nil && !errors.Is(r.err, kv.ErrVersionMismatch) {
				vs = append(vs, viol{"return-call-unexpected-error", fmt.Sprintf("%s: %v", label, r.err)})
			}
			if r.ok {
				believers[r.node] = false
			}
			fmt.Fprintf(&sb, ";%s=%v", label, r.ok)
		}
	}
	nb := 0
	for _, b := range believers {
		if b {
			nb++
		}
	}
	if nb > 1 {
		vs = append(vs, viol{"two-nodes-believe-they-hold-an-unexpired-lease", fmt.Sprint(believers)})
	}
	return vs, sb.String()
}

func programs(maxLen int) [][]int {
	var out [][]int
	var rec func(cur []int)
	rec = func(cur []int) {
		if len(cur) > 0 {
			out = append(out, append([]int(nil), cur...))
		}
		if len(cur) == maxLen {
			return
		}
		for op := 0; op < nOps; op++ {
			rec(append(cur, op))
		}
	}
	rec(nil)
	return out
}

func exploreCase(r *evid.Run, c Case, maxBound int) {
	var lastW *world
	states := sched.StateSet{}
	ex := &sched.Explorer{
		Mk: func() sched.Scenario {
			sc, w := mk(c)
			lastW = w
			return sc
		},
		Check: func(x sched.Exec, sc *sched.Scenario) string {
			vs, outcome := check(x, lastW, c)
			for _, v := range vs {
				cc := c
				cc.Choices = x.Choices
				cc.Trace = sched.TraceStr(x)
				r.Violate(v.sig, v.detail+" | trace: "+cc.Trace, cc)
			}
			r.Outcome(fmt.Sprint(c.Initial, c.Programs, c.Lag, c.Snap)+outcome, strings.Contains(outcome, "S") || strings.Contains(outcome, "D"))
			return outcome
		},
		MaxBound: maxBound,
		Prune:    maxBound < 0,
		Stop:     r.Expired,
		States:   states,
	}
	res := ex.Run()
	r.States.Add(int64(len(states)))
	r.Transitions.Add(res.Points)
	r.Validated.Add(res.Executions)
	r.AddExtra("executions", res.Executions)
	if !res.Exhausted {
		r.Cap(fmt.Sprintf("preemption bound %d not exhaustive for some scenario", res.Bound))
		r.AddExtra("scenarios_not_exhausted", 1)
	}
	if len(res.Outcomes) == 1 && res.Executions > 10 {
		r.AddExtra("scenarios_with_single_outcome", 1)
	}
	r.AddExtra("scenarios", 1)
}

func Run(r *evid.Run) {
	r.Check = "c15"
	initials := []string{"none", "node1-long", "node3-expired", "node1-expired"}
	r.Rule("scenarios = initial lease record {none, held by node 1 long, held by node 1 already expired, held by node 3 already expired} x per-node programs of 1-2 calls from {lease long, lease with an already-expired duration, return} for 2 nodes (all program pairs) and 3 nodes (quick: 1 call each; thorough: first two nodes up to 2 calls, third 1 call); real table.Manager.LeaseTable/ReturnTable over real kv.LFSM replicas sharing one log; scheduling points at every store read and write, plus the replica lag of every stale read as a data choice; every 2-node scenario and every 3-node scenario with one call per node is explored a second time with lagging replicas moving forward for reads by installing a snapshot of the log prefix (real PrepareSnapshot/SaveSnapshot/RecoverFromSnapshot) while catch-up before a node's own proposal stays log replay in one apply call; replicas must agree on the result of every log position; ALL interleavings (preemption bound raised until the space is exhausted). Oracle on the committed log in order: a successful lease write never replaces an unexpired lease of another node, a successful delete only removes the caller's lease, call results agree with what was committed, at most one believer. Non-trivial: at least one successful lease write/delete; distinct = distinct (scenario, commit order + call results)")
	p2 := programs(2)
	var cases []Case
	for _, ini := range initials {
		for _, a := range p2 {
			for _, b := range p2 {
				cases = append(cases, Case{Initial: ini, Programs: [][]int{a, b}, Lag: true}, Case{Initial: ini, Programs: [][]int{a, b}, Lag: true, Snap: true})
			}
		}
		p1 := programs(1)
		third := p1
		firsts := p1
		if r.Thorough() {
			firsts = p2
		}
		for _, a := range firsts {
			for _, b := range firsts {
				for _, cc := range third {
					cases = append(cases, Case{Initial: ini, Programs: [][]int{a, b, cc}, Lag: true})
					if len(a) == 1 && len(b) == 1 {
						cases = append(cases, Case{Initial: ini, Programs: [][]int{a, b, cc}, Lag: true, Snap: true})
					}
				}
			}
		}
	}
	mergeWorkerPart(r)
	done := par.For(int64(len(cases)), r.Expired, func(i int64) { exploreCase(r, cases[i], -1) })
	if done < int64(len(cases)) {
		r.Cap(fmt.Sprintf("deadline: %d of %d scenarios explored", done, len(cases)))
	}
	r.Sample(map[string]any{"initial": "node3-expired", "programs": [][]string{{"lease(long)", "return"}, {"lease(long)"}}, "points": "every store Get/Set/Delete + lag choice per read"})
	r.Assume("dragonboat contract modelled by the adapter: a proposal is committed when appended; its result is what the deterministic LFSM computes at that index; a stale read sees at least the node's own completed writes and any later prefix")
	r.Assume("lease durations are +1h (long) and -1h (already expired) in the scheduler part, so no verdict depends on wall-clock timing; the expiry boundary itself is decided in the worker part under a fake clock")
	r.Assume("traces_validated_against_impl counts executions: every step of every execution runs the real Manager and LFSM code (the Raft host is the modelled part; its adapter is conformance-checked under C13)")
}

// mergeWorkerPart reads what the worker-side test binary (checks/c15w, run by scripts/check.sh just
// before this process) found. Without it the check is incomplete: an infrastructure error.
func mergeWorkerPart(r *evid.Run) {
	path := os.Getenv("VERIF_C15W_JSON")
	b, err := os.ReadFile(path)
	if path == "" || err != nil {
		fmt.Println("INFRA: the result of the worker-side part of C15 is missing (run scripts/check.sh C15):", err)
		os.Exit(2)
	}
	var res struct {
		Paths      int64  `json:"paths"`
		Events     int64  `json:"events"`
		Observed   int64  `json:"observations_with_lease_flag_set"`
		Takeovers  int64  `json:"paths_with_a_takeover"`
		Boundary   int64  `json:"lease_boundary_cases"`
		Rule       string `json:"rule"`
		Distinct   int    `json:"distinct_outcomes"`
		Violations []struct {
			Sig    string          `json:"sig"`
			Detail string          `json:"detail"`
			Case   json.RawMessage `json:"case"`
		} `json:"violations"`
	}
	if err := json.Unmarshal(b, &res); err != nil {
		fmt.Println("INFRA: cannot read the result of the worker-side part of C15:", err)
		os.Exit(2)
	}
	r.Rule(res.Rule)
	r.Extra("worker_part_paths", res.Paths)
	r.Extra("worker_part_events", res.Events)
	r.Extra("worker_part_observations_with_lease_flag_set", res.Observed)
	r.Extra("worker_part_paths_with_a_takeover", res.Takeovers)
	r.Extra("worker_part_lease_boundary_cases", res.Boundary)
	r.Extra("worker_part_distinct_outcomes", res.Distinct)
	r.Transitions.Add(res.Events)
	r.Validated.Add(res.Paths)
	for i := int64(0); i < res.Paths; i++ {
		r.Evaluations.Add(1)
	}
	for _, v := range res.Violations {
		r.Violate(v.Sig, v.Detail, v.Case)
	}
}

func Replay(raw json.RawMessage) (string, bool) {
	var c Case
	if err := json.Unmarshal(raw, &c); err != nil {
		return err.Error(), false
	}
	var w *world
	x, _ := sched.Replay(func() sched.Scenario {
		sc, ww := mk(c)
		w = ww
		return sc
	}, c.Choices, 0)
	vs, _ := check(x, w, c)
	var sb strings.Builder
	fmt.Fprintf(&sb, "trace: %s\n", sched.TraceStr(x))
	for _, v := range vs {
		fmt.Fprintf(&sb, "%s: %s\n", v.sig, v.detail)
	}
	return sb.String(), len(vs) == 0
}
