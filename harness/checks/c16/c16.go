// Package c16: invalid requests are rejected without effect; no request can crash a server.
// Bounded exhaustive products of per-field domains for Range / IterateRange / Put / DeleteRange / Txn /
// Tables requests, passed through the registered codec and handed to the real servers over a real
// engine; a classifier written from the documented constraints gives the required outcome class.
package c16

import (
	"bytes"
	"context"
	"encoding/json"
	"fmt"
	"os"
	"sort"
	"strings"
	"time"

	"github.com/jamf/regatta/regattapb"
	"github.com/jamf/regatta/regattaserver"
	_ "github.com/jamf/regatta/regattaserver/encoding/proto"
	"google.golang.org/grpc"
	"google.golang.org/grpc/codes"
	"google.golang.org/grpc/encoding"
	"google.golang.org/grpc/status"
	"google.golang.org/protobuf/proto"

	"verif/harness/engx"
	"verif/harness/evid"
	"verif/harness/fsmx"
)

type viol struct{ sig, detail string }

var (
	key1024 = bytes.Repeat([]byte("K"), 1024)
	key1025 = bytes.Repeat([]byte("K"), 1025)
	val2M   = bytes.Repeat([]byte("V"), 2<<20)
	val2M1  = bytes.Repeat([]byte("V"), 2<<20+1)
)

type bfield struct {
	name string
	b    []byte
}

var tables = []bfield{{"empty", nil}, {"existing", []byte("t")}, {"unknown", []byte("nope")}}
var keys = []bfield{{"empty", nil}, {"k", []byte("k")}, {"1024B", key1024}, {"1025B", key1025}}
var rangeEnds = []bfield{{"absent", nil}, {"present-empty", []byte{}}, {"wildcard", []byte{0}}, {"z", []byte("z")}, {"1025B", key1025}}
var values = []bfield{{"empty", nil}, {"v", []byte("v")}, {"2MiB", val2M}, {"2MiB+1", val2M1}}

// want is the required outcome class.
type want struct {
	codes  []codes.Code // acceptable codes; nil with nonOK=false and free=false means OK
	nonOK  bool         // any non-OK status
	free   bool         // the property does not constrain the outcome (must still not crash / change state when refused)
	reason string
}

func (w want) String() string {
	switch {
	case w.free:
		return "unconstrained"
	case w.nonOK:
		return "any non-OK (" + w.reason + ")"
	case len(w.codes) > 0:
		return fmt.Sprint(w.codes) + " (" + w.reason + ")"
	}
	return "OK"
}

func (w want) accepts(c codes.Code) bool {
	switch {
	case w.free:
		return true
	case w.nonOK:
		return c != codes.OK
	case len(w.codes) > 0:
		for _, x := range w.codes {
			if x == c {
				return true
			}
		}
		return false
	}
	return c == codes.OK
}

type env struct {
	e      *engx.Engine
	kv     *regattaserver.KVServer
	tabs   *regattaserver.TablesServer
	rotabs *regattaserver.ReadonlyTablesServer
	codec  encoding.Codec
	base   string // digest of the observable state
}

// wire passes a request through the registered codec, so the server sees wire shapes.
func wire[T proto.Message](en *env, m T, fresh T) T {
	b, err := en.codec.Marshal(m)
	if err != nil {
		panic(err)
	}
	// present-but-empty bytes are not produced by the Go encoder; emulate a client that sends them
	if err := en.codec.Unmarshal(b, fresh); err != nil {
		panic(err)
	}
	return fresh
}

func (en *env) digest() string {
	var sb strings.Builder
	ts, err := en.e.GetTables()
	if err != nil {
		return "tables-error:" + err.Error()
	}
	names := []string{}
	for _, t := range ts {
		names = append(names, t.Name)
	}
	sort.Strings(names)
	fmt.Fprintf(&sb, "tables=%v;", names)
	for _, n := range names {
		kvs, err := en.e.Dump(n)
		if err != nil {
			fmt.Fprintf(&sb, "%s:error %v;", n, err)
			continue
		}
		fmt.Fprintf(&sb, "%s:%s;", n, fsmx.KVs(kvs))
	}
	return sb.String()
}

// after checks the outcome of one request against its class and the no-effect rule.
func (en *env) after(kind, desc string, w want, err error, panicked any, mutating bool) (vs []viol) {
	if panicked != nil {
		return []viol{{"handler-panic/" + kind, fmt.Sprintf("%s: %v (a panic in a handler terminates the serving process: no recovery interceptor is installed)", desc, panicked)}}
	}
	c := status.Code(err)
	if !w.accepts(c) {
		sig := fmt.Sprintf("wrong-status/%s/%s-instead-of-%s", kind, c, w.reasonKey())
		vs = append(vs, viol{sig, fmt.Sprintf("%s: got %s (%v), required %s", desc, c, err, w)})
	}
	if c != codes.OK || !mutating {
		if d := en.digest(); d != en.base {
			vs = append(vs, viol{"refused-or-read-request-changed-state/" + kind, fmt.Sprintf("%s answered %s but state changed: %s -> %s", desc, c, trunc(en.base), trunc(d))})
			en.base = d
		}
	} else {
		en.base = en.digest()
	}
	return vs
}

func (w want) reasonKey() string {
	if w.reason == "" {
		return "OK"
	}
	return strings.ReplaceAll(w.reason, " ", "-")
}

func trunc(s string) string {
	if len(s) > 300 {
		return s[:300] + "..."
	}
	return s
}

func call(f func() error) (err error, p any) {
	defer func() {
		if r := recover(); r != nil {
			p = r
		}
	}()
	return f(), nil
}

type recRange struct {
	grpc.ServerStream
	ctx  context.Context
	msgs int
}

func (s *recRange) Context() context.Context            { return s.ctx }
func (s *recRange) Send(*regattapb.RangeResponse) error { s.msgs++; return nil }

func classifyRange(t, k, re bfield, limit int64, keysOnly, countOnly bool, filter int) want {
	var cs []codes.Code
	var reasons []string
	if limit < 0 {
		cs, reasons = append(cs, codes.InvalidArgument), append(reasons, "negative limit")
	}
	if keysOnly && countOnly {
		cs, reasons = append(cs, codes.InvalidArgument), append(reasons, "keys_only with count_only")
	}
	if filter > 0 {
		cs, reasons = append(cs, codes.Unimplemented), append(reasons, "revision filter")
	}
	if len(t.b) == 0 {
		cs, reasons = append(cs, codes.InvalidArgument), append(reasons, "missing table")
	}
	if len(k.b) == 0 {
		cs, reasons = append(cs, codes.InvalidArgument), append(reasons, "missing key")
	}
	if len(cs) > 0 {
		return want{codes: cs, reason: strings.Join(reasons, "+")}
	}
	if t.name == "unknown" {
		return want{codes: []codes.Code{codes.NotFound}, reason: "unknown table"}
	}
	if len(k.b) > 1024 || len(re.b) > 1024 {
		return want{nonOK: true, reason: "over-size key"}
	}
	return want{}
}

func (en *env) runRanges(r *evid.Run) {
	ctx := context.Background()
	for _, t := range tables {
		for _, k := range keys {
			for _, re := range rangeEnds {
				for _, limit := range []int64{-1, 0, 1} {
					for fl := 0; fl < 8; fl++ {
						keysOnly, countOnly, lin := fl&1 != 0, fl&2 != 0, fl&4 != 0
						for filter := 0; filter < 5; filter++ {
							req := &regattapb.RangeRequest{Table: t.b, Key: k.b, RangeEnd: re.b, Limit: limit, KeysOnly: keysOnly, CountOnly: countOnly, Linearizable: lin}
							switch filter {
							case 1:
								req.MinModRevision = 1
							case 2:
								req.MaxModRevision = 1
							case 3:
								req.MinCreateRevision = 1
							case 4:
								req.MaxCreateRevision = 1
							}
							desc := fmt.Sprintf("Range{table=%s key=%s range_end=%s limit=%d keys_only=%v count_only=%v linearizable=%v filter=%d}", t.name, k.name, re.name, limit, keysOnly, countOnly, lin, filter)
							w := classifyRange(t, k, re, limit, keysOnly, countOnly, filter)
							for _, streamed := range []bool{false, true} {
								wreq := wire(en, req, &regattapb.RangeRequest{})
								if re.name == "present-empty" {
									wreq.RangeEnd = []byte{}
								}
								kind := "Range"
								evid.Journal("C16", desc)
								var err error
								var p any
								if streamed {
									kind = "IterateRange"
									c2, cancel := context.WithTimeout(ctx, 20*time.Second)
									err, p = call(func() error { return en.kv.IterateRange(wreq, &recRange{ctx: c2}) })
									cancel()
								} else {
									err, p = call(func() error { _, e := en.kv.Range(ctx, wreq); return e })
								}
								r.Outcome(kind+desc+status.Code(err).String(), true)
								for _, v := range en.after(kind, desc, w, err, p, false) {
									r.Violate(v.sig, v.detail, map[string]any{"kind": kind, "request": desc})
								}
							}
						}
					}
				}
			}
		}
	}
}

type kvReq struct {
	kind     string
	mutating bool
	f        func() error
}

// kvRequests: one request of every KV method naming table tb.
func (en *env) kvRequests(ctx context.Context, tb []byte) []kvReq {
	return []kvReq{
		{"Range", false, func() error { _, e := en.kv.Range(ctx, &regattapb.RangeRequest{Table: tb, Key: []byte("k")}); return e }},
		{"IterateRange", false, func() error {
			c2, cancel := context.WithTimeout(ctx, 10*time.Second)
			defer cancel()
			return en.kv.IterateRange(&regattapb.RangeRequest{Table: tb, Key: []byte("k")}, &recRange{ctx: c2})
		}},
		{"Put", true, func() error {
			_, e := en.kv.Put(ctx, &regattapb.PutRequest{Table: tb, Key: []byte("intruder"), Value: []byte("x")})
			return e
		}},
		{"DeleteRange", true, func() error {
			_, e := en.kv.DeleteRange(ctx, &regattapb.DeleteRangeRequest{Table: tb, Key: []byte{0}, RangeEnd: []byte{0}})
			return e
		}},
		{"Txn", true, func() error {
			_, e := en.kv.Txn(ctx, &regattapb.TxnRequest{Table: tb, Success: []*regattapb.RequestOp{{Request: &regattapb.RequestOp_RequestPut{RequestPut: &regattapb.RequestOp_Put{Key: []byte("intruder"), Value: []byte("x")}}}}})
			return e
		}},
	}
}

// runDeletedTable: a table that has just been used through every KV method and is then deleted
// through the Tables service is an unknown table from the moment the delete is answered: every KV
// method answers NotFound at once and nothing changes; re-created under the same name it is empty.
func (en *env) runDeletedTable(r *evid.Run) {
	ctx := context.Background()
	w := want{codes: []codes.Code{codes.NotFound}, reason: "unknown table (deleted a moment ago)"}
	for round := 0; round < 2; round++ {
		name := "gone"
		tb := []byte(name)
		if _, err := en.tabs.Create(ctx, &regattapb.CreateTableRequest{Name: name}); err != nil {
			r.Inconcl.Add(1)
			return
		}
		if err := en.e.WaitTable(name, 20*time.Second); err != nil {
			r.Inconcl.Add(1)
			return
		}
		// warm: every method is served once
		for _, rq := range en.kvRequests(ctx, tb) {
			_, _ = call(rq.f)
		}
		_, _ = en.kv.Put(ctx, &regattapb.PutRequest{Table: tb, Key: []byte("k"), Value: []byte("old")})
		if _, err := en.tabs.Delete(ctx, &regattapb.DeleteTableRequest{Name: name}); err != nil {
			r.Violate("deleted-table/delete-refused", err.Error(), map[string]any{"kind": "deleted-table"})
			return
		}
		en.base = en.digest()
		for _, rq := range en.kvRequests(ctx, tb) {
			desc := fmt.Sprintf("%s{table=%q, deleted a moment ago after being used}", rq.kind, name)
			evid.Journal("C16", desc)
			err, p := call(rq.f)
			r.Outcome(desc+status.Code(err).String(), true)
			r.AddExtra("deleted_table_requests", 1)
			for _, vv := range en.after(rq.kind, desc, w, err, p, false) {
				r.Violate("deleted-table/"+vv.sig, vv.detail, map[string]any{"kind": "deleted-table", "request": desc})
			}
		}
		if round == 1 {
			// re-created under the same name: a read names the NEW table
			if _, err := en.tabs.Create(ctx, &regattapb.CreateTableRequest{Name: name}); err == nil && en.e.WaitTable(name, 20*time.Second) == nil {
				res, err := en.kv.Range(ctx, &regattapb.RangeRequest{Table: tb, Key: []byte("k")})
				if err == nil && len(res.Kvs) != 0 {
					r.Violate("deleted-table/re-created-table-answers-with-the-old-content", fmt.Sprintf("Range{table=%q key=k} after delete + create: %d pairs", name, len(res.Kvs)), map[string]any{"kind": "deleted-table"})
				}
				_, _ = en.tabs.Delete(ctx, &regattapb.DeleteTableRequest{Name: name})
			}
		}
	}
	en.base = en.digest()
}

// runTableSpellings: names that are NOT the existing table "t" but could be taken for it by a lookup
// that normalises paths or trims: every KV method must answer NotFound and change nothing.
func (en *env) runTableSpellings(r *evid.Run) {
	ctx := context.Background()
	w := want{codes: []codes.Code{codes.NotFound}, reason: "unknown table"}
	for _, name := range []string{"t/", "t//", "t/.", "./t", "/t", "x/../t", "t ", " t", "T", "t\x00", "tables/t"} {
		reqs := en.kvRequests(ctx, []byte(name))
		for _, rq := range reqs {
			desc := fmt.Sprintf("%s{table=%q (not the existing table \"t\")}", rq.kind, name)
			evid.Journal("C16", desc)
			err, p := call(rq.f)
			r.Outcome(desc+status.Code(err).String(), true)
			r.AddExtra("table_spelling_requests", 1)
			// a request that is answered OK here has reached some table it did not name: the state
			// check applies whatever the method
			for _, vv := range en.after(rq.kind, desc, w, err, p, false) {
				r.Violate(vv.sig, vv.detail, map[string]any{"kind": rq.kind, "request": desc})
			}
		}
	}
}

func (en *env) runPuts(r *evid.Run) {
	ctx := context.Background()
	for _, t := range tables {
		for _, k := range keys {
			for _, v := range values {
				for _, prev := range []bool{false, true} {
					req := wire(en, &regattapb.PutRequest{Table: t.b, Key: k.b, Value: v.b, PrevKv: prev}, &regattapb.PutRequest{})
					desc := fmt.Sprintf("Put{table=%s key=%s value=%s prev_kv=%v}", t.name, k.name, v.name, prev)
					var w want
					switch {
					case len(t.b) == 0 || len(k.b) == 0:
						w = want{codes: []codes.Code{codes.InvalidArgument}, reason: "missing table or key"}
					case t.name == "unknown":
						w = want{codes: []codes.Code{codes.NotFound}, reason: "unknown table"}
					case len(k.b) > 1024 || len(v.b) > 2<<20:
						w = want{nonOK: true, reason: "over-size key or value"}
					}
					evid.Journal("C16", desc)
					err, p := call(func() error { _, e := en.kv.Put(ctx, req); return e })
					r.Outcome(desc+status.Code(err).String(), true)
					for _, vv := range en.after("Put", desc, w, err, p, true) {
						r.Violate(vv.sig, vv.detail, map[string]any{"kind": "Put", "request": desc})
					}
				}
			}
		}
	}
}

func (en *env) runDeletes(r *evid.Run) {
	ctx := context.Background()
	for _, t := range tables {
		for _, k := range keys {
			for _, re := range rangeEnds {
				for fl := 0; fl < 4; fl++ {
					req := wire(en, &regattapb.DeleteRangeRequest{Table: t.b, Key: k.b, RangeEnd: re.b, PrevKv: fl&1 != 0, Count: fl&2 != 0}, &regattapb.DeleteRangeRequest{})
					if re.name == "present-empty" {
						req.RangeEnd = []byte{}
					}
					desc := fmt.Sprintf("DeleteRange{table=%s key=%s range_end=%s prev_kv=%v count=%v}", t.name, k.name, re.name, fl&1 != 0, fl&2 != 0)
					var w want
					switch {
					case len(t.b) == 0 || len(k.b) == 0:
						w = want{codes: []codes.Code{codes.InvalidArgument}, reason: "missing table or key"}
					case t.name == "unknown":
						w = want{codes: []codes.Code{codes.NotFound}, reason: "unknown table"}
					case len(k.b) > 1024:
						w = want{nonOK: true, reason: "over-size key"}
					case len(re.b) > 1024:
						w = want{free: true}
					}
					evid.Journal("C16", desc)
					err, p := call(func() error { _, e := en.kv.DeleteRange(ctx, req); return e })
					r.Outcome(desc+status.Code(err).String(), true)
					for _, vv := range en.after("DeleteRange", desc, w, err, p, true) {
						r.Violate(vv.sig, vv.detail, map[string]any{"kind": "DeleteRange", "request": desc})
					}
					// keep the probe content alive
					en.reseed()
				}
			}
		}
	}
}

// cleanup empties the probe tables (large values accepted earlier make every state digest expensive).
func (en *env) cleanup() {
	ctx, cancel := context.WithTimeout(context.Background(), 20*time.Second)
	defer cancel()
	for _, tn := range []string{"t", "u"} {
		_, _ = en.e.Delete(ctx, &regattapb.DeleteRangeRequest{Table: []byte(tn), Key: []byte{0}, RangeEnd: []byte{0}})
	}
	en.reseed()
}

func (en *env) reseed() {
	ctx, cancel := context.WithTimeout(context.Background(), 10*time.Second)
	defer cancel()
	for _, tn := range []string{"t", "u"} {
		_, _ = en.e.Put(ctx, &regattapb.PutRequest{Table: []byte(tn), Key: []byte("k"), Value: []byte("seed")})
		_, _ = en.e.Put(ctx, &regattapb.PutRequest{Table: []byte(tn), Key: []byte("m"), Value: []byte("seed")})
	}
	en.base = en.digest()
}

type nestedOp struct {
	name    string
	op      *regattapb.RequestOp
	mustRej string // non-empty: the transaction must be refused for this reason
	writes  bool
}

func nestedOps() []nestedOp {
	var out []nestedOp
	rng := func(k bfield, re bfield, limit int64, both bool) nestedOp {
		return nestedOp{name: fmt.Sprintf("range(key=%s,end=%s,limit=%d,keys+count=%v)", k.name, re.name, limit, both),
			op: &regattapb.RequestOp{Request: &regattapb.RequestOp_RequestRange{RequestRange: &regattapb.RequestOp_Range{Key: k.b, RangeEnd: re.b, Limit: limit, KeysOnly: both, CountOnly: both}}}}
	}
	out = append(out, rng(keys[1], rangeEnds[0], 0, false), rng(keys[0], rangeEnds[0], 0, false), rng(keys[3], rangeEnds[2], 0, false), rng(keys[1], rangeEnds[4], 0, false), rng(keys[1], rangeEnds[2], -1, false), rng(keys[1], rangeEnds[2], 0, true))
	for _, k := range keys {
		for _, v := range []bfield{values[1], values[3]} {
			rej := ""
			switch {
			case len(k.b) == 0:
				rej = "nested put with empty key"
			case len(k.b) > 1024:
				rej = "nested put with over-size key"
			case len(v.b) > 2<<20:
				rej = "nested put with over-size value"
			}
			out = append(out, nestedOp{name: fmt.Sprintf("put(key=%s,value=%s)", k.name, v.name), writes: true, mustRej: rej,
				op: &regattapb.RequestOp{Request: &regattapb.RequestOp_RequestPut{RequestPut: &regattapb.RequestOp_Put{Key: k.b, Value: v.b, PrevKv: true}}}})
		}
	}
	for _, k := range []bfield{keys[0], keys[1], keys[3]} {
		for _, re := range []bfield{rangeEnds[0], rangeEnds[2], rangeEnds[4]} {
			out = append(out, nestedOp{name: fmt.Sprintf("delete(key=%s,end=%s)", k.name, re.name), writes: true,
				op: &regattapb.RequestOp{Request: &regattapb.RequestOp_RequestDeleteRange{RequestDeleteRange: &regattapb.RequestOp_DeleteRange{Key: k.b, RangeEnd: re.b, PrevKv: true, Count: true}}}})
		}
	}
	out = append(out, nestedOp{name: "empty-oneof", op: &regattapb.RequestOp{}})
	return out
}

type nestedCmp struct {
	name string
	c    *regattapb.Compare
}

func nestedCmps() []nestedCmp {
	var out []nestedCmp
	for _, k := range []bfield{keys[0], keys[1], keys[3]} {
		for _, re := range []bfield{rangeEnds[0], rangeEnds[2], rangeEnds[4]} {
			out = append(out, nestedCmp{fmt.Sprintf("exists(key=%s,end=%s)", k.name, re.name), &regattapb.Compare{Key: k.b, RangeEnd: re.b}})
		}
	}
	out = append(out,
		nestedCmp{"k==v", &regattapb.Compare{Key: []byte("k"), Result: regattapb.Compare_EQUAL, TargetUnion: &regattapb.Compare_Value{Value: []byte("v")}}},
		nestedCmp{"k<2MiB+1", &regattapb.Compare{Key: []byte("k"), Result: regattapb.Compare_LESS, TargetUnion: &regattapb.Compare_Value{Value: val2M1}}},
		nestedCmp{"result=7(out of enum)", &regattapb.Compare{Key: []byte("k"), Result: regattapb.Compare_CompareResult(7), TargetUnion: &regattapb.Compare_Value{Value: []byte("v")}}},
	)
	return out
}

func (en *env) runTxns(r *evid.Run, thorough bool) {
	ctx := context.Background()
	ops := nestedOps()
	cmps := nestedCmps()
	type opList struct {
		names []string
		ops   []*regattapb.RequestOp
		rej   string
		write bool
	}
	var lists []opList
	lists = append(lists, opList{})
	for _, a := range ops {
		lists = append(lists, opList{[]string{a.name}, []*regattapb.RequestOp{a.op}, a.mustRej, a.writes})
	}
	for _, a := range ops {
		for _, b := range ops {
			if !thorough && a.mustRej == "" && b.mustRej == "" && a.name > b.name {
				continue // quick: unordered pairs unless one of them must be rejected
			}
			rej := a.mustRej
			if rej == "" {
				rej = b.mustRej
			}
			lists = append(lists, opList{[]string{a.name, b.name}, []*regattapb.RequestOp{a.op, b.op}, rej, a.writes || b.writes})
		}
	}
	type cmpList struct {
		names []string
		cs    []*regattapb.Compare
	}
	cls := []cmpList{{}}
	for _, c := range cmps {
		cls = append(cls, cmpList{[]string{c.name}, []*regattapb.Compare{c.c}})
	}
	n := 0
	for _, t := range tables {
		for ci, cl := range cls {
			for li, l := range lists {
				// the branch that runs depends on the predicates; put the list in both branches
				if t.name != "existing" && (ci > 1 || li%7 != 0) {
					continue // table validation does not depend on the nested content: sample it
				}
				for _, branch := range []string{"then/else", "then", "else"} {
					if branch != "then/else" && (l.rej == "" || ci > 1) {
						continue // one-sided placement matters for the lists that must be refused
					}
					treq := &regattapb.TxnRequest{Table: t.b, Compare: cl.cs, Success: l.ops, Failure: l.ops}
					valid := []*regattapb.RequestOp{{Request: &regattapb.RequestOp_RequestPut{RequestPut: &regattapb.RequestOp_Put{Key: []byte("valid"), Value: []byte("v")}}}}
					switch branch {
					case "then":
						treq.Failure = valid
					case "else":
						treq.Success = valid
					}
					req := wire(en, treq, &regattapb.TxnRequest{})
					desc := fmt.Sprintf("Txn{table=%s if %v %s %v}", t.name, cl.names, branch, l.names)
					var w want
					switch {
					case len(t.b) == 0:
						w = want{codes: []codes.Code{codes.InvalidArgument}, reason: "missing table"}
					case t.name == "unknown":
						w = want{codes: []codes.Code{codes.NotFound}, reason: "unknown table"}
					case l.rej != "":
						w = want{nonOK: true, reason: l.rej}
					default:
						w = want{free: true} // malformed reads/deletes/predicates inside a transaction: unconstrained, must not crash
					}
					evid.Journal("C16", desc)
					err, p := call(func() error { _, e := en.kv.Txn(ctx, req); return e })
					r.Outcome(desc+status.Code(err).String(), true)
					for _, vv := range en.after("Txn", desc, w, err, p, l.write) {
						r.Violate(vv.sig, vv.detail, map[string]any{"kind": "Txn", "request": desc})
					}
					n++
					if l.write && n%16 == 0 {
						en.cleanup()
					}
				}
			}
		}
	}
	r.Extra("txn_requests", n)
}

func (en *env) runTables(r *evid.Run) {
	ctx := context.Background()
	names := []string{"", "newtab", "t", "a/b", "sys/idseq", "t/lease", "../x", "*"}
	idsSeen := map[string]bool{}
	if ts, err := en.e.GetTables(); err == nil {
		for _, t := range ts {
			idsSeen[fmt.Sprint(t.ClusterID)] = true
		}
	}
	for _, srv := range []string{"leader", "follower"} {
		for _, op := range []string{"Create", "Delete", "List"} {
			for _, name := range names {
				if op == "List" && name != "" {
					continue
				}
				desc := fmt.Sprintf("Tables.%s{name=%q}@%s", op, name, srv)
				evid.Journal("C16", desc)
				before, _ := en.e.GetTables()
				exists := false
				for _, t := range before {
					if t.Name == name {
						exists = true
					}
				}
				var err error
				var p any
				var createdID string
				switch {
				case srv == "follower" && op == "Create":
					err, p = call(func() error { _, e := en.rotabs.Create(ctx, &regattapb.CreateTableRequest{Name: name}); return e })
				case srv == "follower" && op == "Delete":
					err, p = call(func() error { _, e := en.rotabs.Delete(ctx, &regattapb.DeleteTableRequest{Name: name}); return e })
				case op == "Create":
					err, p = call(func() error {
						resp, e := en.tabs.Create(ctx, &regattapb.CreateTableRequest{Name: name})
						if e == nil {
							createdID = resp.Id
						}
						return e
					})
				case op == "Delete":
					err, p = call(func() error { _, e := en.tabs.Delete(ctx, &regattapb.DeleteTableRequest{Name: name}); return e })
				default:
					err, p = call(func() error { _, e := en.tabs.List(ctx, &regattapb.ListTablesRequest{}); return e })
				}
				var w want
				mutating := false
				switch {
				case op == "List":
				case srv == "follower":
					w = want{codes: []codes.Code{codes.Unimplemented}, reason: "table mutation on a follower"}
				case name == "":
					w = want{codes: []codes.Code{codes.InvalidArgument}, reason: "missing name"}
				case op == "Create" && exists:
					w = want{nonOK: true, reason: "table exists"}
				case op == "Delete" && !exists:
					w = want{nonOK: true, reason: "no such table"}
				default:
					mutating = true
					w = want{free: true}
				}
				r.Outcome(desc+status.Code(err).String(), true)
				for _, vv := range en.after("Tables."+op, desc, w, err, p, mutating) {
					r.Violate(vv.sig, vv.detail, map[string]any{"kind": "Tables", "request": desc})
				}
				if createdID != "" {
					_ = en.e.WaitTable(name, 20*time.Second)
					en.base = en.digest()
					if idsSeen[createdID] {
						r.Violate("tables/shard-id-handed-out-twice", fmt.Sprintf("%s returned id %s which an earlier Create returned", desc, createdID), map[string]any{"kind": "Tables", "request": desc})
					}
					idsSeen[createdID] = true
					// whatever was created must be visible in the list (listing reflects precisely the created tables)
					after, _ := en.e.GetTables()
					found := false
					for _, t := range after {
						if t.Name == name {
							found = true
						}
					}
					if !found {
						r.Violate("tables/created-table-not-listed", desc, map[string]any{"kind": "Tables", "request": desc})
					}
				}
			}
		}
	}
	// ids keep growing after everything above (the id sequence survived hostile names)
	resp, err := en.tabs.Create(ctx, &regattapb.CreateTableRequest{Name: "after-hostile-names"})
	if err == nil && idsSeen[resp.Id] {
		r.Violate("tables/shard-id-handed-out-twice", fmt.Sprintf("Create after the name sweep returned id %s again", resp.Id), map[string]any{"kind": "Tables", "request": "create after sweep"})
	}
}

func Run(r *evid.Run) {
	r.Check = "c16"
	r.Rule("per-field domain products through the registered codec into the real KVServer / TablesServer / ReadonlyTablesServer over a real engine: Range and IterateRange = table{empty,existing,unknown} x key{empty,k,1024B,1025B} x range_end{absent,present-empty,wildcard,z,1025B} x limit{-1,0,1} x keys_only x count_only x linearizable x revision filter{none, each of 4}; Put = table x key x value{empty,v,2MiB,2MiB+1} x prev_kv; DeleteRange = table x key x range_end x prev_kv x count; Txn = table x <=1 of 12 predicates x <=2 of 24 nested operations (reads/puts/deletes over the same domains, empty oneof, out-of-enum comparison) in both branches, and for lists that must be refused also in the success branch only and in the failure branch only; every KV method with 11 table names that are not the existing table but could be taken for it (trailing or leading slash, dot segments, case, blanks, NUL): NotFound and nothing changed; every KV method on a table that was used through every method and then deleted through the Tables service: NotFound at once, nothing changed, re-created it is empty; Tables create/delete/list with names {empty,new,existing,a/b,sys/idseq,t/lease,../x,*} on leader and follower wiring. Classifier from the documented constraints; after every refused or read-only request the table list and the full content of every table must be unchanged; a handler panic or a dead process is a violation. Non-trivial: every request; distinct = distinct (request, status)")
	eng, err := engx.Start(engx.Opts{})
	if err != nil {
		fmt.Println("INFRA: engine start failed:", err)
		os.Exit(2)
	}
	defer eng.Close()
	en := &env{e: eng, codec: encoding.GetCodec("proto")}
	en.kv = &regattaserver.KVServer{Storage: eng.Engine}
	noAuth := func(ctx context.Context) (context.Context, error) { return ctx, nil }
	en.tabs = &regattaserver.TablesServer{Tables: eng.Engine, AuthFunc: noAuth}
	en.rotabs = &regattaserver.ReadonlyTablesServer{TablesServer: regattaserver.TablesServer{Tables: eng.Engine, AuthFunc: noAuth}}
	for _, tn := range []string{"t", "u"} {
		if _, err := eng.CreateTable(tn); err != nil {
			fmt.Println("INFRA: create table:", err)
			os.Exit(2)
		}
		if err := eng.WaitTable(tn, 20*time.Second); err != nil {
			fmt.Println("INFRA:", err)
			os.Exit(2)
		}
	}
	en.reseed()
	en.runTableSpellings(r)
	en.runDeletedTable(r)
	en.runRanges(r)
	en.runPuts(r)
	en.cleanup()
	en.runDeletes(r)
	en.cleanup()
	en.runTxns(r, r.Thorough())
	en.cleanup()
	en.runTables(r)
	r.Sample("Txn{table=existing if [exists(key=k,end=absent)] then/else [put(key=1025B,value=v) range(key=k,end=wildcard,limit=-1,keys+count=false)]}")
	r.Sample("Range{table=existing key=1024B range_end=present-empty limit=1 keys_only=true count_only=false linearizable=true filter=0}")
	r.Assume("handlers are invoked directly with requests that went through the registered codec; a handler panic is reported as 'terminates the serving process' because the servers install no recovery interceptor")
	r.Assume("operations nested in a transaction other than record-creating puts (malformed reads, deletes, predicates) are unconstrained by the property: they must not crash and must not change state when refused")
}

func Replay(raw json.RawMessage) (string, bool) {
	return "C16 requests are deterministic: re-run scripts/check.sh C16 quick; request: " + string(raw) + "\n", false
}
