// Package c14: table catalogue - unique names, never-reused ids, reconciliation difference.
// (i) SCHED races of catalogue operations by 2-3 real Managers over a shared versioned store,
// (iii) exhaustive enumeration of diffTables. Part (ii), sequences on a real engine, lives in the
// engine-based checks.
package c14

import (
	"bytes"
	"context"
	"encoding/json"
	"errors"
	"fmt"
	"io"
	"os"
	"reflect"
	"sort"
	"strconv"
	"strings"
	"sync"
	"sync/atomic"
	"time"

	"github.com/jamf/regatta/regattapb"
	"github.com/jamf/regatta/regattaserver"
	"github.com/jamf/regatta/replication/snapshot"
	serrors "github.com/jamf/regatta/storage/errors"
	"github.com/jamf/regatta/storage/kv"
	"github.com/jamf/regatta/storage/table"
	"github.com/lni/dragonboat/v4"
	"google.golang.org/grpc"
	"google.golang.org/grpc/status"

	"verif/harness/engx"
	"verif/harness/evid"
	"verif/harness/metastore"
	"verif/harness/par"
	"verif/harness/sched"
)

const (
	opCreateA = iota
	opCreateB
	opDeleteA
	opAllocID
	nOps
)

var opName = []string{"create(a)", "create(b)", "delete(a)", "allocate-id"}

type Case struct {
	Initial  string  `json:"initial"` // empty | a-exists
	Programs [][]int `json:"programs"`
	Lag      bool    `json:"lag"`
	Snap     bool    `json:"snap,omitempty"` // lagging replicas move forward by snapshot install, not by log replay
	Choices  []int   `json:"choices,omitempty"`
	Trace    string  `json:"trace,omitempty"`
}

type call struct {
	node, k, op int
	begin, end  int
	err         error
	id          uint64
	label       string
}

type world struct {
	stores []*metastore.NodeStore
	c      *metastore.Cluster
	calls  []*call
	step   int
}

func mk(c Case) (sched.Scenario, *world) {
	n := len(c.Programs)
	w := &world{c: metastore.NewCluster(n, c.Lag)}
	w.c.SnapReads = c.Snap
	if c.Initial == "a-exists" {
		w.c.Seed(kv.Update{Op: kv.UpdateOpSet, KVPair: kv.Pair{Key: "/tables/sys/idseq", Value: "10001"}})
		b, _ := json.Marshal(table.Table{Name: "a", ClusterID: 10001})
		w.c.Seed(kv.Update{Op: kv.UpdateOpSet, KVPair: kv.Pair{Key: "/tables/a", Value: string(b)}})
	}
	w.stores = make([]*metastore.NodeStore, n)
	sc := sched.Scenario{Key: w.key}
	for i := 0; i < n; i++ {
		i := i
		prog := c.Programs[i]
		sc.Threads = append(sc.Threads, func(t *sched.T) {
			st := &metastore.NodeStore{C: w.c, Node: i, T: t}
			w.stores[i] = st
			m := table.VerifNewManager(st, uint64(i+1))
			srv := &regattaserver.TablesServer{Tables: tableSvc{m}}
			for k, op := range prog {
				cl := &call{node: i, k: k, op: op, label: fmt.Sprintf("n%d.%d:%s", i, k, opName[op])}
				st.Call = cl.label
				t.Point(cl.label + ".begin")
				cl.begin = len(w.c.Log)
				st.Hist = st.Hist*31 + uint64(cl.begin) + 7
				switch op {
				case opCreateA, opCreateB:
					name := "a"
					if op == opCreateB {
						name = "b"
					}
					// through the real gRPC handler (what a client of the Tables API reaches)
					resp, err := srv.Create(context.Background(), &regattapb.CreateTableRequest{Name: name})
					cl.err = handlerErr(err)
					if err == nil {
						cl.id, _ = strconv.ParseUint(resp.Id, 10, 64)
					}
				case opDeleteA:
					_, err := srv.Delete(context.Background(), &regattapb.DeleteTableRequest{Name: "a"})
					cl.err = handlerErr(err)
				case opAllocID:
					cl.id, cl.err = m.VerifIncAndGetIDSeq()
				}
				cl.end = len(w.c.Log)
				w.calls = append(w.calls, cl)
			}
		})
	}
	return sc, w
}

// key is the complete state: shared log + replica positions + every thread's answer history and
// the begin/end stamps of calls (the oracle reads them).
func (w *world) key() string {
	var sb strings.Builder
	sb.WriteString(w.c.Key())
	for _, st := range w.stores {
		if st != nil {
			fmt.Fprintf(&sb, "|h%x", st.Hist)
		}
	}
	for _, cl := range w.calls {
		fmt.Fprintf(&sb, "|%d.%d:%d-%d", cl.node, cl.k, cl.begin, cl.end)
	}
	return sb.String()
}

type viol struct{ sig, detail string }

func check(x sched.Exec, w *world, c Case) (vs []viol, outcome string) {
	if strings.Contains(x.Panic, "metadata-replicas-disagree-under-batching") {
		return []viol{{"metadata-replicas-disagree-under-batching", x.Panic}}, "abnormal"
	}
	if w.c.Divergence != "" {
		return []viol{{"metadata-replicas-disagree-under-batching", w.c.Divergence}}, "abnormal"
	}
	if x.Deadlock || x.Livelock || x.Panic != "" || x.Diverged != "" {
		return []viol{{"execution-abnormal", fmt.Sprintf("deadlock=%v livelock=%v panic=%s diverged=%s", x.Deadlock, x.Livelock, x.Panic, x.Diverged)}}, "abnormal"
	}
	present := map[string]bool{}
	created := map[string]bool{} // call label -> committed creation
	deleted := map[string]bool{} // call label -> committed a delete
	var sb strings.Builder
	// timeline[p][name] = presence after the first p log entries
	timeline := []map[string]bool{{}}
	for _, r := range w.c.Log {
		key := r.Update.KVPair.Key
		if r.Code == kv.ResultCodeSuccess && key != "/tables/sys/idseq" && strings.HasPrefix(key, "/tables/") {
			name := strings.TrimPrefix(key, "/tables/")
			if r.Update.Op == kv.UpdateOpSet {
				if r.Node >= 0 {
					if present[name] {
						vs = append(vs, viol{"create-succeeded-although-table-exists", fmt.Sprintf("%s committed a record for %q at log index %d while it exists", r.Call, name, r.Index)})
					}
					created[r.Call] = true
					fmt.Fprintf(&sb, "C%s", name)
				}
				present[name] = true
			} else {
				if r.Node >= 0 {
					deleted[r.Call] = true
					// only a delete call removes a table ("listing and lookup reflect precisely the
					// created-and-not-deleted tables"): a record removed on behalf of any other call
					// makes an acknowledged table vanish
					if !strings.Contains(r.Call, opName[opDeleteA]) {
						vs = append(vs, viol{"table-record-removed-by-a-call-that-is-not-a-delete", fmt.Sprintf("%s removed the record of %q at log index %d (existed: %v)", r.Call, name, r.Index, present[name])})
					}
					if present[name] {
						fmt.Fprintf(&sb, "D%s", name)
					}
				}
				delete(present, name)
			}
		}
		snap := map[string]bool{}
		for k, v := range present {
			snap[k] = v
		}
		timeline = append(timeline, snap)
	}
	// existedDuring: the table was present / absent at some moment of the call
	during := func(cl *call, name string, want bool) bool {
		for p := cl.begin; p <= cl.end && p < len(timeline); p++ {
			if timeline[p][name] == want {
				return true
			}
		}
		return false
	}
	// call results agree with the committed log; collect handed-out ids
	type got struct {
		id         uint64
		begin, end int
		label      string
	}
	var ids []got
	for _, cl := range w.calls {
		switch cl.op {
		case opCreateA, opCreateB:
			if (cl.err == nil) != created[cl.label] {
				vs = append(vs, viol{"create-result-disagrees-with-catalogue", fmt.Sprintf("%s returned %v, committed creation: %v", cl.label, cl.err, created[cl.label])})
			}
			nm := "a"
			if cl.op == opCreateB {
				nm = "b"
			}
			if !c.Lag && errors.Is(cl.err, serrors.ErrTableExists) && !during(cl, nm, true) {
				vs = append(vs, viol{"create-refused-although-table-never-existed-during-call", cl.label})
			}
			if cl.err != nil && !errors.Is(cl.err, serrors.ErrTableExists) && !errors.Is(cl.err, kv.ErrVersionMismatch) {
				vs = append(vs, viol{"create-unexpected-error", fmt.Sprintf("%s: %v", cl.label, cl.err)})
			}
			if cl.err == nil {
				ids = append(ids, got{cl.id, cl.begin, cl.end, cl.label})
			}
		case opDeleteA:
			if (cl.err == nil) != deleted[cl.label] {
				vs = append(vs, viol{"delete-result-disagrees-with-catalogue", fmt.Sprintf("%s returned %v, committed a delete: %v", cl.label, cl.err, deleted[cl.label])})
			}
			// "deleting succeeds only if it exists": the table existed at some moment of the call
			if !c.Lag && cl.err == nil && !during(cl, "a", true) {
				vs = append(vs, viol{"delete-succeeded-although-table-never-existed-during-call", cl.label})
			}
			if !c.Lag && errors.Is(cl.err, serrors.ErrTableNotFound) && !during(cl, "a", false) {
				vs = append(vs, viol{"delete-refused-although-table-existed-throughout-call", cl.label})
			}
			if cl.err != nil && !errors.Is(cl.err, serrors.ErrTableNotFound) && !errors.Is(cl.err, kv.ErrVersionMismatch) {
				vs = append(vs, viol{"delete-unexpected-error", fmt.Sprintf("%s: %v", cl.label, cl.err)})
			}
		case opAllocID:
			if cl.err == nil {
				ids = append(ids, got{cl.id, cl.begin, cl.end, cl.label})
			} else if !errors.Is(cl.err, kv.ErrVersionMismatch) {
				vs = append(vs, viol{"allocate-unexpected-error", fmt.Sprintf("%s: %v", cl.label, cl.err)})
			}
		}
		fmt.Fprintf(&sb, ";%s=%v/%d", cl.label, cl.err == nil, cl.id)
	}
	base := uint64(10000)
	if c.Initial == "a-exists" {
		base = 10001
	}
	for i, a := range ids {
		if a.id <= base {
			vs = append(vs, viol{"id-not-above-previously-assigned", fmt.Sprintf("%s got id %d, ids up to %d were assigned before", a.label, a.id, base)})
		}
		for j, b := range ids {
			if i < j && a.id == b.id {
				vs = append(vs, viol{"id-handed-out-twice", fmt.Sprintf("%s and %s both got id %d", a.label, b.label, a.id)})
			}
			if i != j && a.end <= b.begin && b.id <= a.id {
				vs = append(vs, viol{"id-not-greater-than-earlier-assigned-id", fmt.Sprintf("%s (completed first) got %d, %s got %d", a.label, a.id, b.label, b.id)})
			}
		}
	}
	// final catalogue equals the model of committed operations
	final := w.c.Final()
	var names []string
	for _, f := range final {
		if strings.HasPrefix(f, "/tables/") && !strings.HasPrefix(f, "/tables/sys/") {
			names = append(names, strings.SplitN(strings.TrimPrefix(f, "/tables/"), "=", 2)[0])
		}
	}
	var want []string
	for n := range present {
		want = append(want, n)
	}
	sort.Strings(names)
	sort.Strings(want)
	if !reflect.DeepEqual(names, want) && !(len(names) == 0 && len(want) == 0) {
		vs = append(vs, viol{"catalogue-differs-from-committed-operations", fmt.Sprintf("store %v model %v", names, want)})
	}
	// every catalogued table carries a distinct id
	seenID := map[uint64]string{}
	for _, f := range final {
		if strings.HasPrefix(f, "/tables/") && !strings.HasPrefix(f, "/tables/sys/") {
			v := strings.SplitN(f, "=", 2)[1]
			v = v[:strings.LastIndex(v, "@")]
			var t table.Table
			if err := json.Unmarshal([]byte(v), &t); err == nil {
				if o, ok := seenID[t.ClusterID]; ok {
					vs = append(vs, viol{"two-tables-share-a-shard-id", fmt.Sprintf("%s and %s: %d", o, t.Name, t.ClusterID)})
				}
				seenID[t.ClusterID] = t.Name
			}
		}
	}
	return vs, sb.String()
}

func programs(maxLen int) [][]int {
	var out [][]int
	var rec func(cur []int)
	rec = func(cur []int) {
		if len(cur) > 0 {
			out = append(out, append([]int(nil), cur...))
		}
		if len(cur) == maxLen {
			return
		}
		for op := 0; op < nOps; op++ {
			rec(append(cur, op))
		}
	}
	rec(nil)
	return out
}

func exploreCase(r *evid.Run, c Case) {
	var lastW *world
	states := sched.StateSet{}
	ex := &sched.Explorer{
		Mk: func() sched.Scenario {
			sc, w := mk(c)
			lastW = w
			return sc
		},
		Check: func(x sched.Exec, sc *sched.Scenario) string {
			vs, outcome := check(x, lastW, c)
			for _, v := range vs {
				cc := c
				cc.Choices = x.Choices
				cc.Trace = sched.TraceStr(x)
				r.Violate("race/"+v.sig, v.detail+" | trace: "+cc.Trace, cc)
			}
			r.Outcome(fmt.Sprint(c.Initial, c.Programs, c.Lag, c.Snap)+outcome, strings.ContainsAny(outcome, "CD"))
			return outcome
		},
		MaxBound: -1,
		Prune:    true,
		Stop:     r.Expired,
		States:   states,
	}
	res := ex.Run()
	r.States.Add(int64(len(states)))
	r.Transitions.Add(res.Points)
	r.Validated.Add(res.Executions)
	r.AddExtra("race_executions", res.Executions)
	r.AddExtra("race_scenarios", 1)
	if !res.Exhausted {
		r.Cap("deadline: a race scenario was not exhausted")
	}
	if len(res.Outcomes) == 1 && res.Executions > 10 {
		r.AddExtra("race_scenarios_with_single_outcome", 1)
	}
}

// diffTables -------------------------------------------------------------------------------------

func runDiff(r *evid.Run) {
	ids := []uint64{0, 10001, 10002, 10003}
	running := []uint64{1000, 2000, 10001, 10002, 10003, 10004}
	type tabOpt struct {
		present  bool
		cid, rid uint64
	}
	var opts []tabOpt
	opts = append(opts, tabOpt{})
	for _, c := range ids {
		for _, rr := range ids {
			opts = append(opts, tabOpt{true, c, rr})
		}
	}
	names := []string{"a", "b", "c"}
	n := len(opts)
	total := int64(n * n * n)
	var mu sync.Mutex
	par.For(total, nil, func(i int64) {
		sel := []int{int(i) % n, int(i) / n % n, int(i) / n / n}
		tabs := map[string]table.Table{}
		cat := map[uint64]bool{}
		for k, s := range sel {
			o := opts[s]
			if !o.present {
				continue
			}
			tabs[names[k]] = table.Table{Name: names[k], ClusterID: o.cid, RecoverID: o.rid}
			if o.cid != 0 {
				cat[o.cid] = true
			}
			if o.rid != 0 {
				cat[o.rid] = true
			}
		}
		for mask := 0; mask < 1<<len(running); mask++ {
			var info []dragonboat.ShardInfo
			run := map[uint64]bool{}
			for b, id := range running {
				if mask&(1<<b) != 0 {
					info = append(info, dragonboat.ShardInfo{ShardID: id})
					run[id] = true
				}
			}
			start, stop := table.VerifDiffTables(tabs, info)
			var gotStart, wantStart, wantStop []uint64
			for id := range start {
				gotStart = append(gotStart, id)
			}
			for id := range cat {
				if id > 10000 && !run[id] {
					wantStart = append(wantStart, id)
				}
			}
			for id := range run {
				if id > 10000 && !cat[id] {
					wantStop = append(wantStop, id)
				}
			}
			gotStop := append([]uint64(nil), stop...)
			for _, s := range [][]uint64{gotStart, wantStart, gotStop, wantStop} {
				sort.Slice(s, func(a, b int) bool { return s[a] < s[b] })
			}
			r.OutcomeHash(uint64(i)*64+uint64(mask), len(gotStart)+len(gotStop) > 0)
			if fmt.Sprint(gotStart) != fmt.Sprint(wantStart) {
				mu.Lock()
				r.Violate("diff/start-set-wrong", fmt.Sprintf("catalogue %v running %v: start %v want %v", tabs, keys(run), gotStart, wantStart), map[string]any{"kind": "diff", "tables": tabs, "running": keys(run)})
				mu.Unlock()
			}
			if fmt.Sprint(gotStop) != fmt.Sprint(wantStop) {
				mu.Lock()
				r.Violate("diff/stop-set-wrong", fmt.Sprintf("catalogue %v running %v: stop %v want %v", tabs, keys(run), gotStop, wantStop), map[string]any{"kind": "diff", "tables": tabs, "running": keys(run)})
				mu.Unlock()
			}
			// started tables carry the right name
			for id, t := range start {
				if tt, ok := tabs[t.Name]; !ok || (tt.ClusterID != id && tt.RecoverID != id) {
					mu.Lock()
					r.Violate("diff/start-maps-id-to-wrong-table", fmt.Sprintf("id %d -> %v", id, t), map[string]any{"kind": "diff", "tables": tabs})
					mu.Unlock()
				}
			}
		}
	})
	r.Extra("diff_cases", total*int64(1<<len(running)))
}

func keys(m map[uint64]bool) []uint64 {
	var out []uint64
	for k := range m {
		out = append(out, k)
	}
	sort.Slice(out, func(a, b int) bool { return out[a] < out[b] })
	return out
}

func Run(r *evid.Run) {
	r.Check = "c14"
	r.Rule("(i) races: initial catalogue {empty, table a exists} x per-manager programs of 1-2 operations from {create a, create b, delete a, allocate a restore id} for 2 managers (all program pairs) and 3 managers (1 operation each; thorough: two of them up to 2), real Manager.createTable/DeleteTable/incAndGetIDSeq over real kv.LFSM replicas sharing one log, scheduling points at every store call; every scenario is explored twice - all managers on one replica (no lag), and each manager on its own replica whose lag at every stale read is a data choice (two managers: once more with the lagging replica moving forward by installing a snapshot of the log prefix into its non-empty store instead of replaying the entries; replicas must keep producing the same result for every log entry); ALL interleavings. Oracle on the committed log: no creation while the name exists, results agree with the log, ids distinct, above earlier ids and increasing across non-overlapping calls, final catalogue = model, distinct ids per table; without lag additionally: a refusal/success must be justified by the table's presence/absence at some moment of the call. (ii) every sequence of length <= 3 (thorough 4) over {create a/b, delete a/b, put into a/b, restore a from a two-pair stream, the same restore with a reconcile pass landing at its first read (at most one restore per sequence), reconcile} on a real engine: create succeeds iff absent, delete iff present, ids grow, listing and lookup reflect exactly the live set, a created / recreated / restored table holds exactly the model content (a recreated one is empty), operations on one table never change the other, after a final reconcile running shards = catalogued shards; plus delete/create/delete and create/create/delete/delete of 10 odd names (path separators, names of internal records, empty, non-ASCII), each step followed by the creation of a fresh table whose id must exceed every earlier id. (iii) diffTables: every catalogue of <= 3 tables with ClusterID/RecoverID from {0,10001..10003} x every subset of running shards {1000,2000,10001..10004}: start = catalogued ids above the reserved range not running, stop = running ids above it not catalogued. Non-trivial: something was created/deleted resp. the diff is non-empty; distinct = distinct outcomes")
	var cases []Case
	p2, p1 := programs(2), programs(1)
	for _, ini := range []string{"empty", "a-exists"} {
		for _, a := range p2 {
			for _, b := range p2 {
				cases = append(cases, Case{Initial: ini, Programs: [][]int{a, b}}, Case{Initial: ini, Programs: [][]int{a, b}, Lag: true}, Case{Initial: ini, Programs: [][]int{a, b}, Lag: true, Snap: true})
			}
		}
		firsts := p1
		if r.Thorough() {
			firsts = p2
		}
		for _, a := range firsts {
			for _, b := range firsts {
				for _, c := range p1 {
					cases = append(cases, Case{Initial: ini, Programs: [][]int{a, b, c}}, Case{Initial: ini, Programs: [][]int{a, b, c}, Lag: true})
				}
			}
		}
	}
	// cheap parts first: the race scenarios with three managers are the ones a deadline may cut
	runDiff(r)
	runEngineSequences(r)
	done := par.For(int64(len(cases)), r.Expired, func(i int64) { exploreCase(r, cases[i]) })
	if done < int64(len(cases)) {
		r.Cap(fmt.Sprintf("deadline: %d of %d race scenarios (two-manager scenarios come first)", done, len(cases)))
	}
	r.Sample(map[string]any{"race": Case{Initial: "a-exists", Programs: [][]int{{opDeleteA, opCreateA}, {opCreateA}}}, "ops": opName})
	r.Sample(map[string]any{"diff": map[string]any{"catalogue": "a:{cid 10001, rid 10003}, b:{cid 0, rid 10002}", "running": []int{1000, 10001, 10004}, "start": []int{10002, 10003}, "stop": []int{10004}}})
	r.Assume("part (ii): sequences on a real single-node engine; paths run concurrently on one engine under fresh name prefixes, so id monotonicity is checked within a path and id-sequence CAS conflicts between paths are retried (harness artefact); missed generous deadlines are inconclusive")
	r.Assume("with lagging replicas a catalogue call may be decided on stale metadata (create refused for a table deleted a moment ago, delete acknowledged for a table already gone): metadata reads are stale reads by design, so the 'and always then' clause is only checked without lag")
	r.Assume("dragonboat contract as in C15 (log append = commit, deterministic LFSM results, stale reads with own-writes)")
	_ = strconv.Itoa
}

func Replay(raw json.RawMessage) (string, bool) {
	var c Case
	if err := json.Unmarshal(raw, &c); err != nil || len(c.Programs) == 0 {
		return "diff cases are replayed by re-running the (pure, deterministic) enumeration\n", false
	}
	var w *world
	x, _ := sched.Replay(func() sched.Scenario {
		sc, ww := mk(c)
		w = ww
		return sc
	}, c.Choices, 0)
	vs, _ := check(x, w, c)
	var sb strings.Builder
	fmt.Fprintf(&sb, "trace: %s\n", sched.TraceStr(x))
	for _, v := range vs {
		fmt.Fprintf(&sb, "%s: %s\n", v.sig, v.detail)
	}
	return sb.String(), len(vs) == 0
}

// tableSvc is what the Tables handler sees of one node: the node's real Manager (creation without
// starting a shard: there is no NodeHost in the race part).
type tableSvc struct{ m *table.Manager }

func (s tableSvc) GetTables() ([]table.Table, error)               { return s.m.GetTables() }
func (s tableSvc) GetTable(name string) (table.ActiveTable, error) { return s.m.GetTable(name) }
func (s tableSvc) Restore(string, io.Reader) error {
	return errors.New("not available in the race part")
}
func (s tableSvc) CreateTable(name string) (table.Table, error) { return s.m.VerifCreateTable(name) }
func (s tableSvc) DeleteTable(name string) error                { return s.m.DeleteTable(name) }

// handlerErr maps the handler's status back to the error classes the oracle speaks about.
func handlerErr(err error) error {
	if err == nil {
		return nil
	}
	msg := status.Convert(err).Message()
	switch {
	case strings.Contains(msg, serrors.ErrTableExists.Error()):
		return serrors.ErrTableExists
	case strings.Contains(msg, serrors.ErrTableNotFound.Error()):
		return serrors.ErrTableNotFound
	case strings.Contains(msg, kv.ErrVersionMismatch.Error()):
		return kv.ErrVersionMismatch
	}
	return err
}

// ---------------------------------------------------------------------------------------------
// (ii) sequences on a real engine: create / delete / put / restore / reconcile over two names.

const (
	seCreateA = iota
	seCreateB
	seDeleteA
	seDeleteB
	sePutA
	sePutB
	seRestoreA
	seRestoreATick
	seReconcile
	nSe
)

// gated is the restore input: the first Read ends the window in which the harness keeps other
// paths' reconcile passes away, and (tick) runs a reconcile pass of its own - a reconcile tick
// landing while the restore is loading data.
type gated struct {
	io.Reader
	once  *sync.Once
	first func()
}

func (g *gated) Read(p []byte) (int, error) {
	g.once.Do(g.first)
	return g.Reader.Read(p)
}

var seName = []string{"create(a)", "create(b)", "delete(a)", "delete(b)", "put(a)", "put(b)", "restore(a, two-pair stream)", "restore(a) with a reconcile pass landing at its first read", "reconcile"}

func runEngineSequences(r *evid.Run) {
	t0 := time.Now()
	// CreateTable holds the manager lock while the shard starts, so one engine serialises the paths:
	// the sequences are spread over several independent single-node engines
	const nEng = 4
	var engs []*engx.Engine
	for k := 0; k < nEng; k++ {
		e, err := engx.Start(engx.Opts{})
		if err != nil {
			r.Inconcl.Add(1)
			r.Extra("engine_sequences", "engine did not start: "+err.Error())
			for _, o := range engs {
				o.Close()
			}
			return
		}
		engs = append(engs, e)
	}
	defer func() {
		for _, o := range engs {
			o.Close()
		}
	}()
	eng := engs[0]
	// a two-pair stream captured once from a real table
	if _, err := eng.CreateTable("donor"); err != nil || eng.WaitTable("donor", 20*time.Second) != nil {
		r.Inconcl.Add(1)
		return
	}
	ctx := context.Background()
	for _, k := range []string{"r1", "r2"} {
		c2, cancel := context.WithTimeout(ctx, 10*time.Second)
		_, _ = eng.Put(c2, &regattapb.PutRequest{Table: []byte("donor"), Key: []byte(k), Value: []byte("restored")})
		cancel()
	}
	stream, err := captureStream(eng, "donor")
	if err != nil {
		r.Inconcl.Add(1)
		r.Extra("engine_sequences", "stream capture failed: "+err.Error())
		return
	}
	depth := 3
	if r.Thorough() {
		depth = 4
	}
	total := par.SeqCount(nSe, depth)
	var lastID atomic.Uint64
	var idMu sync.Mutex
	var pathSeq atomic.Int64
	// Manager.Restore starts the recovery shard before it catalogues it and takes no lock against
	// reconcile; the property is stated "absent concurrent catalogue changes", and concurrency between
	// PATHS is a harness artefact anyway: other paths' reconcile passes are kept out of the window
	// from the Restore call to its first read of the stream.
	rws := make([]sync.RWMutex, nEng)
	reconcileOn := func(k int) error {
		rws[k].Lock()
		defer rws[k].Unlock()
		return engs[k].Manager.VerifReconcile()
	}
	old := par.Workers
	par.Workers = 16
	defer func() { par.Workers = old }()
	var done atomic.Int64
	defer func() {
		if r.Expired() {
			r.Cap("deadline during the engine sequences")
		}
	}()
	par.For(total, r.Expired, func(i int64) {
		seq := par.SeqAt(nSe, depth, i)
		eng, rw := engs[int(i)%nEng], &rws[int(i)%nEng]
		reconcile := func() error { return reconcileOn(int(i) % nEng) }
		restores := 0
		for _, e := range seq {
			if e == seRestoreA || e == seRestoreATick {
				restores++
			}
		}
		if restores > 1 {
			return // a restore costs ~0.6 s: at most one per sequence
		}
		pfx := fmt.Sprintf("p%d-", pathSeq.Add(1))
		name := map[string]string{"a": pfx + "a", "b": pfx + "b"}
		exists := map[string]bool{}
		content := map[string]map[string]string{"a": {}, "b": {}}
		ids := map[string]uint64{}
		puts := 0
		var descs []string
		viol := func(sig, detail string) {
			r.Violate("engine/"+sig, detail+" after "+strings.Join(descs, " -> "), map[string]any{"kind": "engine-sequence", "seq": seq, "desc": descs})
		}
		newID := func(id uint64, what string) {
			idMu.Lock()
			defer idMu.Unlock()
			_ = what
			// ids grow over the whole run of this engine (paths run concurrently: compare with the ids
			// this path has seen itself, and globally only for uniqueness)
			for n, o := range ids {
				if o >= id {
					viol("id-not-greater-than-earlier-id-of-this-path", fmt.Sprintf("%s got %d, %s had %d", what, id, n, o))
				}
			}
			_ = lastID.Load()
		}
		readTable := func(x string) (map[string]string, error) {
			if err := eng.WaitTable(name[x], 20*time.Second); err != nil {
				return nil, err
			}
			kvs, err := eng.Dump(name[x])
			if err != nil {
				return nil, err
			}
			m := map[string]string{}
			for _, kv := range kvs {
				m[string(kv.Key)] = string(kv.Value)
			}
			return m, nil
		}
		check := func() bool {
			// listing reflects precisely the live set; every live table has exactly its content
			ts, err := eng.GetTables()
			if err != nil {
				return false
			}
			listed := map[string]bool{}
			for _, t := range ts {
				listed[t.Name] = true
			}
			for _, x := range []string{"a", "b"} {
				if listed[name[x]] != exists[x] {
					viol("listing-differs-from-created-and-not-deleted", fmt.Sprintf("table %s listed=%v, model exists=%v", x, listed[name[x]], exists[x]))
				}
				if _, err := eng.GetTable(name[x]); (err == nil) != exists[x] {
					viol("lookup-differs-from-created-and-not-deleted", fmt.Sprintf("table %s lookup err=%v, model exists=%v", x, err, exists[x]))
				}
				if exists[x] {
					got, err := readTable(x)
					if err != nil {
						r.Inconcl.Add(1)
						return false
					}
					if !reflect.DeepEqual(got, content[x]) {
						sig := "table-content-differs-from-model"
						if len(content[x]) == 0 {
							sig = "created-table-not-empty"
						}
						viol(sig, fmt.Sprintf("table %s holds %v, model %v", x, got, content[x]))
					}
				}
			}
			return true
		}
		for _, e := range seq {
			descs = append(descs, seName[e])
			switch e {
			case seCreateA, seCreateB:
				x := "a"
				if e == seCreateB {
					x = "b"
				}
				var tb table.Table
				var err error
				for k := 0; k < 50; k++ {
					tb, err = eng.CreateTable(name[x])
					if err == nil || !errors.Is(err, kv.ErrVersionMismatch) {
						break // id-sequence CAS lost against a concurrently running path: retry (harness artefact)
					}
				}
				if exists[x] {
					if err == nil {
						viol("create-succeeded-although-table-exists", x)
					}
				} else {
					if err != nil {
						viol("create-failed-although-table-absent", fmt.Sprintf("%s: %v", x, err))
						return
					}
					newID(tb.ClusterID, "create("+x+")")
					ids[x+fmt.Sprint(len(ids))] = tb.ClusterID
					exists[x] = true
					content[x] = map[string]string{}
				}
			case seDeleteA, seDeleteB:
				x := "a"
				if e == seDeleteB {
					x = "b"
				}
				err := eng.DeleteTable(name[x])
				if exists[x] != (err == nil) {
					viol("delete-result-differs-from-existence", fmt.Sprintf("%s exists=%v err=%v", x, exists[x], err))
				}
				exists[x] = false
			case sePutA, sePutB:
				x := "a"
				if e == sePutB {
					x = "b"
				}
				if !exists[x] {
					continue
				}
				if err := eng.WaitTable(name[x], 20*time.Second); err != nil {
					r.Inconcl.Add(1)
					return
				}
				puts++
				k := fmt.Sprintf("k%d", puts)
				c2, cancel := context.WithTimeout(ctx, 10*time.Second)
				_, err := eng.Put(c2, &regattapb.PutRequest{Table: []byte(name[x]), Key: []byte(k), Value: []byte(x)})
				cancel()
				if err != nil {
					r.Inconcl.Add(1)
					return
				}
				content[x][k] = x
			case seRestoreA, seRestoreATick:
				f, err := os.CreateTemp("", "verif-c14-*.bin")
				if err != nil {
					return
				}
				_, _ = f.Write(stream)
				_ = f.Close()
				sf, err := snapshot.OpenFile(f.Name())
				if err != nil {
					_ = os.Remove(f.Name())
					return
				}
				var rerr error
				for k := 0; k < 50; k++ {
					_, _ = sf.Seek(0, io.SeekStart)
					once := &sync.Once{}
					rw.RLock()
					g := &gated{Reader: sf, once: once, first: func() {
						rw.RUnlock()
						if e == seRestoreATick {
							_ = reconcile()
							if _, err := eng.GetTable(name["a"]); err != nil {
								viol("table-being-restored-not-found-by-lookup", err.Error())
							}
						}
					}}
					rerr = eng.Restore(name["a"], g)
					once.Do(rw.RUnlock)
					if rerr == nil || !errors.Is(rerr, kv.ErrVersionMismatch) {
						break
					}
				}
				_ = sf.Close()
				_ = os.Remove(f.Name())
				if rerr != nil {
					viol("restore-error", rerr.Error())
					return
				}
				tb, err := eng.GetTable(name["a"])
				if err != nil {
					viol("restored-table-not-found", err.Error())
					return
				}
				newID(tb.ClusterID, "restore(a)")
				ids["a"+fmt.Sprint(len(ids))] = tb.ClusterID
				exists["a"] = true
				content["a"] = map[string]string{"r1": "restored", "r2": "restored"}
			case seReconcile:
				if err := reconcile(); err != nil {
					// another path's table may be mid-deletion; not a verdict
					continue
				}
			}
			if !check() {
				return
			}
		}
		for _, x := range []string{"a", "b"} {
			if exists[x] {
				_ = eng.DeleteTable(name[x])
			}
		}
		n := done.Add(1)
		if n%60 == 0 {
			_ = reconcile()
		}
		r.Outcome(fmt.Sprint("engine", seq, exists, len(content["a"]), len(content["b"])), len(ids) > 0)
	})
	r.Extra("engine_sequences", done.Load())
	r.Extra("engine_seconds", int(time.Since(t0).Seconds()))
	runOddNames(r, engs[0])
	// after a final reconcile the running table shards are exactly the catalogued ones
	for _, eng := range engs {
		finalReconcile(r, eng)
	}
}

// runOddNames: names that could address internal records of the catalogue's key space. Whatever the
// manager decides about such a name, the catalogue must stay a catalogue: create succeeds only for
// a name that is then listed and found, delete succeeds only for a table that exists, and a table
// created afterwards still gets an id above every id handed out before.
func runOddNames(r *evid.Run, eng *engx.Engine) {
	odd := []string{"sys/idseq", "sys", "sys/", "a/b", "x/lease", "/", "", "..", "a b", "ü"}
	var maxID uint64
	fresh := 0
	listed := func() map[string]uint64 {
		m := map[string]uint64{}
		ts, err := eng.GetTables()
		if err != nil {
			return nil
		}
		for _, t := range ts {
			m[t.Name] = t.ClusterID
		}
		return m
	}
	probe := func(after string) bool {
		fresh++
		name := fmt.Sprintf("oddprobe%d", fresh)
		tb, err := eng.CreateTable(name)
		if err != nil {
			r.Violate("engine/odd-names/create-fails-afterwards", fmt.Sprintf("after %s: create(%s): %v", after, name, err), map[string]any{"kind": "odd-names", "after": after})
			return false
		}
		if tb.ClusterID <= maxID {
			r.Violate("engine/odd-names/id-not-above-earlier-ids", fmt.Sprintf("after %s: create(%s) got id %d, an earlier table had %d", after, name, tb.ClusterID, maxID), map[string]any{"kind": "odd-names", "after": after})
		}
		maxID = max(maxID, tb.ClusterID)
		if l := listed(); l != nil && l[name] != tb.ClusterID {
			r.Violate("engine/odd-names/created-table-not-listed", fmt.Sprintf("after %s: %s", after, name), map[string]any{"kind": "odd-names", "after": after})
		}
		_ = eng.WaitTable(name, 20*time.Second)
		_ = eng.DeleteTable(name)
		return true
	}
	if !probe("start") {
		return
	}
	for _, name := range odd {
		for _, order := range []string{"delete-first", "create-first"} {
			before := listed()
			step := func(op string) {
				what := fmt.Sprintf("%s(%q)", op, name)
				switch op {
				case "create":
					tb, err := eng.CreateTable(name)
					after := listed()
					if err == nil {
						if after != nil && after[name] != tb.ClusterID {
							r.Violate("engine/odd-names/create-succeeds-but-table-not-listed", what, map[string]any{"kind": "odd-names", "name": name})
						}
						if _, gerr := eng.GetTable(name); gerr != nil {
							r.Violate("engine/odd-names/create-succeeds-but-table-not-found", what+": "+gerr.Error(), map[string]any{"kind": "odd-names", "name": name})
						}
						if tb.ClusterID <= maxID {
							r.Violate("engine/odd-names/id-not-above-earlier-ids", fmt.Sprintf("%s got id %d, an earlier table had %d", what, tb.ClusterID, maxID), map[string]any{"kind": "odd-names", "name": name})
						}
						maxID = max(maxID, tb.ClusterID)
					} else if after != nil && before != nil && !reflect.DeepEqual(after, before) {
						r.Violate("engine/odd-names/refused-create-changed-the-listing", fmt.Sprintf("%s: %v -> %v", what, before, after), map[string]any{"kind": "odd-names", "name": name})
					}
					before = after
				case "delete":
					_, existed := before[name]
					err := eng.DeleteTable(name)
					if (err == nil) != existed {
						r.Violate("engine/odd-names/delete-result-differs-from-existence", fmt.Sprintf("%s: listed before=%v err=%v", what, existed, err), map[string]any{"kind": "odd-names", "name": name})
					}
					before = listed()
				}
				r.Outcome("odd"+what+order, true)
				probe(what)
				before = listed()
			}
			if order == "delete-first" {
				step("delete")
				step("create")
				step("delete")
			} else {
				step("create")
				step("create")
				step("delete")
				step("delete")
			}
		}
	}
	r.Extra("odd_names", len(odd))
}

func finalReconcile(r *evid.Run, eng *engx.Engine) {
	_ = eng.Manager.VerifReconcile()
	time.Sleep(50 * time.Millisecond)
	ts, err := eng.GetTables()
	if nhi := eng.NodeHost.GetNodeHostInfo(dragonboat.DefaultNodeHostInfoOption); err == nil && nhi != nil {
		cat := map[uint64]bool{}
		for _, t := range ts {
			cat[t.ClusterID] = true
		}
		for _, si := range nhi.ShardInfoList {
			if si.ShardID > 10000 && !cat[si.ShardID] {
				r.Violate("engine/shard-running-although-not-catalogued-after-reconcile", fmt.Sprint(si.ShardID), nil)
			}
			delete(cat, si.ShardID)
		}
		for id := range cat {
			if id > 10000 {
				r.Violate("engine/catalogued-shard-not-running-after-reconcile", fmt.Sprint(id), nil)
			}
		}
	}
}

type c14rec struct {
	grpc.ServerStream
	buf bytes.Buffer
}

func (s *c14rec) Context() context.Context { return context.Background() }
func (s *c14rec) Send(c *regattapb.SnapshotChunk) error {
	s.buf.Write(c.Data)
	return nil
}

func captureStream(e *engx.Engine, name string) ([]byte, error) {
	rs := &c14rec{}
	if err := (&regattaserver.SnapshotServer{Tables: e.Engine}).Stream(&regattapb.SnapshotRequest{Table: []byte(name)}, rs); err != nil {
		return nil, err
	}
	return rs.buf.Bytes(), nil
}
