// Package c03: replicas converge - state depends only on the log, not on how it is batched, nor on
// restarts or snapshot transfers in between. Differential against the canonical run and the model.
package c03

import (
	"bytes"
	"encoding/json"
	"fmt"
	"strings"

	"github.com/jamf/regatta/regattapb"
	"github.com/jamf/regatta/storage/table/fsm"
	sm "github.com/lni/dragonboat/v4/statemachine"

	. "verif/harness/cmdx"
	"verif/harness/evid"
	"verif/harness/fsmx"
	"verif/harness/par"
	"verif/harness/refkv"
)

var wild = []byte{0}

func Alphabet() []*regattapb.Command {
	return []*regattapb.Command{
		Put("a", "1", false),
		WithLeader(Put("b", "2", false), 11),
		Del("a", nil, false, true),
		Del("a", wild, true, false),
		Txn(Cmps(Cmp("a", nil, regattapb.Compare_EQUAL, "1")), Ops(OpPut("a", "2", true)), Ops(OpPut("a", "1", true))), // toggles: not idempotent
		Txn(Cmps(Exists("b", nil)), Ops(OpDel("b", nil, true, false), OpPut("c", "1", false)), Ops(OpPut("b", "1", false), OpGet("a", wild, 0, false, false))),
		WithLeader(Seq(Put("a", "3", false), Put("ab", "1", false)), 21),
		WithLeader(Seq(Del("a", B("b"), false, true), Put("b", "9", true)), 22),
		WithLeader(Dummy(), 0),
		Dummy(),
		Put("ab", "", true),
		PutBatch("a", "5", "b", "5"),
		DelBatch("a", "ab"),
		WithLeader(Put("a", "1", true), 30),
		WithLeader(Del("b", nil, true, true), 31),
		Txn(Cmps(Exists("zz", nil)), Ops(OpPut("a", "7", false)), nil), // taken branch empty
	}
}

// BigAlphabet is the alphabet of the large-entry family: every entry stages 4 MiB, so that a call of k
// entries holds 4k MiB in its batch when it ends (an apply call whose batch crosses 8, 12, 16, 20 or
// 24 MiB does so exactly at its last entry in some batching).
func BigAlphabet() []*regattapb.Command {
	big := func(c byte) string { return strings.Repeat(string([]byte{c}), 4<<20) }
	return []*regattapb.Command{
		Put("big-0", big('p'), false),
		WithLeader(Put("big-1", big('q'), false), 41),
		Put("big-2", big('r'), false),
		Put("big-0", big('s'), true),
		Txn(Cmps(Exists("big-1", nil)), Ops(OpPut("big-3", big('t'), false), OpDel("big-2", nil, false, true)), nil),
		WithLeader(Put("big-4", big('u'), false), 42),
	}
}

type Case struct {
	Big    bool     `json:"big,omitempty"` // Log indexes BigAlphabet
	Log    []int    `json:"log"`
	Cuts   int      `json:"cuts"`             // bitmask: bit i set = cut after entry i
	Interp string   `json:"interp,omitempty"` // interposition kind
	At     int      `json:"at,omitempty"`     // interposition after entry At-1
	Desc   []string `json:"desc,omitempty"`
}

type obs struct {
	results []string
	content string
	hash    uint64
	applied uint64
	leader  uint64
	err     string
}

func (o obs) String() string {
	return fmt.Sprintf("results=%v content=%s applied=%d leader=%d hash=%x err=%s", o.results, o.content, o.applied, o.leader, o.hash, o.err)
}

func index(i int) uint64 { return uint64(3*i + 2) }

func observe(inst *fsmx.Inst, o *obs) {
	kvs, err := inst.All()
	if err != nil {
		o.err = "read: " + err.Error()
		return
	}
	o.content = fsmx.KVs(kvs)
	o.hash, _ = inst.F.GetHash()
	o.applied, _ = inst.LocalIndex()
	o.leader, _ = inst.LeaderIndex()
}

func srtOf(s string) fsm.SnapshotRecoveryType {
	if s == "c" {
		return fsm.RecoveryTypeCheckpoint
	}
	return fsm.RecoveryTypeSnapshot
}

// run executes the log with the given cuts and optional interposition and returns observations.
func run(alpha []*regattapb.Command, c Case) (o obs) {
	env := fsmx.NewEnv()
	saverType := fsm.RecoveryTypeSnapshot
	if strings.HasPrefix(c.Interp, "snap:") { // snap:<saver><receiver>:<fresh|stale>
		saverType = srtOf(c.Interp[5:6])
	}
	inst, idx, err := env.Open("t", 10001, saverType)
	if err != nil || idx != 0 {
		o.err = fmt.Sprintf("open: idx=%d err=%v", idx, err)
		return
	}
	defer func() { inst.Close() }()
	o.results = make([]string, len(c.Log))
	applyRange := func(in *fsmx.Inst, from, to int, record bool) bool {
		// split [from,to) into batches by cuts
		start := from
		for i := from; i < to; i++ {
			if i == to-1 || c.Cuts&(1<<i) != 0 {
				var ents []sm.Entry
				for j := start; j <= i; j++ {
					ents = append(ents, fsmx.Entry(index(j), alpha[c.Log[j]]))
				}
				out, err := in.Update(ents)
				if err != nil {
					o.err = fmt.Sprintf("update[%d..%d]: %v", start, i, err)
					return false
				}
				if record {
					for j := start; j <= i; j++ {
						if out[j-start].Index != index(j) {
							o.err = fmt.Sprintf("result index %d for entry %d", out[j-start].Index, index(j))
						}
						o.results[j] = fsmx.NormalizeObserved(out[j-start])
					}
				}
				start = i + 1
			}
		}
		return true
	}
	n := len(c.Log)
	at := n
	if c.Interp != "" {
		at = c.At
	}
	if !applyRange(inst, 0, at, true) {
		return
	}
	switch {
	case c.Interp == "":
	case c.Interp == "sync":
		if err := inst.Sync(); err != nil {
			o.err = "sync: " + err.Error()
			return
		}
	case c.Interp == "reopen":
		if err := inst.Close(); err != nil {
			o.err = "close: " + err.Error()
			return
		}
		var idx uint64
		inst, idx, err = env.Open("t", 10001, saverType)
		if err != nil {
			o.err = "reopen: " + err.Error()
			return
		}
		want := uint64(0)
		if at > 0 {
			want = index(at - 1)
		}
		if idx != want {
			o.err = fmt.Sprintf("reopen returned index %d, want %d", idx, want)
			return
		}
	case strings.HasPrefix(c.Interp, "snap:"):
		recvType := srtOf(c.Interp[6:7])
		stale := strings.HasSuffix(c.Interp, ":stale")
		renv := fsmx.NewEnv()
		recv, _, err := renv.Open("t", 10001, recvType)
		if err != nil {
			o.err = "open receiver: " + err.Error()
			return
		}
		if stale && at > 1 {
			// the receiver has applied a shorter prefix (all but the last entry before the cut)
			save := o.results
			o.results = make([]string, n)
			ok := applyRange(recv, 0, at-1, false)
			o.results = save
			if !ok {
				return
			}
		}
		var buf bytes.Buffer
		if err := inst.SaveSnapshot(nil, &buf, nil); err != nil {
			o.err = "save: " + err.Error()
			return
		}
		if err := recv.Recover(&buf, nil); err != nil {
			o.err = "recover: " + err.Error()
			return
		}
		inst.Close()
		inst = recv
	}
	if !applyRange(inst, at, n, true) {
		return
	}
	observe(inst, &o)
	return
}

func describe(alpha []*regattapb.Command, seq []int) []string {
	var d []string
	for _, i := range seq {
		d = append(d, fsmx.CmdStr(alpha[i]))
	}
	return d
}

func diffSig(canon, got obs) string {
	switch {
	case got.err != "":
		e := got.err
		if len(e) > 70 {
			e = e[:70]
		}
		return "error/" + e
	case fmt.Sprint(canon.results) != fmt.Sprint(got.results):
		return "results-differ"
	case canon.content != got.content:
		return "content-differs"
	case canon.applied != got.applied:
		return "applied-index-differs"
	case canon.leader != got.leader:
		return "leader-index-differs"
	case canon.hash != got.hash:
		return "hash-differs"
	}
	return ""
}

var interps = []string{"sync", "reopen", "snap:ss:fresh", "snap:sc:fresh", "snap:cs:fresh", "snap:cc:fresh", "snap:ss:stale", "snap:sc:stale", "snap:cs:stale", "snap:cc:stale"}

// evalLog runs one log under every cut (and interpositions if withInterp) and compares.
func evalLog(r *evid.Run, alpha []*regattapb.Command, log []int, withInterp bool) {
	n := len(log)
	canonCuts := (1 << n) - 1
	canon := run(alpha, Case{Log: log, Cuts: canonCuts})
	// model
	m := refkv.New()
	var wantRes []string
	nontrivial := false
	for i, ci := range log {
		before := fmt.Sprint(m.KV)
		v, cr := m.Apply(index(i), fsmx.Wire(alpha[ci]))
		wantRes = append(wantRes, fsmx.ExpectStr(v, cr))
		if len(cr.Responses) > 0 || before != fmt.Sprint(m.KV) {
			nontrivial = true
		}
	}
	mr := m.Range(&regattapb.RequestOp_Range{Key: wild, RangeEnd: wild})
	modelObs := obs{results: wantRes, content: fsmx.KVs(mr.Kvs), applied: m.Applied, leader: m.Leader, hash: canon.hash}
	if n == 0 {
		modelObs.results = nil
		canon.results = nil
	}
	if s := diffSig(modelObs, canon); s != "" {
		c := Case{Log: log, Cuts: canonCuts, Desc: describe(alpha, log)}
		r.Violate("canonical-vs-model/"+s, fmt.Sprintf("canonical run: %s; model: %s", canon, modelObs), c)
	}
	r.Outcome(canon.String(), nontrivial)
	if n < 1 {
		return
	}
	for cuts := 0; cuts < 1<<(n-1); cuts++ {
		if cuts == canonCuts&((1<<(n-1))-1) {
			continue
		}
		c := Case{Log: log, Cuts: cuts}
		got := run(alpha, c)
		r.Evaluations.Add(1)
		if s := diffSig(canon, got); s != "" {
			c.Desc = describe(alpha, log)
			r.Violate("batching/"+s, fmt.Sprintf("cuts=%b: %s; canonical: %s", cuts, got, canon), c)
		}
	}
	// longer logs: interpositions only after the last entry (what a flush, a restart or a snapshot
	// transfer makes of the COMPLETE history, e.g. tombstones meeting overwritten versions)
	first := 1
	if !withInterp {
		first = n
	}
	for at := first; at <= n; at++ {
		for _, ip := range interps {
			if strings.HasSuffix(ip, ":stale") && (at < 2 || !withInterp) {
				continue // longer logs: fresh receivers only
			}
			batchings := []int{canonCuts, 0}
			if !withInterp {
				batchings = batchings[:1] // longer logs: one entry per call only
			}
			for _, cuts := range batchings {
				c := Case{Log: log, Cuts: cuts, Interp: ip, At: at}
				got := run(alpha, c)
				r.Evaluations.Add(1)
				r.AddExtra("interposition_runs", 1)
				if s := diffSig(canon, got); s != "" {
					c.Desc = describe(alpha, log)
					kind := ip
					if strings.HasPrefix(ip, "snap:") {
						kind = "snapshot(" + ip[5:7] + ")" + ip[7:]
					}
					r.Violate("interposition/"+kind+"/"+s, fmt.Sprintf("at=%d cuts=%b: %s; canonical: %s", at, cuts, got, canon), c)
				}
			}
		}
	}
}

func Run(r *evid.Run) {
	r.Check = "c03"
	alpha := Alphabet()
	depth, idepth := 3, 2
	if r.Thorough() {
		depth, idepth = 4, 3
	}
	r.Rule(fmt.Sprintf("every log of length 0..%d over a %d-entry alphabet (puts, deletes, range delete, toggling and empty-branch transactions, sequences/entries with and without leader index, leader-index reset, batches; non-dense entry indices) x ALL 2^(n-1) ways to cut it into apply calls on fresh real FSMs; for logs of length <= %d additionally at every cut point (longer logs: after the last entry only, fresh receivers, one entry per call) one of {Sync, close+reopen, snapshot save + recover into a fresh or a stale replica for all 4 saver/receiver format pairs} under two batchings. Oracle: per-entry results, full content, GetHash, applied and leader index identical to the one-entry-per-call run, which itself must equal the sorted-map model. Non-trivial: the log changed the model state or returned a response; distinct = distinct canonical observations", depth, len(alpha), idepth))
	total := par.SeqCount(len(alpha), depth)
	done := par.For(total, r.Expired, func(i int64) {
		log := par.SeqAt(len(alpha), depth, i)
		evalLog(r, alpha, log, len(log) <= idepth)
		if i == total-1 {
			r.Sample(map[string]any{"log": describe(alpha, log), "cuts": "all 2^(n-1)"})
		}
	})
	if done < total {
		r.Cap(fmt.Sprintf("deadline: %d of %d logs", done, total))
	}
	r.Extra("logs", done)
	runBig(r)
	r.Sample(map[string]any{"log": describe(alpha, []int{1, 0}), "cuts": "0b0 vs 0b1", "interposition": "snap:sc:stale at 2"})
}

// runBig: one log of six 4 MiB entries under all 2^5 batchings, each also followed by close+reopen.
// What a size-triggered shortcut inside an apply call (an early commit, a flush, a split) does to the
// recorded indices, results and content must not depend on where the calls were cut.
func runBig(r *evid.Run) {
	alpha := BigAlphabet()
	log := []int{0, 1, 2, 3, 4, 5}
	n := len(log)
	canonCuts := (1 << n) - 1
	canon := run(alpha, Case{Log: log, Cuts: canonCuts})
	m := refkv.New()
	var wantRes []string
	for i, ci := range log {
		v, cr := m.Apply(index(i), fsmx.Wire(alpha[ci]))
		wantRes = append(wantRes, fsmx.ExpectStr(v, cr))
	}
	mr := m.Range(&regattapb.RequestOp_Range{Key: wild, RangeEnd: wild})
	modelObs := obs{results: wantRes, content: fsmx.KVs(mr.Kvs), applied: m.Applied, leader: m.Leader, hash: canon.hash}
	if s := diffSig(modelObs, canon); s != "" {
		r.Violate("big/canonical-vs-model/"+s, fmt.Sprintf("canonical run: %s; model: %s", canon, modelObs), Case{Big: true, Log: log, Cuts: canonCuts, Desc: describe(alpha, log)})
	}
	r.Outcome("big "+canon.String(), true)
	total := int64(2 << (n - 1))
	done := par.For(total, r.Expired, func(i int64) {
		c := Case{Big: true, Log: log, Cuts: int(i >> 1)}
		if i&1 == 1 {
			c.Interp, c.At = "reopen", n
		}
		got := run(alpha, c)
		r.Evaluations.Add(1)
		r.AddExtra("big_entry_runs", 1)
		if s := diffSig(canon, got); s != "" {
			c.Desc = describe(alpha, log)
			kind := "batching/"
			if c.Interp != "" {
				kind = "interposition/reopen/"
			}
			r.Violate("big/"+kind+s, fmt.Sprintf("cuts=%b: %s; canonical: %s", c.Cuts, got, canon), c)
		}
	})
	if done < total {
		r.Cap(fmt.Sprintf("deadline: %d of %d large-entry runs", done, total))
	}
	r.Rule("large entries: one log of six entries staging 4 MiB each (puts with and without leader index and prev_kv, a transaction with a put and a counted delete) under all 2^5 batchings, each also followed by close+reopen: a call of k entries ends with 4k MiB staged, so every multiple of 4 MiB up to 24 MiB is crossed exactly at the last entry of some call; same oracle")
}

func Replay(raw json.RawMessage) (string, bool) {
	var c Case
	if err := json.Unmarshal(raw, &c); err != nil {
		return err.Error(), false
	}
	alpha := Alphabet()
	if c.Big {
		alpha = BigAlphabet()
	}
	n := len(c.Log)
	canon := run(alpha, Case{Log: c.Log, Cuts: (1 << n) - 1})
	got := run(alpha, c)
	if s := diffSig(canon, got); s != "" {
		return fmt.Sprintf("%s\n got:   %s\n canon: %s\n", s, got, canon), false
	}
	return "", true
}
