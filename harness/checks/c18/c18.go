// Package c18: wire codecs and stream framing are lossless for every message and chunking.
package c18

import (
	"bytes"
	"context"
	"encoding/json"
	"fmt"
	"go.uber.org/zap"
	"google.golang.org/grpc/credentials/insecure"
	"io"
	"net"
	"os"
	"path/filepath"
	"sort"
	"strings"
	"sync"
	"time"

	"github.com/jamf/regatta/regattapb"
	"github.com/jamf/regatta/regattaserver"
	_ "github.com/jamf/regatta/regattaserver/encoding/gzip"
	_ "github.com/jamf/regatta/regattaserver/encoding/proto"
	_ "github.com/jamf/regatta/regattaserver/encoding/snappy"
	_ "github.com/jamf/regatta/regattaserver/encoding/zstd"
	"github.com/jamf/regatta/replication/backup"
	"github.com/jamf/regatta/replication/snapshot"
	"github.com/jamf/regatta/storage/table"
	"google.golang.org/grpc"
	"google.golang.org/grpc/encoding"
	"google.golang.org/grpc/metadata"
	"google.golang.org/protobuf/proto"
	"google.golang.org/protobuf/reflect/protoreflect"
	"google.golang.org/protobuf/reflect/protoregistry"

	"github.com/jamf/regatta/verifvp/vsync"

	. "verif/harness/cmdx"
	"verif/harness/evid"
	"verif/harness/par"
	"verif/harness/sched"
)

type viol struct{ sig, detail string }

// ---------------------------------------------------------------------------------------------
// (A) codec

type assign struct {
	path string
	set  func(m protoreflect.Message)
}

var big = bytes.Repeat([]byte("B"), 70_000)

// leafAssignments enumerates single-field settings of a message type to the given depth.
func leafAssignments(md protoreflect.MessageDescriptor, depth int, prefix string, wrap func(func(protoreflect.Message)) func(protoreflect.Message)) []assign {
	var out []assign
	fields := md.Fields()
	for i := 0; i < fields.Len(); i++ {
		fd := fields.Get(i)
		p := prefix + string(fd.Name())
		add := func(tag string, f func(m protoreflect.Message)) {
			out = append(out, assign{p + tag, wrap(f)})
		}
		scalar := func(variant int) (protoreflect.Value, bool) {
			switch fd.Kind() {
			case protoreflect.BoolKind:
				return protoreflect.ValueOfBool(true), variant == 0
			case protoreflect.EnumKind:
				vals := fd.Enum().Values()
				if variant+1 < vals.Len() {
					return protoreflect.ValueOfEnum(vals.Get(variant + 1).Number()), true
				}
				return protoreflect.Value{}, false
			case protoreflect.Int32Kind, protoreflect.Sint32Kind, protoreflect.Sfixed32Kind:
				return protoreflect.ValueOfInt32([]int32{1, -1, 1<<31 - 1}[variant%3]), variant < 3
			case protoreflect.Int64Kind, protoreflect.Sint64Kind, protoreflect.Sfixed64Kind:
				return protoreflect.ValueOfInt64([]int64{1, -1, 1<<63 - 1}[variant%3]), variant < 3
			case protoreflect.Uint32Kind, protoreflect.Fixed32Kind:
				return protoreflect.ValueOfUint32([]uint32{1, 1<<32 - 1}[variant%2]), variant < 2
			case protoreflect.Uint64Kind, protoreflect.Fixed64Kind:
				return protoreflect.ValueOfUint64([]uint64{1, 1<<64 - 1}[variant%2]), variant < 2
			case protoreflect.FloatKind:
				return protoreflect.ValueOfFloat32(1.5), variant == 0
			case protoreflect.DoubleKind:
				return protoreflect.ValueOfFloat64(-2.25), variant == 0
			case protoreflect.StringKind:
				return protoreflect.ValueOfString([]string{"s", "\x00é世", strings.Repeat("S", 300)}[variant%3]), variant < 3
			case protoreflect.BytesKind:
				return protoreflect.ValueOfBytes([][]byte{[]byte("b"), {0, 0xff}, big}[variant%3]), variant < 3
			}
			return protoreflect.Value{}, false
		}
		switch {
		case fd.IsMap():
			add("{1 entry}", func(m protoreflect.Message) {
				mp := m.Mutable(fd).Map()
				k := protoreflect.ValueOfString("k").MapKey()
				if fd.MapKey().Kind() != protoreflect.StringKind {
					k = protoreflect.ValueOfUint64(7).MapKey()
				}
				if fd.MapValue().Message() != nil {
					mp.Set(k, mp.NewValue())
				} else {
					mp.Set(k, protoreflect.ValueOfString("v"))
				}
			})
		case fd.IsList():
			if fd.Message() != nil {
				add("[1 empty]", func(m protoreflect.Message) { l := m.Mutable(fd).List(); l.Append(l.NewElement()) })
				add("[2 empty]", func(m protoreflect.Message) {
					l := m.Mutable(fd).List()
					l.Append(l.NewElement())
					l.Append(l.NewElement())
				})
				if depth > 1 {
					sub := leafAssignments(fd.Message(), depth-1, p+"[0].", func(f func(protoreflect.Message)) func(protoreflect.Message) {
						return wrap(func(m protoreflect.Message) {
							l := m.Mutable(fd).List()
							if l.Len() == 0 {
								l.Append(l.NewElement())
							}
							f(l.Get(0).Message())
						})
					})
					out = append(out, sub...)
				}
			} else {
				for v := 0; v < 2; v++ {
					if val, ok := scalar(v); ok {
						val := val
						add(fmt.Sprintf("[%d]", v), func(m protoreflect.Message) { m.Mutable(fd).List().Append(val) })
					}
				}
			}
		case fd.Message() != nil:
			add("{present-empty}", func(m protoreflect.Message) { m.Mutable(fd) })
			if depth > 1 {
				sub := leafAssignments(fd.Message(), depth-1, p+".", func(f func(protoreflect.Message)) func(protoreflect.Message) {
					return wrap(func(m protoreflect.Message) { f(m.Mutable(fd).Message()) })
				})
				out = append(out, sub...)
			}
		default:
			for v := 0; v < 3; v++ {
				if val, ok := scalar(v); ok {
					val := val
					add(fmt.Sprintf("=#%d", v), func(m protoreflect.Message) { m.Set(fd, val) })
				}
			}
			if fd.HasPresence() {
				// present but default (empty bytes, zero number): presence must survive
				zero := fd.Default()
				if fd.Kind() == protoreflect.BytesKind {
					zero = protoreflect.ValueOfBytes([]byte{})
				}
				add("=present-default", func(m protoreflect.Message) { m.Set(fd, zero) })
			}
		}
	}
	return out
}

func messageTypes() []protoreflect.MessageType {
	var out []protoreflect.MessageType
	protoregistry.GlobalTypes.RangeMessages(func(mt protoreflect.MessageType) bool {
		n := string(mt.Descriptor().FullName())
		for _, p := range []string{"regatta.v1.", "mvcc.v1.", "replication.v1.", "maintenance.v1."} {
			if strings.HasPrefix(n, p) && !mt.Descriptor().IsMapEntry() {
				out = append(out, mt)
			}
		}
		return true
	})
	sort.Slice(out, func(i, j int) bool { return out[i].Descriptor().FullName() < out[j].Descriptor().FullName() })
	return out
}

func hasMap(md protoreflect.MessageDescriptor, seen map[protoreflect.FullName]bool) bool {
	if seen[md.FullName()] {
		return false
	}
	seen[md.FullName()] = true
	for i := 0; i < md.Fields().Len(); i++ {
		fd := md.Fields().Get(i)
		if fd.IsMap() {
			return true
		}
		if fd.Message() != nil && hasMap(fd.Message(), seen) {
			return true
		}
	}
	return false
}

func checkCodecValue(codec encoding.Codec, mt protoreflect.MessageType, v proto.Message, what string, mapped bool) (vs []viol) {
	name := string(mt.Descriptor().FullName())
	b, err := codec.Marshal(v)
	if err != nil {
		return []viol{{"codec/marshal-error/" + name, fmt.Sprintf("%s: %v", what, err)}}
	}
	fresh := mt.New().Interface()
	if err := codec.Unmarshal(append([]byte(nil), b...), fresh); err != nil {
		return []viol{{"codec/unmarshal-error/" + name, fmt.Sprintf("%s: %v", what, err)}}
	}
	if !proto.Equal(v, fresh) {
		vs = append(vs, viol{"codec/roundtrip-differs/" + name, fmt.Sprintf("%s: decoded %v, original %v", what, short(fresh), short(v))})
	}
	b2, err := codec.Marshal(fresh)
	if err == nil && !mapped && !bytes.Equal(b, b2) {
		vs = append(vs, viol{"codec/re-encode-differs/" + name, what})
	}
	// the standard protobuf implementation must agree in both directions
	std := mt.New().Interface()
	if err := proto.Unmarshal(b, std); err != nil || !proto.Equal(v, std) {
		vs = append(vs, viol{"codec/standard-decoder-disagrees/" + name, fmt.Sprintf("%s: err %v", what, err)})
	}
	if sb, err := proto.Marshal(v); err == nil {
		back := mt.New().Interface()
		if err := codec.Unmarshal(sb, back); err != nil || !proto.Equal(v, back) {
			vs = append(vs, viol{"codec/cannot-decode-standard-encoding/" + name, fmt.Sprintf("%s: err %v", what, err)})
		}
	}
	return vs
}

func short(m proto.Message) string {
	s := fmt.Sprint(m)
	if len(s) > 200 {
		s = s[:200] + "..."
	}
	return s
}

func runCodec(r *evid.Run) {
	codec := encoding.GetCodec("proto")
	if codec == nil {
		r.Violate("codec/not-registered", "no codec named proto", nil)
		return
	}
	types := messageTypes()
	r.Extra("message_types", len(types))
	par.For(int64(len(types)), r.Expired, func(ti int64) {
		mt := types[ti]
		as := leafAssignments(mt.Descriptor(), 3, "", func(f func(protoreflect.Message)) func(protoreflect.Message) { return f })
		mapped := hasMap(mt.Descriptor(), map[protoreflect.FullName]bool{})
		try := func(what string, build func(m protoreflect.Message)) {
			m := mt.New()
			build(m)
			vs := checkCodecValue(codec, mt, m.Interface(), what, mapped)
			b, _ := proto.MarshalOptions{Deterministic: true}.Marshal(m.Interface())
			r.Outcome(string(mt.Descriptor().FullName())+string(b), len(b) > 0)
			for _, v := range vs {
				r.Violate(v.sig, v.detail, map[string]any{"kind": "codec", "type": mt.Descriptor().FullName(), "value": what})
			}
		}
		try("<empty>", func(protoreflect.Message) {})
		for _, a := range as {
			try(a.path, a.set)
		}
		for i := range as {
			for j := i + 1; j < len(as); j++ {
				a, b := as[i], as[j]
				try(a.path+" & "+b.path, func(m protoreflect.Message) { a.set(m); b.set(m) })
			}
		}
		try("<everything>", func(m protoreflect.Message) {
			for _, a := range as {
				if !strings.Contains(a.path, "=#") || strings.Contains(a.path, "=#0") {
					a.set(m)
				}
			}
		})
		if ti == 0 {
			var ps []string
			for _, a := range as {
				ps = append(ps, a.path)
			}
			r.Sample(map[string]any{"type": mt.Descriptor().FullName(), "single_field_settings": ps})
		}
	})
	// recycled receiving object, exactly as the snapshot stream readers do (SnapshotChunk)
	payloads := [][]byte{nil, {}, []byte("x"), bytes.Repeat([]byte("a"), 100), bytes.Repeat([]byte("z"), 1<<20), big}
	for _, first := range payloads {
		for _, second := range payloads {
			for _, lenField := range []uint64{0, uint64(len(second))} {
				chunk := regattapb.SnapshotChunkFromVTPool()
				b1, _ := codec.Marshal(&regattapb.SnapshotChunk{Data: first, Len: uint64(len(first))})
				if err := codec.Unmarshal(b1, chunk); err != nil {
					r.Violate("codec/recycled/unmarshal-error", err.Error(), nil)
					continue
				}
				chunk.ResetVT() // what Reader.WriteTo does between messages
				want := &regattapb.SnapshotChunk{Data: second, Len: lenField}
				b2, _ := codec.Marshal(want)
				if err := codec.Unmarshal(b2, chunk); err != nil {
					r.Violate("codec/recycled/unmarshal-error", err.Error(), nil)
					continue
				}
				r.Outcome(fmt.Sprintf("recycled %d %d %d", len(first), len(second), lenField), true)
				if !bytes.Equal(chunk.Data, second) || chunk.Len != lenField {
					r.Violate("codec/recycled-object-keeps-previous-content", fmt.Sprintf("previous %d bytes, decoded %d bytes len=%d, want %d bytes len=%d", len(first), len(chunk.Data), chunk.Len, len(second), lenField), map[string]any{"kind": "recycled", "first": len(first), "second": len(second)})
				}
				chunk.ReturnToVTPool()
			}
		}
	}
}

// ---------------------------------------------------------------------------------------------
// (B) compressors

func payload(size, kind int) []byte {
	b := make([]byte, size)
	switch kind {
	case 1:
		for i := range b {
			b[i] = byte(i % 7)
		}
	case 2:
		x := uint32(2463534242)
		for i := range b {
			x ^= x << 13
			x ^= x >> 17
			x ^= x << 5
			b[i] = byte(x)
		}
	}
	return b
}

func compress(c encoding.Compressor, p []byte) ([]byte, error) {
	var buf bytes.Buffer
	w, err := c.Compress(&buf)
	if err != nil {
		return nil, err
	}
	if _, err := w.Write(p); err != nil {
		return nil, err
	}
	if err := w.Close(); err != nil {
		return nil, err
	}
	return buf.Bytes(), nil
}

func decompress(c encoding.Compressor, z []byte, step int) ([]byte, error) {
	r, err := c.Decompress(bytes.NewReader(z))
	if err != nil {
		return nil, err
	}
	if step == 0 {
		return io.ReadAll(r)
	}
	var out []byte
	buf := make([]byte, step)
	for {
		n, err := r.Read(buf)
		out = append(out, buf[:n]...)
		if err == io.EOF {
			return out, nil
		}
		if err != nil {
			return out, err
		}
	}
}

func runCompressors(r *evid.Run) {
	sizes := []int{0, 1, 2, 63, 64, 65, 4095, 4096, 4097, 65535, 65536, 65537, 1<<20 + 1}
	type pl struct {
		size, kind int
	}
	var pls []pl
	for _, s := range sizes {
		for k := 0; k < 3; k++ {
			pls = append(pls, pl{s, k})
		}
	}
	for _, name := range []string{"gzip", "snappy", "zstd"} {
		c := encoding.GetCompressor(name)
		if c == nil {
			r.Violate("compressor/not-registered/"+name, name, nil)
			continue
		}
		// every ordered pair through the same (pooled) writer and reader, sequentially on one
		// goroutine so that the pool hands the same objects out again
		var mu sync.Mutex
		_ = mu
		for _, a := range pls {
			for _, b := range pls {
				if a.size > 70000 && b.size > 70000 {
					continue
				}
				pa, pb := payload(a.size, a.kind), payload(b.size, b.kind)
				za, err := compress(c, pa)
				if err != nil {
					r.Violate("compressor/compress-error/"+name, err.Error(), nil)
					continue
				}
				zb, err := compress(c, pb)
				if err != nil {
					r.Violate("compressor/compress-error/"+name, err.Error(), nil)
					continue
				}
				for _, step := range []int{0, 1, 7} {
					if step != 0 && (a.size > 70000 || b.size > 70000) {
						continue
					}
					ga, err1 := decompress(c, za, step)
					gb, err2 := decompress(c, zb, step)
					r.Outcome(fmt.Sprintf("%s %v %v %d %d", name, a, b, step, len(zb)), a.size+b.size > 0)
					if err1 != nil || err2 != nil || !bytes.Equal(ga, pa) || !bytes.Equal(gb, pb) {
						r.Violate("compressor/roundtrip-differs/"+name, fmt.Sprintf("payloads %v then %v, read step %d: err %v %v, got %d and %d bytes", a, b, step, err1, err2, len(ga), len(gb)), map[string]any{"kind": "compressor", "name": name, "a": a, "b": b, "step": step})
					}
				}
			}
		}
		// large payloads (beyond gRPC's default 4 MiB message size, which regatta's replication
		// connection raises): one whole round trip each
		bigSizes := []int{4<<20 - 1, 4 << 20, 4<<20 + 1, 8<<20 + 1, 16<<20 + 1}
		par.For(int64(len(bigSizes)*2), r.Expired, func(i int64) {
			size, kind := bigSizes[int(i)/2], int(i)%2+1
			p := payload(size, kind)
			z, err := compress(c, p)
			var got []byte
			if err == nil {
				got, err = decompress(c, z, 0)
			}
			r.Outcome(fmt.Sprintf("%s big %d %d %d", name, size, kind, len(z)), true)
			r.AddExtra("large_payload_roundtrips", 1)
			if err != nil || !bytes.Equal(got, p) {
				r.Violate("compressor/large-roundtrip-differs/"+name, fmt.Sprintf("payload of %d bytes (kind %d): err %v, got %d bytes", size, kind, err, len(got)), map[string]any{"kind": "compressor-large", "name": name, "size": size, "content": kind})
			}
		})
		// free-running concurrent use of the pooled state (observational; the deciding exploration
		// of pool interleavings needs the sync.Pool shim, see DESIGN.md)
		var wg sync.WaitGroup
		bad := make(chan string, 64)
		for g := 0; g < 8; g++ {
			wg.Add(1)
			go func(g int) {
				defer wg.Done()
				for i := 0; i < 200; i++ {
					p := payload(sizes[(g+i)%len(sizes)], (g+i)%3)
					z, err := compress(c, p)
					if err != nil {
						bad <- err.Error()
						return
					}
					got, err := decompress(c, z, 0)
					if err != nil || !bytes.Equal(got, p) {
						select {
						case bad <- fmt.Sprintf("goroutine %d iteration %d size %d: err %v", g, i, len(p), err):
						default:
						}
						return
					}
				}
			}(g)
		}
		wg.Wait()
		close(bad)
		for m := range bad {
			r.Violate("compressor/concurrent-roundtrip-differs/"+name, m, map[string]any{"kind": "compressor-concurrent", "name": name})
		}
		r.AddExtra("concurrent_roundtrips_free_running", 1600)
	}
}

// ---------------------------------------------------------------------------------------------
// (C) framing

type sendStream struct {
	grpc.ServerStream
	codec encoding.Codec
	msgs  [][]byte
}

func (s *sendStream) Context() context.Context { return context.Background() }
func (s *sendStream) Send(c *regattapb.SnapshotChunk) error {
	b, err := s.codec.Marshal(c) // gRPC serialises before Send returns
	if err != nil {
		return err
	}
	s.msgs = append(s.msgs, b)
	return nil
}

// recvStream hands out the recorded wire messages, each in a buffer of its own that is never reused
// (as grpc-go does without a shared receive-buffer pool, which regatta does not configure; decoded
// objects alias the receive buffer).
type recvStream struct {
	grpc.ClientStream
	codec encoding.Codec
	msgs  [][]byte
	i     int
	prev  []byte
}

func (s *recvStream) Context() context.Context     { return context.Background() }
func (s *recvStream) Header() (metadata.MD, error) { return nil, nil }
func (s *recvStream) Trailer() metadata.MD         { return nil }
func (s *recvStream) CloseSend() error             { return nil }
func (s *recvStream) Recv() (*regattapb.SnapshotChunk, error) {
	c := &regattapb.SnapshotChunk{}
	return c, s.RecvMsg(c)
}
func (s *recvStream) RecvMsg(m any) error {
	if s.i >= len(s.msgs) {
		return io.EOF
	}
	b := append([]byte(nil), s.msgs[s.i]...)
	s.i++
	s.prev = b
	return s.codec.Unmarshal(b, m)
}

// cutReader returns the data in segments ending at the given cut positions.
type cutReader struct {
	data []byte
	cuts []int
	pos  int
}

func (c *cutReader) Read(p []byte) (int, error) {
	if c.pos >= len(c.data) {
		return 0, io.EOF
	}
	end := len(c.data)
	for _, k := range c.cuts {
		if k > c.pos && k < end {
			end = k
		}
	}
	n := copy(p, c.data[c.pos:end])
	c.pos += n
	return n, nil
}

func frameCommands(sizes []int) []*regattapb.Command {
	var out []*regattapb.Command
	for i, s := range sizes {
		out = append(out, &regattapb.Command{Table: Table, Type: regattapb.Command_PUT, Kv: &regattapb.KeyValue{Key: B(fmt.Sprintf("k%d", i)), Value: bytes.Repeat([]byte{byte('a' + i)}, s)}})
	}
	return out
}

// writeSnapshotFile writes the commands with the real snapshot file writer and returns the raw bytes.
func writeSnapshotFile(cmds []*regattapb.Command) ([]byte, error) {
	sf, err := snapshot.NewTemp()
	if err != nil {
		return nil, err
	}
	defer func() {
		_ = sf.Close()
		_ = os.Remove(sf.Path())
	}()
	for _, c := range cmds {
		b, _ := c.MarshalVT()
		if _, err := sf.Write(b); err != nil {
			return nil, err
		}
	}
	if err := sf.Sync(); err != nil {
		return nil, err
	}
	return os.ReadFile(sf.Path())
}

// readBack reads a raw snapshot file message-wise with the real snapshot file reader.
func readBack(raw []byte) (out [][]byte, err error) {
	defer func() {
		if r := recover(); r != nil {
			err = fmt.Errorf("PANIC in snapshot file Read: %v", r)
		}
	}()
	return readBack0(raw)
}

func readBack0(raw []byte) ([][]byte, error) {
	f, err := os.CreateTemp("", "verif-c18-*.bin")
	if err != nil {
		return nil, err
	}
	name := f.Name()
	defer os.Remove(name)
	if _, err := f.Write(raw); err != nil {
		return nil, err
	}
	_ = f.Close()
	sf, err := snapshot.OpenFile(name)
	if err != nil {
		return nil, err
	}
	defer sf.Close()
	var out [][]byte
	buf := make([]byte, 4<<20)
	for {
		n, err := sf.Read(buf)
		if err == io.EOF {
			return out, nil
		}
		if err != nil {
			return out, err
		}
		out = append(out, append([]byte(nil), buf[:n]...))
	}
}

type restoreCapture struct {
	regattaserver.TableService
	got  []byte
	name string
}

func (c *restoreCapture) Restore(name string, reader io.Reader) error {
	c.name = name
	// the reader is the snapshot file: take its raw bytes through its embedded *os.File
	type pather interface{ Path() string }
	b, err := os.ReadFile(reader.(pather).Path())
	c.got = b
	return err
}
func (c *restoreCapture) GetTable(string) (table.ActiveTable, error) { return table.ActiveTable{}, nil }

type restoreSrv struct {
	grpc.ServerStream
	codec encoding.Codec
	msgs  [][]byte
	i     int
	prev  []byte
}

func (s *restoreSrv) Context() context.Context                      { return context.Background() }
func (s *restoreSrv) SendAndClose(*regattapb.RestoreResponse) error { return nil }
func (s *restoreSrv) Recv() (*regattapb.RestoreMessage, error) {
	if s.i >= len(s.msgs) {
		return nil, io.EOF
	}
	b := append([]byte(nil), s.msgs[s.i]...)
	s.i++
	s.prev = b
	m := &regattapb.RestoreMessage{}
	return m, s.codec.Unmarshal(b, m)
}

type restoreCli struct {
	grpc.ClientStream
	codec encoding.Codec
	msgs  [][]byte
}

func (s *restoreCli) Send(m *regattapb.RestoreMessage) error {
	b, err := s.codec.Marshal(m)
	s.msgs = append(s.msgs, b)
	return err
}
func (s *restoreCli) CloseAndRecv() (*regattapb.RestoreResponse, error) { return nil, nil }

// shipAndCheck ships raw through every receiver with the given cuts and compares.
func shipAndCheck(codec encoding.Codec, raw []byte, want [][]byte, cuts []int) (vs []viol) {
	tag := func(s string) string { return "framing/" + s }
	ss := &sendStream{codec: codec}
	n, err := (&snapshot.Writer{Sender: ss}).ReadFrom(&cutReader{data: raw, cuts: cuts})
	if err != nil || n != int64(len(raw)) {
		return []viol{{tag("writer-readfrom"), fmt.Sprintf("n=%d err=%v want %d", n, err, len(raw))}}
	}
	compare := func(which string, got []byte) {
		if !bytes.Equal(got, raw) {
			vs = append(vs, viol{tag(which + "/bytes-differ"), fmt.Sprintf("cuts %v: received %d bytes, sent %d", cuts, len(got), len(raw))})
			return
		}
		msgs, err := readBack(got)
		if err != nil || len(msgs) != len(want) {
			vs = append(vs, viol{tag(which + "/messages-differ"), fmt.Sprintf("cuts %v: %d messages err %v, want %d", cuts, len(msgs), err, len(want))})
			return
		}
		for i := range msgs {
			if !bytes.Equal(msgs[i], want[i]) {
				vs = append(vs, viol{tag(which + "/message-boundaries-differ"), fmt.Sprintf("cuts %v: message %d has %d bytes, want %d", cuts, i, len(msgs[i]), len(want[i]))})
				return
			}
		}
	}
	// snapshot.Reader.WriteTo (what io.Copy uses)
	var buf bytes.Buffer
	if _, err := io.Copy(&buf, &snapshot.Reader{Stream: &recvStream{codec: codec, msgs: ss.msgs}}); err != nil {
		vs = append(vs, viol{tag("reader-writeto/error"), err.Error()})
	} else {
		compare("reader-writeto", buf.Bytes())
	}
	// the same stream with an empty chunk (a legal message: a chunk of size 0) before and after every
	// chunk: what the receiver hands on must not change
	if empty, err := codec.Marshal(&regattapb.SnapshotChunk{}); err == nil {
		padded := [][]byte{empty}
		for _, m := range ss.msgs {
			padded = append(padded, m, empty)
		}
		var pb bytes.Buffer
		if _, err := io.Copy(&pb, &snapshot.Reader{Stream: &recvStream{codec: codec, msgs: padded}}); err != nil {
			vs = append(vs, viol{tag("reader-writeto+empty-chunks/error"), err.Error()})
		} else {
			compare("reader-writeto+empty-chunks", pb.Bytes())
		}
	}
	// snapshot.Reader.Read with a sufficiently large buffer
	var buf2 bytes.Buffer
	rd := snapshot.Reader{Stream: &recvStream{codec: codec, msgs: ss.msgs}}
	p := make([]byte, snapshot.DefaultSnapshotChunkSize)
	for {
		n, err := rd.Read(p)
		buf2.Write(p[:n])
		if err == io.EOF {
			break
		}
		if err != nil {
			vs = append(vs, viol{tag("reader-read/error"), err.Error()})
			break
		}
	}
	compare("reader-read", buf2.Bytes())
	// backup.Writer -> BackupServer.Restore (backupReader.WriteTo) -> Tables.Restore
	rc := &restoreCli{codec: codec}
	_ = rc.Send(&regattapb.RestoreMessage{Data: &regattapb.RestoreMessage_Info{Info: &regattapb.RestoreInfo{Table: []byte("t")}}})
	bw := backup.Writer{Sender: rc}
	cr := &cutReader{data: raw, cuts: cuts}
	seg := make([]byte, len(raw)+1)
	for {
		n, err := cr.Read(seg)
		if n > 0 {
			if _, werr := bw.Write(seg[:n]); werr != nil {
				vs = append(vs, viol{tag("backup-writer/error"), werr.Error()})
			}
		}
		if err != nil {
			break
		}
	}
	if empty, err := codec.Marshal(&regattapb.RestoreMessage{Data: &regattapb.RestoreMessage_Chunk{Chunk: &regattapb.SnapshotChunk{}}}); err == nil && len(rc.msgs) > 0 {
		// upload with an empty chunk after the info message and after every chunk
		padded := [][]byte{rc.msgs[0], empty}
		for _, m := range rc.msgs[1:] {
			padded = append(padded, m, empty)
		}
		pcap := &restoreCapture{}
		if err := (&regattaserver.BackupServer{Tables: pcap}).Restore(&restoreSrv{codec: codec, msgs: padded}); err != nil {
			vs = append(vs, viol{tag("backup-restore+empty-chunks/error"), err.Error()})
		} else {
			compare("backup-restore+empty-chunks", pcap.got)
		}
	}
	cap := &restoreCapture{}
	srv := &regattaserver.BackupServer{Tables: cap}
	if err := srv.Restore(&restoreSrv{codec: codec, msgs: rc.msgs}); err != nil {
		vs = append(vs, viol{tag("backup-restore/error"), err.Error()})
	} else {
		if cap.name != "t" {
			vs = append(vs, viol{tag("backup-restore/table-name"), cap.name})
		}
		compare("backup-restore", cap.got)
	}
	return vs
}

// runRealServer: the same upload through a REAL server built by regattaserver.NewServer (its default
// server options are part of what decides whether a decoded message stays intact) and the real
// client-side backup.Writer, for chunk sizes from 1 byte to the whole file x table names of three
// lengths (the receive buffers of the info message and of the chunks fall into the same and into
// different size classes).
func runRealServer(r *evid.Run) {
	dir, err := os.MkdirTemp("", "verif-c18-srv-")
	if err != nil {
		r.Inconcl.Add(1)
		return
	}
	defer os.RemoveAll(dir)
	l, err := net.Listen("unix", filepath.Join(dir, "s.sock"))
	if err != nil {
		r.Inconcl.Add(1)
		return
	}
	cap := &restoreCapture{}
	srv := regattaserver.NewServer(l, zap.NewNop().Sugar())
	regattapb.RegisterMaintenanceServer(srv, &regattaserver.BackupServer{Tables: cap})
	go func() { _ = srv.Serve() }()
	defer srv.Shutdown()
	conn, err := grpc.NewClient("unix://"+filepath.Join(dir, "s.sock"), grpc.WithTransportCredentials(insecure.NewCredentials()), grpc.WithDefaultCallOptions(grpc.ForceCodec(encoding.GetCodec("proto"))))
	if err != nil {
		r.Inconcl.Add(1)
		return
	}
	defer conn.Close()
	var cmds []*regattapb.Command
	for i := 0; i < 60; i++ {
		cmds = append(cmds, &regattapb.Command{Type: regattapb.Command_PUT, Table: []byte("t"), Kv: &regattapb.KeyValue{Key: []byte(fmt.Sprintf("key-%03d", i)), Value: bytes.Repeat([]byte{byte('a' + i%26)}, 20+i*7)}})
	}
	raw, err := writeSnapshotFile(cmds)
	if err != nil {
		r.Inconcl.Add(1)
		return
	}
	names := []string{"t", "regatta-test", strings.Repeat("long-table-name-", 6)}
	for _, name := range names {
		for _, chunk := range []int{1, 5, 11, 64, 200, 250, 3000, 4096, 32 << 10, len(raw)} {
			ctx, cancel := context.WithTimeout(context.Background(), 60*time.Second)
			stream, err := regattapb.NewMaintenanceClient(conn).Restore(ctx)
			if err != nil {
				cancel()
				r.Inconcl.Add(1)
				continue
			}
			cs := map[string]any{"kind": "real-server", "table_name_bytes": len(name), "chunk": chunk}
			_ = stream.Send(&regattapb.RestoreMessage{Data: &regattapb.RestoreMessage_Info{Info: &regattapb.RestoreInfo{Table: []byte(name)}}})
			bw := backup.Writer{Sender: stream}
			for at := 0; at < len(raw); at += chunk {
				if _, err := bw.Write(raw[at:min(len(raw), at+chunk)]); err != nil {
					break
				}
			}
			_, err = stream.CloseAndRecv()
			cancel()
			r.Outcome(fmt.Sprint("real-server", len(name), chunk, err == nil), true)
			r.AddExtra("real_server_uploads", 1)
			switch {
			case err != nil:
				r.Violate("framing/real-server/upload-error", fmt.Sprintf("table name of %d bytes, chunks of %d bytes: %v", len(name), chunk, err), cs)
			case cap.name != name:
				r.Violate("framing/real-server/table-name-changed-after-it-was-received", fmt.Sprintf("table name of %d bytes, chunks of %d bytes: the restore was handed the name %q instead of %q", len(name), chunk, cap.name, name), cs)
			case !bytes.Equal(cap.got, raw):
				r.Violate("framing/real-server/received-bytes-differ", fmt.Sprintf("table name of %d bytes, chunks of %d bytes: %d bytes received, %d sent", len(name), chunk, len(cap.got), len(raw)), cs)
			}
		}
	}
}

func runFraming(r *evid.Run) {
	codec := encoding.GetCodec("proto")
	smallSets := [][]int{{}, {1}, {1, 300}, {40, 1, 7}, {300, 2, 1, 150}}
	if r.Thorough() {
		smallSets = append(smallSets, []int{5, 5, 5, 5}, []int{0, 1}, []int{299, 300})
	}
	type job struct {
		raw  []byte
		want [][]byte
		cuts []int
		desc string
	}
	var jobs []job
	for _, set := range smallSets {
		cmds := frameCommands(set)
		raw, err := writeSnapshotFile(cmds)
		if err != nil {
			r.Violate("framing/setup", err.Error(), nil)
			continue
		}
		var want [][]byte
		for _, c := range cmds {
			b, _ := c.MarshalVT()
			want = append(want, b)
		}
		L := len(raw)
		jobs = append(jobs, job{raw, want, nil, fmt.Sprintf("sizes %v, no cut", set)})
		for a := 1; a < L; a++ {
			jobs = append(jobs, job{raw, want, []int{a}, fmt.Sprintf("sizes %v, cut %d", set, a)})
		}
		stride := 1
		if !r.Thorough() && L > 120 {
			stride = 3
		}
		for a := 1; a < L; a += stride {
			for b := a + 1; b < L; b += stride {
				jobs = append(jobs, job{raw, want, []int{a, b}, fmt.Sprintf("sizes %v, cuts %d,%d", set, a, b)})
			}
		}
		for sz := 1; sz <= L; sz++ {
			var cuts []int
			for k := sz; k < L; k += sz {
				cuts = append(cuts, k)
			}
			jobs = append(jobs, job{raw, want, cuts, fmt.Sprintf("sizes %v, uniform chunks of %d", set, sz)})
		}
		r.AddExtra("framing_file_bytes", int64(L))
	}
	// one large command: boundaries around the 1 MiB transport chunk
	{
		cmds := frameCommands([]int{10, 1 << 20, 20})
		// incompressible-ish middle value so that the file really exceeds one chunk
		cmds[1].Kv.Value = payload(1<<20+17, 2)
		raw, err := writeSnapshotFile(cmds)
		if err == nil {
			var want [][]byte
			for _, c := range cmds {
				b, _ := c.MarshalVT()
				want = append(want, b)
			}
			L := len(raw)
			for _, cuts := range [][]int{nil, {1}, {L - 1}, {L / 2}, {1 << 20}, {1<<20 - 1, 1<<20 + 1}, {7, L - 7}} {
				jobs = append(jobs, job{raw, want, cuts, fmt.Sprintf("1MiB command, cuts %v", cuts)})
			}
			for _, sz := range []int{4096, 65536, 1<<20 - 1, 1 << 20, 1<<20 + 1} {
				var cuts []int
				for k := sz; k < L; k += sz {
					cuts = append(cuts, k)
				}
				jobs = append(jobs, job{raw, want, cuts, fmt.Sprintf("1MiB command, uniform chunks of %d", sz)})
			}
		}
	}
	// alignment sweep of the snapshot file itself: the file is a snappy stream of 64 KiB blocks holding
	// [8-byte length|message] records; a first record of every size 0..pad-1 shifts all later records so
	// that block boundaries fall on every position of a record (inside the length prefix, inside the
	// payload, exactly between records); files span several blocks
	{
		maxPad := 110
		if r.Thorough() {
			maxPad = 220
		}
		var ajobs []int
		for p := 0; p < maxPad; p++ {
			ajobs = append(ajobs, p)
		}
		par.For(int64(len(ajobs)), r.Expired, func(i int64) {
			pad := ajobs[i]
			cmds := []*regattapb.Command{{Table: Table, Type: regattapb.Command_PUT, Kv: &regattapb.KeyValue{Key: B("pad"), Value: payload(pad, 2)}}}
			for k := 0; k < 2600; k++ { // ~2600 x (8+~45) bytes: three block boundaries
				cmds = append(cmds, &regattapb.Command{Table: Table, Type: regattapb.Command_PUT, Kv: &regattapb.KeyValue{Key: B(fmt.Sprintf("key-%05d", k)), Value: payload(17+k%5, 2)}})
			}
			raw, err := writeSnapshotFile(cmds)
			if err != nil {
				r.Violate("framing/file/write-error", err.Error(), nil)
				return
			}
			got, err := readBack(raw)
			r.Outcome(fmt.Sprintf("align pad=%d", pad), true)
			r.AddExtra("alignment_files", 1)
			bad := err != nil || len(got) != len(cmds)
			first := -1
			for k := 0; !bad && k < len(cmds); k++ {
				b, _ := cmds[k].MarshalVT()
				if !bytes.Equal(got[k], b) {
					bad, first = true, k
				}
			}
			if bad {
				r.Violate("framing/file/read-back-differs-when-a-block-boundary-falls-inside-a-record", fmt.Sprintf("first record of %d value bytes followed by 2600 small records: err %v, %d of %d messages, first difference at message %d", pad, err, len(got), len(cmds), first), map[string]any{"kind": "alignment", "pad": pad})
			}
		})
	}
	done := par.For(int64(len(jobs)), r.Expired, func(i int64) {
		j := jobs[i]
		vs := shipAndCheck(codec, j.raw, j.want, j.cuts)
		r.Outcome(j.desc, true)
		for _, v := range vs {
			r.Violate(v.sig, v.detail+" ["+j.desc+"]", map[string]any{"kind": "framing", "desc": j.desc})
		}
	})
	if done < int64(len(jobs)) {
		r.Cap(fmt.Sprintf("deadline: %d of %d chunkings", done, len(jobs)))
	}
	r.Extra("chunkings", done)
	r.Sample(map[string]any{"framing": jobs[len(jobs)/3].desc})
}

func Run(r *evid.Run) {
	r.Check = "c18"
	r.Rule("(A) codec: for every message type of the four proto packages, the empty value, every single-field setting to depth 3 (every scalar kind with several values incl. large, every enum value, every oneof arm, present-empty messages, present-default optional fields, 1- and 2-element lists, map entry), every PAIR of settings, and an everything-set value: encode with the registered codec, decode into a fresh object (equal incl. presence, identical re-encoding), agree with the standard protobuf implementation in both directions; SnapshotChunk additionally into an object recycled with ResetVT after holding every other payload. (B) compressors gzip/snappy/zstd via encoding.GetCompressor: 13 sizes x 3 contents, every ordered pair through the pooled writer/reader sequentially, read back whole / 1-byte / 7-byte; 5 large sizes (4 MiB - 1 .. 16 MiB + 1) x 2 contents, one whole round trip each; plus a free-running concurrent pass. (D) pooled compressor state: 2 threads x 1-2 compress+decompress round trips over 3 payloads, 4 program pairs per compressor, pool Get/Put and every Write/Close/Read boundary are scheduling points, all interleavings up to the preemption bound; every round trip exact, no object put into a pool twice. (C) framing: command files written by the real snapshot file writer, shipped by the real snapshot.Writer.ReadFrom with EVERY placement of <= 2 cuts and every uniform chunk size, received by snapshot.Reader (WriteTo and Read), and backup.Writer -> BackupServer.Restore (backupReader), each stream also with an empty chunk before and after every chunk; received bytes and message boundaries must be identical; the upload also through a real server built by regattaserver.NewServer with the real backup.Writer for 10 chunk sizes x 3 table-name lengths (table name and bytes handed to the restore); plus an alignment sweep of multi-block snapshot files (first record of every size 0..109, then 2600 small records) written and read back message-wise so that 64 KiB block boundaries fall on every position of a record. Non-trivial: non-empty encoding / payload; distinct = distinct cases")
	runCodec(r)
	runCompressors(r)
	runFraming(r)
	runRealServer(r)
	runPools(r)
	r.Assume("pool interleavings: sync.Pool in the three compressor files is replaced through the build overlay by a deterministic LIFO pool whose Get/Put are scheduling points (real GC-driven pool eviction is not modelled: an evicted object is simply never reused, which the empty-pool starts cover); explored to the preemption bound in pool_preemption_bound; the additional free-running concurrent pass cannot decide anything")
}

func Replay(raw json.RawMessage) (string, bool) {
	return "C18 cases are pure and deterministic: re-run scripts/check.sh C18 quick; case: " + string(raw) + "\n", false
}

// ---------------------------------------------------------------------------------------------
// (D) pooled compressor state under a controlled scheduler. The three grpc.go files are built with
// "sync" replaced by the vsync shim (build overlay): sync.Pool is a deterministic LIFO pool whose Get
// and Put are scheduling points. Two threads run 1-2 compress+decompress round trips each; all
// interleavings up to a preemption bound.

type poolProg struct{ payloads []int }

func runPools(r *evid.Run) {
	pay := [][]byte{{}, payload(100, 1), payload(5000, 2)}
	progs := [][2][]int{{{1, 2}, {2}}, {{2}, {1, 0}}, {{1}, {1}}, {{2, 1}, {0, 2}}}
	bound := 2
	if r.Thorough() {
		bound = 3
	}
	vsync.Hook = func(op string) {
		if t := sched.Cur(); t != nil {
			t.Point(op)
		}
	}
	defer func() { vsync.Hook = nil }()
	for _, name := range []string{"gzip", "snappy", "zstd"} {
		c := encoding.GetCompressor(name)
		for _, pg := range progs {
			var results [][]string
			mk := func() sched.Scenario {
				vsync.DrainAll()
				_ = vsync.TakeMisuse()
				results = make([][]string, 2)
				var sc sched.Scenario
				for ti := 0; ti < 2; ti++ {
					ti := ti
					sc.Threads = append(sc.Threads, func(t *sched.T) {
						for _, pi := range pg[ti] {
							p := pay[pi]
							var buf bytes.Buffer
							w, err := c.Compress(&buf)
							if err != nil {
								results[ti] = append(results[ti], "compress: "+err.Error())
								continue
							}
							t.Point("write")
							_, err = w.Write(p)
							t.Point("close")
							if cerr := w.Close(); err == nil {
								err = cerr
							}
							if err != nil {
								results[ti] = append(results[ti], "write: "+err.Error())
								continue
							}
							rd, err := c.Decompress(bytes.NewReader(buf.Bytes()))
							if err != nil {
								results[ti] = append(results[ti], "decompress: "+err.Error())
								continue
							}
							// one read step: the compressors may deliver the same bytes in a varying number of
							// Read calls (zstd decodes asynchronously), which would make executions
							// non-reproducible; the pool.Put at EOF inside is still a scheduling point
							t.Point("read")
							got, err := io.ReadAll(rd)
							if err != nil {
								results[ti] = append(results[ti], "read: "+err.Error())
								continue
							}
							if bytes.Equal(got, p) {
								results[ti] = append(results[ti], "ok")
							} else {
								results[ti] = append(results[ti], fmt.Sprintf("DIFFERS: got %d bytes want %d", len(got), len(p)))
							}
						}
					})
				}
				return sc
			}
			states := sched.StateSet{}
			ex := &sched.Explorer{Mk: mk, MaxBound: bound, Stop: r.Expired, States: states,
				Check: func(x sched.Exec, _ *sched.Scenario) string {
					out := fmt.Sprint(results)
					cs := map[string]any{"kind": "pool", "compressor": name, "programs": pg, "choices": x.Choices, "trace": sched.TraceStr(x)}
					if x.Diverged != "" {
						// not reproducible: an infrastructure problem, never a verdict
						r.AddExtra("pool_diverged_executions", 1)
						r.Cap("pool exploration: a replayed prefix diverged (" + name + "): " + x.Diverged)
						return "diverged"
					}
					if x.Deadlock || x.Livelock || x.Panic != "" {
						sig := "pool/execution-abnormal/" + name
						if x.Panic != "" {
							sig = "pool/panic/" + name
						}
						r.Violate(sig, fmt.Sprintf("deadlock=%v livelock=%v panic=%s | trace %s", x.Deadlock, x.Livelock, x.Panic, sched.TraceStr(x)), cs)
						return "abnormal"
					}
					for _, m := range vsync.TakeMisuse() {
						r.Violate("pool/misuse/"+name, m+" | trace "+sched.TraceStr(x), cs)
					}
					for ti := range results {
						for _, res := range results[ti] {
							if res != "ok" {
								r.Violate("pool/concurrent-roundtrip-differs/"+name, fmt.Sprintf("thread %d: %s | trace %s", ti, res, sched.TraceStr(x)), cs)
							}
						}
					}
					r.Outcome(name+fmt.Sprint(pg)+sched.TraceStr(x), true)
					return out
				}}
			res := ex.Run()
			r.AddExtra("pool_executions", res.Executions)
			r.AddExtra("pool_scheduling_decisions", res.Points)
			r.Part(map[string]any{"scenario": fmt.Sprintf("pool/%s programs %v", name, pg), "executions": res.Executions, "preemption_bound_completed": res.Bound, "space_exhausted_at_bound": res.Exhausted})
		}
	}
	r.Extra("pool_preemption_bound", bound)
}
