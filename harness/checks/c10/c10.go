// Package c10: revisions follow commit order; linearizable reads see all acknowledged writes.
// SCHED: all interleavings of 2-3 clients calling the real table.ActiveTable over a simulated Raft
// host (E5) whose replicas are real fsm.FSM instances: node 0 applies eagerly, node 1 lags under
// scheduler control, with the batch size of every apply call as a data choice.
package c10

import (
	"context"
	"encoding/json"
	"errors"
	"fmt"
	"hash/fnv"
	"strings"
	"sync/atomic"
	"time"

	"github.com/jamf/regatta/regattapb"
	"github.com/jamf/regatta/storage/table"
	"github.com/jamf/regatta/storage/table/fsm"
	"github.com/jamf/regatta/util/iter"
	"github.com/lni/dragonboat/v4"
	sm "github.com/lni/dragonboat/v4/statemachine"

	. "verif/harness/cmdx"
	"verif/harness/engx"
	"verif/harness/evid"
	"verif/harness/fsmx"
	"verif/harness/par"
	"verif/harness/refkv"
	"verif/harness/sched"
	"verif/harness/simraft"
)

var wild = []byte{0}

const (
	opPut = iota
	opDelRange
	opTxnWrite
	opTxnEmptyBranch
	opTxnReadonly
	opRangeLin
	opRangeSer
	opIterLin
	opTxnReadonlyNoCmp
	opIterSer
	opPutPlain
	nOps
)

var opName = []string{"put", "delete-range", "txn(write)", "txn(empty-taken-branch)", "txn(read-only)", "range(linearizable)", "range(serializable)", "iterate(linearizable)", "txn(read-only,no-predicates)", "iterate(serializable)", "put(no prev_kv: stays in the plain apply batch)"}

type prog struct {
	Node int   `json:"node"`
	Ops  []int `json:"ops"`
}

type Case struct {
	Progs   []prog `json:"progs"`
	Choices []int  `json:"choices,omitempty"`
	Trace   string `json:"trace,omitempty"`
}

type callRec struct {
	client, k, op int
	node          int
	ci, cr        uint64 // commit index at invocation and at return
	idx           uint64 // log index of the mutation (0 for reads)
	rev           uint64
	resp          string // canonical rendering of the response
	err           error
	mut           bool
}

type world struct {
	c       *simraft.Cluster
	insts   []*fsmx.Inst
	calls   []*callRec
	pending int // client threads not finished
	hist    []uint64
	base    uint64 // index of the reset entry; the log starts at base+1
	execs   int
}

func (w *world) close() {
	for _, in := range w.insts {
		in.Close()
	}
}

func (w *world) key() string {
	var sb strings.Builder
	for _, e := range w.c.Log {
		h := fnv.New32a()
		_, _ = h.Write(e.Cmd)
		fmt.Fprintf(&sb, "%d:%x,", e.Index-w.base, h.Sum32())
	}
	for _, n := range w.c.Nodes {
		fmt.Fprintf(&sb, "|p%d", n.Pos)
	}
	for _, h := range w.hist {
		fmt.Fprintf(&sb, "|h%x", h)
	}
	fmt.Fprintf(&sb, "|c%d", len(w.calls))
	return sb.String()
}

func rangeStr(kvs []*regattapb.KeyValue, count int64, more bool) string {
	return fmt.Sprintf("kvs=%s count=%d more=%v", fsmx.KVs(kvs), count, more)
}

// mk builds a fresh world. reuse (optional) are the two FSM instances of the previous execution of the
// same scenario: they are emptied by a real range delete at a fresh index (outside the log) instead
// of being reopened, which is what makes ~10^5 executions per minute affordable.
func mk(c Case, reuse []*fsmx.Inst, base uint64) (sched.Scenario, *world) {
	w := &world{hist: make([]uint64, len(c.Progs))}
	if len(reuse) == 2 {
		w.insts = reuse
		for _, in := range w.insts {
			if _, err := in.Update([]sm.Entry{fsmx.Entry(base, Del("\x00", wild, false, false))}); err != nil {
				panic(err)
			}
		}
	} else {
		base = 0
		for i := 0; i < 2; i++ {
			env := fsmx.NewEnv()
			inst, _, err := env.Open("t", 10001, fsm.RecoveryTypeSnapshot)
			if err != nil {
				panic(err)
			}
			w.insts = append(w.insts, inst)
		}
	}
	w.c = simraft.NewClusterAt(10001, base, w.insts...)
	w.base = base
	w.c.Eager = []bool{true, false}
	w.c.ReadFaults = true
	w.pending = len(c.Progs)
	sc := sched.Scenario{Key: w.key}
	for ci, p := range c.Progs {
		ci, p := ci, p
		sc.Threads = append(sc.Threads, func(t *sched.T) {
			defer func() { w.pending-- }()
			// each client has its own view of the node (own scheduler handle)
			host := simraft.NewHost(w.c.Nodes[p.Node], t)
			at := table.Table{Name: "t", ClusterID: 10001}.AsActive(host)
			ctx := context.Background()
			for k, op := range p.Ops {
				rec := &callRec{client: ci, k: k, op: op, node: p.Node}
				t.Point(fmt.Sprintf("c%d.%d:%s.invoke", ci, k, opName[op]))
				rec.ci = w.c.Commit()
				val := fmt.Sprintf("c%d.%d", ci, k)
				rec.resp, rec.rev, rec.mut, rec.err = doOp(&at, ctx, op, val, func() { t.Point(fmt.Sprintf("c%d.%d:first-pull", ci, k)) })
				rec.idx = host.LastIndex()
				t.Point(fmt.Sprintf("c%d.%d:%s.return", ci, k, opName[op]))
				rec.cr = w.c.Commit()
				h := fnv.New64a()
				rel := rec.rev
				if rel >= w.base {
					rel -= w.base
				}
				fmt.Fprintf(h, "%d|%d|%d|%d|%s|%v", w.hist[ci], rec.ci-w.base, rec.cr-w.base, rel, rec.resp, rec.err)
				w.hist[ci] = h.Sum64()
				w.calls = append(w.calls, rec)
			}
		})
	}
	// applier of the lagging node
	sc.Threads = append(sc.Threads, func(t *sched.T) {
		n := w.c.Nodes[1]
		for {
			t.Await("n1.applier", func() bool { return n.Pos < len(w.c.Log) || w.pending == 0 })
			if n.Pos >= len(w.c.Log) {
				return
			}
			k := 1
			if len(w.c.Log)-n.Pos > 1 && t.Choose("n1.batch-all", 2) == 1 {
				k = len(w.c.Log) - n.Pos
			}
			if _, err := n.Step(k); err != nil {
				panic(err)
			}
		}
	})
	return sc, w
}

type viol struct{ sig, detail string }

func check(x sched.Exec, w *world, c Case) (vs []viol, outcome string) {
	if x.Deadlock || x.Livelock || x.Panic != "" || x.Diverged != "" {
		return []viol{{"execution-abnormal", fmt.Sprintf("deadlock=%v livelock=%v panic=%s diverged=%s", x.Deadlock, x.Livelock, x.Panic, x.Diverged)}}, "abnormal"
	}
	// ground truth: replay the log in order in the model
	m := refkv.New()
	states := map[uint64]*refkv.Model{w.base: m.Clone()}
	wantMut := map[uint64]string{}
	var last uint64
	for _, e := range w.c.Log {
		cmd := &regattapb.Command{}
		if err := cmd.UnmarshalVT(e.Cmd); err != nil {
			return []viol{{"log-entry-undecodable", err.Error()}}, ""
		}
		v, cr := m.Apply(e.Index, cmd)
		states[e.Index] = m.Clone()
		switch cmd.Type {
		case regattapb.Command_TXN:
			wantMut[e.Index] = fmt.Sprintf("succeeded=%v %s", v == 1, fsmx.RespsStr(cr.Responses))
		default:
			if len(cr.Responses) > 0 {
				wantMut[e.Index] = fsmx.RespStr(cr.Responses[0])
			}
		}
		last = e.Index
	}
	_ = last
	readAt := func(j uint64, op int) string {
		s := states[j]
		switch op {
		case opTxnReadonly:
			ok, rs := s.Clone().Txn(Cmps(Exists("a", nil)), Ops(OpGet("a", wild, 0, false, false)), Ops(OpGet("b", nil, 0, false, false)))
			return fmt.Sprintf("succeeded=%v %s", ok, fsmx.RespsStr(rs))
		case opTxnReadonlyNoCmp:
			ok, rs := s.Clone().Txn(nil, Ops(OpGet("a", wild, 0, false, false)), nil)
			return fmt.Sprintf("succeeded=%v %s", ok, fsmx.RespsStr(rs))
		default:
			r := s.Range(&regattapb.RequestOp_Range{Key: B("a"), RangeEnd: wild})
			return rangeStr(r.Kvs, r.Count, r.More)
		}
	}
	var sb strings.Builder
	for _, r := range w.calls {
		label := fmt.Sprintf("c%d.%d:%s@n%d", r.client, r.k, opName[r.op], r.node)
		if r.err != nil {
			if !r.mut && errors.Is(r.err, dragonboat.ErrTimeout) {
				// an injected read-index timeout: refusing the read is correct
				fmt.Fprintf(&sb, "%s=timeout;", label)
				continue
			}
			vs = append(vs, viol{"call-error/" + opName[r.op], fmt.Sprintf("%s: %v", label, r.err)})
			continue
		}
		if r.mut {
			if r.rev == 0 {
				vs = append(vs, viol{"revision-zero/" + opName[r.op], fmt.Sprintf("%s acknowledged with revision 0 (log index %d)", label, r.idx)})
			} else if r.rev != r.idx {
				vs = append(vs, viol{"revision-not-log-position/" + opName[r.op], fmt.Sprintf("%s revision %d, log index %d", label, r.rev, r.idx)})
			}
			if want := wantMut[r.idx]; r.resp != want {
				vs = append(vs, viol{"mutation-response-not-explained-by-commit-order/" + opName[r.op], fmt.Sprintf("%s (index %d): got %s want %s", label, r.idx, r.resp, want)})
			}
		} else {
			lo := r.ci
			if r.op == opRangeSer || r.op == opIterSer {
				lo = w.base
			}
			ok := false
			var cands []string
			for j := lo; j <= r.cr; j++ {
				if _, exists := states[j]; !exists {
					continue
				}
				want := readAt(j, r.op)
				cands = append(cands, fmt.Sprintf("@%d:%s", j, want))
				if want == r.resp {
					ok = true
					break
				}
			}
			if !ok {
				sig := "stale-or-phantom-read/" + opName[r.op]
				// distinguish "older than allowed" from "never existed"
				for j := w.base; j < lo; j++ {
					if _, exists := states[j]; exists && readAt(j, r.op) == r.resp {
						sig = "read-misses-acknowledged-writes/" + opName[r.op]
					}
				}
				vs = append(vs, viol{sig, fmt.Sprintf("%s: got %s; allowed states %v (commit index at invocation %d, at return %d)", label, r.resp, cands, r.ci, r.cr)})
			}
		}
		fmt.Fprintf(&sb, "%s=%d/%s;", label, r.rev, r.resp)
	}
	return vs, sb.String()
}

func programs(maxLen int) [][]int {
	var out [][]int
	var rec func(cur []int)
	rec = func(cur []int) {
		if len(cur) > 0 {
			out = append(out, append([]int(nil), cur...))
		}
		if len(cur) == maxLen {
			return
		}
		for op := 0; op < nOps; op++ {
			rec(append(cur, op))
		}
	}
	rec(nil)
	return out
}

func exploreCase(r *evid.Run, c Case) {
	var lastW *world
	states := sched.StateSet{}
	ex := &sched.Explorer{
		Mk: func() sched.Scenario {
			var reuse []*fsmx.Inst
			var base uint64
			if lastW != nil {
				reuse = lastW.insts
				base = lastW.c.Commit() + 1
				if lastW.execs > 2000 { // bound tombstone accumulation
					lastW.close()
					reuse = nil
				}
			}
			sc, w := mk(c, reuse, base)
			if reuse != nil {
				w.execs = lastW.execs + 1
			}
			lastW = w
			return sc
		},
		Check: func(x sched.Exec, sc *sched.Scenario) string {
			vs, outcome := check(x, lastW, c)
			for _, v := range vs {
				cc := c
				cc.Choices = x.Choices
				cc.Trace = sched.TraceStr(x)
				r.Violate(v.sig, v.detail+" | trace: "+cc.Trace, cc)
			}
			r.Outcome(fmt.Sprint(c.Progs)+outcome, true)
			return outcome
		},
		MaxBound: -1,
		Prune:    true,
		Stop:     r.Expired,
		States:   states,
	}
	res := ex.Run()
	if lastW != nil {
		lastW.close()
	}
	r.States.Add(int64(len(states)))
	r.Transitions.Add(res.Points)
	r.AddExtra("executions", res.Executions)
	r.AddExtra("scenarios", 1)
	if !res.Exhausted {
		r.Cap("deadline: a scenario was not exhausted")
	}
	if len(res.Outcomes) == 1 && res.Executions > 10 {
		r.AddExtra("scenarios_with_single_outcome", 1)
	}
}

func Run(r *evid.Run) {
	r.Check = "c10"
	r.Rule("scenarios = client programs over {put(prev), delete-range(prev,count), write txn, txn whose taken branch is empty, read-only txn with and without predicates, linearizable and serializable range, linearizable and serializable iterator} on colliding keys a,b: client A with 1-2 operations, client B with 1 operation (thorough: also a third client with 1 operation on the lagging node), each bound to the eager node 0 or the lagging node 1 (3 bindings); real table.ActiveTable and real FSM replicas over the simulated Raft host; scheduling points at invoke, append, wait-applied, read-index capture, lookup, first pull, return and every apply call of the lagging node, whose batch size {1, all pending} is a data choice, and a linearizable read on a lagging replica may fail with a temporary read-index timeout (data choice: refusing the read is correct, answering from the lagging replica is not); ALL interleavings with visited-state pruning on (log, replica positions, per-client response histories). Oracle from the log as ground truth: revision != 0 and = log index, every mutation response = model replay in index order, linearizable reads / read-only txns equal the model at some index in [commit@invoke, commit@return], serializable reads at some index <= commit@return. Non-trivial: every execution; distinct = distinct (scenario, revisions+responses)")
	p2, p1 := programs(2), programs(1)
	bindings := [][2]int{{0, 1}, {1, 1}, {1, 0}}
	var cases []Case
	for _, a := range p2 {
		for _, b := range p1 {
			for _, bd := range bindings {
				cases = append(cases, Case{Progs: []prog{{bd[0], a}, {bd[1], b}}})
			}
		}
	}
	if r.Thorough() {
		for _, a := range p1 {
			for _, b := range p1 {
				for _, c := range p1 {
					cases = append(cases, Case{Progs: []prog{{0, a}, {1, b}, {1, c}}})
				}
			}
		}
	}
	done := par.For(int64(len(cases)), r.Expired, func(i int64) { exploreCase(r, cases[i]) })
	if done < int64(len(cases)) {
		r.Cap(fmt.Sprintf("deadline: %d of %d scenarios", done, len(cases)))
	}
	runTxnShapes(r)
	runConformance(r)
	r.Sample(map[string]any{"scenario": []map[string]any{{"client": "A", "node": 1, "ops": []string{"put", "range(linearizable)"}}, {"client": "B", "node": 0, "ops": []string{"txn(empty-taken-branch)"}}}})
	r.Assume("simulated Raft host = dragonboat's documented contract (append = commit; proposal answered from the proposing replica after it applied the index; SyncRead waits for the commit index captured at invocation; StaleRead reads the local replica as is); conformance: every client program of length <= 2 (thorough 3) is replayed single-node/no-lag through the simulated host and through a real dragonboat NodeHost running the same state machine and every response and revision step is compared (traces_validated_against_impl counts these traces)")
	r.Assume("node 0 applies every entry at commit time, node 1 applies when the scheduler lets it, in batches of 1 or all pending")
}

func Replay(raw json.RawMessage) (string, bool) {
	var c Case
	if err := json.Unmarshal(raw, &c); err != nil {
		return err.Error(), false
	}
	var w *world
	x, _ := sched.Replay(func() sched.Scenario {
		sc, ww := mk(c, nil, 0)
		w = ww
		return sc
	}, c.Choices, 0)
	defer w.close()
	vs, _ := check(x, w, c)
	var sb strings.Builder
	fmt.Fprintf(&sb, "trace: %s\n", sched.TraceStr(x))
	for _, v := range vs {
		fmt.Fprintf(&sb, "%s: %s\n", v.sig, v.detail)
	}
	return sb.String(), len(vs) == 0
}

// doOp performs one client operation through an ActiveTable (over the simulated or a real host) and
// renders its response canonically.
func doOp(at *table.ActiveTable, ctx context.Context, op int, val string, beforePull func()) (resp string, rev uint64, mut bool, err error) {
	switch op {
	case opPut:
		r, e := at.Put(ctx, &regattapb.PutRequest{Table: Table, Key: B("a"), Value: B(val), PrevKv: true})
		err, mut = e, true
		if e == nil {
			rev = r.Header.GetRevision()
			resp = fsmx.RespStr(&regattapb.ResponseOp{Response: &regattapb.ResponseOp_ResponsePut{ResponsePut: &regattapb.ResponseOp_Put{PrevKv: r.PrevKv}}})
		}
	case opPutPlain:
		r, e := at.Put(ctx, &regattapb.PutRequest{Table: Table, Key: B("a"), Value: B(val)})
		err, mut = e, true
		if e == nil {
			rev = r.Header.GetRevision()
			resp = fsmx.RespStr(&regattapb.ResponseOp{Response: &regattapb.ResponseOp_ResponsePut{ResponsePut: &regattapb.ResponseOp_Put{PrevKv: r.PrevKv}}})
		}
	case opDelRange:
		r, e := at.Delete(ctx, &regattapb.DeleteRangeRequest{Table: Table, Key: B("a"), RangeEnd: wild, PrevKv: true, Count: true})
		err, mut = e, true
		if e == nil {
			rev = r.Header.GetRevision()
			resp = fsmx.RespStr(&regattapb.ResponseOp{Response: &regattapb.ResponseOp_ResponseDeleteRange{ResponseDeleteRange: &regattapb.ResponseOp_DeleteRange{Deleted: r.Deleted, PrevKvs: r.PrevKvs}}})
		}
	case opTxnWrite:
		r, e := at.Txn(ctx, &regattapb.TxnRequest{Table: Table, Compare: Cmps(Exists("a", nil)), Success: Ops(OpPut("b", val, true), OpGet("a", wild, 0, false, false)), Failure: Ops(OpPut("a", val, false))})
		err, mut = e, true
		if e == nil {
			rev = r.Header.GetRevision()
			resp = fmt.Sprintf("succeeded=%v %s", r.Succeeded, fsmx.RespsStr(r.Responses))
		}
	case opTxnEmptyBranch:
		r, e := at.Txn(ctx, &regattapb.TxnRequest{Table: Table, Compare: Cmps(Exists("zz", nil)), Success: Ops(OpPut("a", val, false))})
		err, mut = e, true
		if e == nil {
			rev = r.Header.GetRevision()
			resp = fmt.Sprintf("succeeded=%v %s", r.Succeeded, fsmx.RespsStr(r.Responses))
		}
	case opTxnReadonly:
		r, e := at.Txn(ctx, &regattapb.TxnRequest{Table: Table, Compare: Cmps(Exists("a", nil)), Success: Ops(OpGet("a", wild, 0, false, false)), Failure: Ops(OpGet("b", nil, 0, false, false))})
		err = e
		if e == nil {
			resp = fmt.Sprintf("succeeded=%v %s", r.Succeeded, fsmx.RespsStr(r.Responses))
		}
	case opTxnReadonlyNoCmp:
		r, e := at.Txn(ctx, &regattapb.TxnRequest{Table: Table, Success: Ops(OpGet("a", wild, 0, false, false))})
		err = e
		if e == nil {
			resp = fmt.Sprintf("succeeded=%v %s", r.Succeeded, fsmx.RespsStr(r.Responses))
		}
	case opRangeLin, opRangeSer:
		r, e := at.Range(ctx, &regattapb.RangeRequest{Table: Table, Key: B("a"), RangeEnd: wild, Linearizable: op == opRangeLin})
		err = e
		if e == nil {
			resp = rangeStr(r.Kvs, r.Count, r.More)
		}
	case opIterLin, opIterSer:
		seq, e := at.Iterator(ctx, &regattapb.RangeRequest{Table: Table, Key: B("a"), RangeEnd: wild, Linearizable: op == opIterLin})
		err = e
		if e == nil {
			if beforePull != nil {
				beforePull()
			}
			var kvs []*regattapb.KeyValue
			var cnt int64
			iter.Consume(seq, func(r *regattapb.ResponseOp_Range) {
				kvs = append(kvs, r.Kvs...)
				cnt += r.Count
			})
			resp = rangeStr(kvs, cnt, false)
		}
	}
	return
}

// runConformance replays single-node, no-lag traces of the simulated Raft host against a real
// dragonboat NodeHost running the same state machine and compares every response (revisions as
// differences: the real log starts with Raft's own entries).
// runTxnShapes: the revision clause swept over transaction SHAPES, sequentially, through the real
// table.ActiveTable and FSM: predicates {none, one that holds, one that does not} x success branch x
// failure branch from 7 operation lists (empty, read, put, put+prev_kv, delete, put+read, range
// delete). Every transaction that is not read-only is acknowledged with the revision following the
// previous write's, the write after it with the next one, the succeeded flag is the predicate's
// truth and there is one response per operation of the executed branch.
func runTxnShapes(r *evid.Run) {
	preds := []struct {
		name string
		cmp  []*regattapb.Compare
		hold bool
	}{{"none", nil, true}, {"holds", Cmps(Exists("a", nil)), true}, {"fails", Cmps(Exists("zz", nil)), false}}
	branches := []struct {
		name string
		ops  []*regattapb.RequestOp
	}{
		{"empty", nil},
		{"read", Ops(OpGet("a", nil, 0, false, false))},
		{"put", Ops(OpPut("b", "1", false))},
		{"put+prev", Ops(OpPut("b", "2", true))},
		{"delete", Ops(OpDel("a", nil, false, false))},
		{"put,read", Ops(OpPut("c", "3", false), OpGet("a", wild, 0, false, false))},
		{"delete-range", Ops(OpDel("a", wild, true, true))},
	}
	n := 0
	for _, pr := range preds {
		for _, su := range branches {
			for _, fa := range branches {
				n++
				shape := fmt.Sprintf("if[%s] then[%s] else[%s]", pr.name, su.name, fa.name)
				cs := map[string]any{"kind": "txn-shape", "shape": shape}
				env := fsmx.NewEnv()
				inst, _, err := env.Open("t", 10001, fsm.RecoveryTypeSnapshot)
				if err != nil {
					r.Inconcl.Add(1)
					continue
				}
				c := simraft.NewCluster(10001, inst)
				at := table.Table{Name: "t", ClusterID: 10001}.AsActive(simraft.NewHost(c.Nodes[0], nil))
				ctx := context.Background()
				p1, err := at.Put(ctx, &regattapb.PutRequest{Table: Table, Key: B("a"), Value: B("0")})
				if err != nil {
					r.Inconcl.Add(1)
					inst.Close()
					continue
				}
				req := &regattapb.TxnRequest{Table: Table, Compare: pr.cmp, Success: su.ops, Failure: fa.ops}
				readonly := req.IsReadonly()
				tr, terr := at.Txn(ctx, req)
				p2, err2 := at.Put(ctx, &regattapb.PutRequest{Table: Table, Key: B("a"), Value: B("9")})
				inst.Close()
				r.Evaluations.Add(1)
				if terr != nil || err2 != nil {
					r.Violate("txn-shape/error", fmt.Sprintf("%s: txn %v, put %v", shape, terr, err2), cs)
					continue
				}
				executed := su.ops
				if !pr.hold {
					executed = fa.ops
				}
				r.Outcome(fmt.Sprintf("%s rev=%d succeeded=%v responses=%d", shape, tr.Header.GetRevision()-p1.Header.GetRevision(), tr.Succeeded, len(tr.Responses)), true)
				if tr.Succeeded != pr.hold {
					r.Violate("txn-shape/succeeded-flag", fmt.Sprintf("%s: succeeded=%v", shape, tr.Succeeded), cs)
				}
				if len(tr.Responses) != len(executed) {
					r.Violate("txn-shape/response-count", fmt.Sprintf("%s: %d responses for %d operations", shape, len(tr.Responses), len(executed)), cs)
				}
				base := p1.Header.GetRevision()
				if readonly {
					if got := p2.Header.GetRevision(); got != base+1 {
						r.Violate("txn-shape/read-only-transaction-consumed-a-revision", fmt.Sprintf("%s: put %d, put after the transaction %d", shape, base, got), cs)
					}
					continue
				}
				if got := tr.Header.GetRevision(); got != base+1 {
					sig := "txn-shape/revision-not-the-log-position"
					if got == 0 {
						sig = "txn-shape/revision-zero"
					}
					r.Violate(sig, fmt.Sprintf("%s: previous write %d, transaction acknowledged with revision %d", shape, base, got), cs)
				}
				if got := p2.Header.GetRevision(); got != base+2 {
					r.Violate("txn-shape/revision-after-the-transaction", fmt.Sprintf("%s: previous write %d, write after the transaction %d", shape, base, got), cs)
				}
			}
		}
	}
	r.Extra("transaction_shapes", n)
	r.Rule("transaction shapes (sequential): predicates {none, holds, fails} x success x failure branch from 7 operation lists (empty, read, put, put+prev_kv, delete, put+read, range delete) through the real ActiveTable and FSM between two puts: a transaction that is not read-only is acknowledged with the revision following the previous write's, the next write with the one after; succeeded = the predicate's truth; one response per operation of the executed branch")
}

func runConformance(r *evid.Run) {
	eng, err := engx.Start(engx.Opts{})
	if err != nil {
		r.Inconcl.Add(1)
		r.Extra("conformance", "engine did not start: "+err.Error())
		return
	}
	defer eng.Close()
	depth := 2
	if r.Thorough() {
		depth = 3
	}
	seqs := programs(depth)
	var n atomic.Int64
	old := par.Workers
	par.Workers = 8
	defer func() { par.Workers = old }()
	par.For(int64(len(seqs)), r.Expired, func(i int64) {
		ops := seqs[i]
		// simulated side
		env := fsmx.NewEnv()
		inst, _, err := env.Open("t", 10001, fsm.RecoveryTypeSnapshot)
		if err != nil {
			return
		}
		defer inst.Close()
		c := simraft.NewCluster(10001, inst)
		sat := table.Table{Name: "t", ClusterID: 10001}.AsActive(simraft.NewHost(c.Nodes[0], nil))
		// real side: the table must be called "t" for the requests; one engine table per trace is too
		// slow to create under the same name, so the real table has its own name and requests carry it
		name := fmt.Sprintf("conf%d", n.Add(1))
		var cerr error
		for k := 0; k < 50; k++ {
			if _, cerr = eng.CreateTable(name); cerr == nil || !strings.Contains(cerr.Error(), "version mismatch") {
				break
			}
			time.Sleep(2 * time.Millisecond)
		}
		if cerr != nil || eng.WaitTable(name, 20*time.Second) != nil {
			r.Inconcl.Add(1)
			return
		}
		rat, err := eng.GetTable(name)
		if err != nil {
			r.Inconcl.Add(1)
			return
		}
		var sPrev, rPrev uint64
		for k, op := range ops {
			val := fmt.Sprintf("v%d", k)
			ctx, cancel := context.WithTimeout(context.Background(), 20*time.Second)
			sresp, srev, mut, serr := doOp(&sat, ctx, op, val, nil)
			rresp, rrev, _, rerr := doOp(&rat, ctx, op, val, nil)
			cancel()
			if rerr != nil && (strings.Contains(rerr.Error(), "timeout") || strings.Contains(rerr.Error(), "deadline")) {
				r.Inconcl.Add(1)
				return
			}
			if (serr == nil) != (rerr == nil) || sresp != rresp {
				r.Violate("conformance/simulated-host-and-real-nodehost-disagree/"+opName[op], fmt.Sprintf("trace %v step %d: simulated %q err %v, real %q err %v", ops, k, sresp, serr, rresp, rerr), map[string]any{"kind": "conformance", "ops": ops})
				return
			}
			if mut && serr == nil {
				if sPrev != 0 && srev-sPrev != rrev-rPrev {
					r.Violate("conformance/revision-steps-differ", fmt.Sprintf("trace %v step %d: simulated %d->%d, real %d->%d", ops, k, sPrev, srev, rPrev, rrev), map[string]any{"kind": "conformance", "ops": ops})
				}
				if rrev == 0 {
					r.Violate("conformance/real-revision-zero/"+opName[op], fmt.Sprintf("trace %v step %d", ops, k), map[string]any{"kind": "conformance", "ops": ops})
				}
				sPrev, rPrev = srev, rrev
			}
		}
		r.Validated.Add(1)
		_ = eng.DeleteTable(name)
		if i%64 == 63 {
			_ = eng.Manager.VerifReconcile()
		}
	})
	r.Extra("conformance_traces_compared_with_real_nodehost", r.Validated.Load())
}
