// Package c07: restoring a table stream reproduces exactly the content that was captured.
package c07

import (
	"bytes"
	"context"
	"encoding/json"
	"errors"
	"fmt"
	"io"
	"os"
	"path/filepath"
	"strings"
	"sync"
	"sync/atomic"
	"time"

	"github.com/jamf/regatta/regattapb"
	"github.com/jamf/regatta/regattaserver"
	"github.com/jamf/regatta/replication"
	"github.com/jamf/regatta/replication/backup"
	"github.com/jamf/regatta/replication/snapshot"
	"github.com/jamf/regatta/storage/kv"
	"github.com/jamf/regatta/storage/table"
	"github.com/jamf/regatta/storage/table/fsm"
	"github.com/jamf/regatta/verifvp/vp"
	sm "github.com/lni/dragonboat/v4/statemachine"
	"google.golang.org/grpc"

	. "verif/harness/cmdx"
	"verif/harness/engx"
	"verif/harness/evid"
	"verif/harness/fsmx"
	"verif/harness/par"
)

type Case struct {
	Kind     string `json:"kind"` // manager | worker | backup | pit
	Sizes    []int  `json:"sizes"`
	MaxInMem uint64 `json:"max_in_mem_log_size"`
	Prepop   bool   `json:"target_prepopulated,omitempty"`
	// KeyLens (parallel to Sizes): 0 = the short default key, L = a key of L bytes ('K' repeated, last
	// byte distinct): keys at and just below the 1024-byte limit share their first 1019 bytes
	KeyLens []int `json:"key_lengths,omitempty"`
	// AfterFailed: an interrupted restore of another image into the same table comes first
	AfterFailed bool   `json:"after_interrupted_restore,omitempty"`
	Corrupt     string `json:"corrupt,omitempty"`
	J           int    `json:"j,omitempty"`
}

type viol struct{ sig, detail string }

// failAfter hands out the first n reads of a stream (the snapshot file reader returns one record per
// read) and then fails like a broken transport.
type failAfter struct {
	r io.Reader
	n int
}

func (f *failAfter) Read(p []byte) (int, error) {
	if f.n <= 0 {
		return 0, errors.New("verif: transport broke while the stream was being read")
	}
	f.n--
	return f.r.Read(p)
}

var (
	oldImgOnce sync.Once
	oldImgPath string
	oldImgErr  error
)

// oldImage is the stream of a three-pair table whose keys occur in no other content of this check.
func oldImage(e *engx.Engine) (string, error) {
	oldImgOnce.Do(func() {
		name := "oldimage"
		if err := retryCAS(func() error { _, e2 := e.CreateTable(name); return e2 }); err != nil {
			oldImgErr = err
			return
		}
		if oldImgErr = e.WaitTable(name, 20*time.Second); oldImgErr != nil {
			return
		}
		ctx, cancel := context.WithTimeout(context.Background(), 10*time.Second)
		defer cancel()
		for _, k := range []string{"old-image-1", "old-image-2", "old-image-3"} {
			if _, err := e.Put(ctx, &regattapb.PutRequest{Table: []byte(name), Key: []byte(k), Value: []byte("from the interrupted restore")}); err != nil {
				oldImgErr = err
				return
			}
		}
		oldImgPath, _, oldImgErr = streamOf(e, name)
	})
	return oldImgPath, oldImgErr
}

var seq atomic.Int64

func valueOf(i, size int) []byte { return bytes.Repeat([]byte{byte('a' + i%26)}, size) }

func kvsStr(kvs []*regattapb.KeyValue) string { return fsmx.KVs(kvs) }

// recStream records what SnapshotServer.Stream sends.
type recStream struct {
	grpc.ServerStream
	ctx context.Context
	buf bytes.Buffer
}

func (s *recStream) Context() context.Context { return s.ctx }
func (s *recStream) Send(c *regattapb.SnapshotChunk) error {
	s.buf.Write(c.Data)
	return nil
}

// retryCAS retries a catalogue operation that lost a compare-and-set race on the shared id sequence
// against another case running in parallel on the same engine (a harness artefact, not a verdict).
func retryCAS(f func() error) error {
	var err error
	for i := 0; i < 50; i++ {
		if err = f(); err == nil || !strings.Contains(err.Error(), "version mismatch") {
			return err
		}
		time.Sleep(time.Duration(1+i%7) * time.Millisecond)
	}
	return err
}

// fill creates a table with the given value sizes and returns its content.
func keyOf(i int, keyLens []int) []byte {
	if i < len(keyLens) && keyLens[i] > 0 {
		return append(bytes.Repeat([]byte("K"), keyLens[i]-1), byte('a'+i))
	}
	return []byte(fmt.Sprintf("k%02d", i))
}

func fill(e *engx.Engine, name string, sizes []int, keyLens ...int) ([]*regattapb.KeyValue, error) {
	if err := retryCAS(func() error { _, err := e.CreateTable(name); return err }); err != nil {
		return nil, err
	}
	if err := e.WaitTable(name, 20*time.Second); err != nil {
		return nil, err
	}
	ctx, cancel := context.WithTimeout(context.Background(), 30*time.Second)
	defer cancel()
	for i, s := range sizes {
		if _, err := e.Put(ctx, &regattapb.PutRequest{Table: []byte(name), Key: keyOf(i, keyLens), Value: valueOf(i, s)}); err != nil {
			return nil, err
		}
	}
	return e.Dump(name)
}

// streamOf produces the snapshot stream of a table with the real SnapshotServer into a temp file.
func streamOf(e *engx.Engine, name string) (path string, declared uint64, err error) {
	rs := &recStream{ctx: context.Background()}
	srv := &regattaserver.SnapshotServer{Tables: e.Engine}
	t, err := e.GetTable(name)
	if err != nil {
		return "", 0, err
	}
	ctx, cancel := context.WithTimeout(context.Background(), 10*time.Second)
	li, err := t.LocalIndex(ctx, true)
	cancel()
	if err != nil {
		return "", 0, err
	}
	if err := srv.Stream(&regattapb.SnapshotRequest{Table: []byte(name)}, rs); err != nil {
		return "", 0, err
	}
	f, err := os.CreateTemp("", "verif-c07-*.bin")
	if err != nil {
		return "", 0, err
	}
	if _, err := f.Write(rs.buf.Bytes()); err != nil {
		return "", 0, err
	}
	_ = f.Close()
	return f.Name(), li.Index, nil
}

func managerFor(e *engx.Engine, maxInMem uint64) *table.Manager {
	cfg := e.Config()
	tc := table.TableConfig(cfg.Table)
	tc.MaxInMemLogSize = maxInMem
	return table.NewManager(e.NodeHost, cfg.InitialMembers, &kv.RaftStore{NodeHost: e.NodeHost, ClusterID: 1000}, table.Config{NodeID: cfg.NodeID, Table: tc, Meta: table.MetaConfig(cfg.Meta)})
}

func withDeadline(d time.Duration, f func() error) (err error, timedOut bool) {
	ch := make(chan error, 1)
	go func() { ch <- f() }()
	select {
	case err := <-ch:
		return err, false
	case <-time.After(d):
		return nil, true
	}
}

func dumpVia(m *table.Manager, name string) ([]*regattapb.KeyValue, uint64, uint64, error) {
	deadline := time.Now().Add(20 * time.Second)
	var last error
	for time.Now().Before(deadline) {
		t, err := m.GetTable(name)
		if err == nil {
			ctx, cancel := context.WithTimeout(context.Background(), 5*time.Second)
			it, err2 := t.Iterator(ctx, &regattapb.RangeRequest{Table: []byte(name), Key: []byte{0}, RangeEnd: []byte{0}, Linearizable: true})
			if err2 == nil {
				var out []*regattapb.KeyValue
				it(func(r *regattapb.ResponseOp_Range) bool { out = append(out, r.Kvs...); return true })
				li, err3 := t.LeaderIndex(ctx, true)
				cancel()
				if err3 == nil {
					return out, li.Index, t.ClusterID, nil
				}
				err2 = err3
			}
			cancel()
			err = err2
		}
		last = err
		time.Sleep(5 * time.Millisecond)
	}
	return nil, 0, 0, last
}

func diffSig(got, want []*regattapb.KeyValue) string {
	switch {
	case len(got) < len(want):
		return "pairs-lost"
	case len(got) > len(want):
		return "pairs-added-or-surviving"
	}
	return "pairs-altered"
}

// runManager: captured stream -> Manager.Restore under the given MaxInMemLogSize.
func runManager(e *engx.Engine, c Case) (vs []viol, outcome string, inconclusive bool) {
	n := seq.Add(1)
	src, tgt := fmt.Sprintf("src%d", n), fmt.Sprintf("tgt%d", n)
	want, err := fill(e, src, c.Sizes, c.KeyLens...)
	if err != nil {
		return nil, "setup:" + err.Error(), true
	}
	path, declared, err := streamOf(e, src)
	if err != nil {
		return []viol{{"stream-error", err.Error()}}, "", false
	}
	defer os.Remove(path)
	m := managerFor(e, c.MaxInMem)
	defer m.Close()
	var oldID uint64
	if c.Prepop {
		var tb table.Table
		err := retryCAS(func() error { var e2 error; tb, e2 = m.CreateTable(tgt); return e2 })
		if err != nil {
			return nil, "setup:" + err.Error(), true
		}
		oldID = tb.ClusterID
		if err := e.WaitTable(tgt, 20*time.Second); err != nil {
			return nil, "setup:" + err.Error(), true
		}
		ctx, cancel := context.WithTimeout(context.Background(), 10*time.Second)
		for _, k := range []string{"k00", "zz-old"} {
			if _, err := e.Put(ctx, &regattapb.PutRequest{Table: []byte(tgt), Key: []byte(k), Value: []byte("old")}); err != nil {
				cancel()
				return nil, "setup:" + err.Error(), true
			}
		}
		cancel()
	}
	if c.AfterFailed {
		// an earlier restore of another image into the same table breaks off after all its pairs
		// were read (transport error before the end of the stream)
		op, err := oldImage(e)
		if err != nil {
			return nil, "setup:" + err.Error(), true
		}
		of, err := snapshot.OpenFile(op)
		if err != nil {
			return nil, "setup:" + err.Error(), true
		}
		ferr, timedOut := withDeadline(60*time.Second, func() error {
			return retryCAS(func() error {
				if _, err := of.Seek(0, io.SeekStart); err != nil {
					return err
				}
				return m.Restore(tgt, &failAfter{r: of, n: 3})
			})
		})
		of.Close()
		if timedOut {
			return nil, "restore-deadline", true
		}
		if ferr == nil {
			vs = append(vs, viol{"manager-restore/broken-stream-reported-as-success", fmt.Sprintf("sizes %v MaxInMemLogSize %d", c.Sizes, c.MaxInMem)})
		}
	}
	sf, err := snapshot.OpenFile(path)
	if err != nil {
		return []viol{{"stream-file-error", err.Error()}}, "", false
	}
	defer sf.Close()
	rerr, timedOut := withDeadline(60*time.Second, func() error {
		return retryCAS(func() error {
			if _, err := sf.Seek(0, io.SeekStart); err != nil {
				return err
			}
			return m.Restore(tgt, sf)
		})
	})
	if timedOut {
		return nil, "restore-deadline", true
	}
	if rerr != nil {
		return []viol{{"restore-error", fmt.Sprintf("sizes %v MaxInMemLogSize %d: %v", c.Sizes, c.MaxInMem, rerr)}}, "", false
	}
	got, li, id, err := dumpVia(m, tgt)
	if err != nil {
		return nil, "read-after-restore:" + err.Error(), true
	}
	tag := fmt.Sprintf("manager-restore(MaxInMemLogSize=%s)/", memClass(c.MaxInMem))
	if c.AfterFailed {
		tag = fmt.Sprintf("manager-restore-after-interrupted-restore(MaxInMemLogSize=%s)/", memClass(c.MaxInMem))
	}
	if !fsmx.EqualKVs(got, want) {
		vs = append(vs, viol{tag + diffSig(got, want), fmt.Sprintf("sizes %v MaxInMemLogSize %d prepopulated %v after interrupted restore %v: restored %s, captured %s", c.Sizes, c.MaxInMem, c.Prepop, c.AfterFailed, kvsStr(got), kvsStr(want))})
	}
	if li != declared {
		vs = append(vs, viol{tag + "leader-index-not-the-declared-index", fmt.Sprintf("leader index %d, stream declares %d", li, declared)})
	}
	if c.Prepop && id <= oldID {
		vs = append(vs, viol{tag + "shard-id-not-larger", fmt.Sprintf("restored table shard %d, previous %d", id, oldID)})
	}
	_ = m.DeleteTable(tgt)
	_ = m.DeleteTable(src)
	return vs, fmt.Sprintf("%d pairs li=%d", len(got), li), false
}

func memClass(k uint64) string {
	switch {
	case k == 0:
		return "0"
	case k >= 1<<20:
		return "large"
	}
	return "near-record-size"
}

// runWorker: leader engine -> real SnapshotServer over gRPC -> real worker.recover() on a follower engine.
func runWorker(leader, follower *engx.Engine, conn *grpc.ClientConn, c Case) (vs []viol, outcome string, inconclusive bool) {
	n := seq.Add(1)
	name := fmt.Sprintf("w%d", n)
	want, err := fill(leader, name, c.Sizes, c.KeyLens...)
	if err != nil {
		return nil, "setup:" + err.Error(), true
	}
	lt, _ := leader.GetTable(name)
	ctx, cancel := context.WithTimeout(context.Background(), 10*time.Second)
	li, err := lt.LocalIndex(ctx, true)
	cancel()
	if err != nil {
		return nil, "setup:" + err.Error(), true
	}
	if c.Prepop {
		if err := retryCAS(func() error { _, err := follower.CreateTable(name); return err }); err != nil {
			return nil, "setup:" + err.Error(), true
		}
		if err := follower.WaitTable(name, 20*time.Second); err != nil {
			return nil, "setup:" + err.Error(), true
		}
		ctx, cancel := context.WithTimeout(context.Background(), 10*time.Second)
		_, err := follower.Put(ctx, &regattapb.PutRequest{Table: []byte(name), Key: []byte("zz-old"), Value: []byte("old")})
		cancel()
		if err != nil {
			return nil, "setup:" + err.Error(), true
		}
	}
	w := replication.VerifNewWorker(follower.Engine, name, regattapb.NewLogClient(conn), regattapb.NewSnapshotClient(conn), 30*time.Second, 60*time.Second)
	rerr, timedOut := withDeadline(90*time.Second, func() error { return retryCAS(w.Recover) })
	if timedOut {
		return nil, "recover-deadline", true
	}
	if rerr != nil {
		return []viol{{"worker-recover-error", rerr.Error()}}, "", false
	}
	got, fli, _, err := dumpVia(follower.Manager, name)
	if err != nil {
		return nil, "read-after-recover:" + err.Error(), true
	}
	tag := fmt.Sprintf("worker-recover(MaxInMemLogSize=%s)/", memClass(follower.Opts.MaxInMemLogSize))
	if !fsmx.EqualKVs(got, want) {
		vs = append(vs, viol{tag + diffSig(got, want), fmt.Sprintf("sizes %v: recovered %s, leader %s", c.Sizes, kvsStr(got), kvsStr(want))})
	}
	if fli != li.Index {
		vs = append(vs, viol{tag + "leader-index-not-the-declared-index", fmt.Sprintf("follower leader index %d, leader index at capture %d", fli, li.Index)})
	}
	_ = follower.DeleteTable(name)
	_ = leader.DeleteTable(name)
	return vs, fmt.Sprintf("%d pairs li=%d", len(got), fli), false
}

// runBackup: backup.Backup -> (optional corruption) -> backup.Restore through real gRPC servers.
func runBackup(e *engx.Engine, c Case) (vs []viol, outcome string, inconclusive bool) {
	// a dedicated engine per case would be too slow: the backup covers ALL tables of the engine, so
	// this part runs on its own small engine with exactly one table
	n := seq.Add(1)
	name := fmt.Sprintf("b%d", n)
	want, err := fill(e, name, c.Sizes, c.KeyLens...)
	if err != nil {
		return nil, "setup:" + err.Error(), true
	}
	conn, stop, err := engx.Serve(func(s *grpc.Server) {
		regattapb.RegisterMaintenanceServer(s, &regattaserver.BackupServer{Tables: e.Engine, AuthFunc: func(ctx context.Context) (context.Context, error) { return ctx, nil }})
		regattapb.RegisterClusterServer(s, &regattaserver.ClusterServer{Cluster: e.Engine, Config: func() map[string]any { return nil }})
	}, grpc.MaxRecvMsgSize(64<<20))
	if err != nil {
		return nil, "setup:" + err.Error(), true
	}
	defer stop()
	dir, _ := os.MkdirTemp("", "verif-c07-bak-")
	defer os.RemoveAll(dir)
	b := &backup.Backup{Conn: conn, Dir: dir, Log: quiet{}}
	if _, err := b.Backup(); err != nil {
		return []viol{{"backup-error", err.Error()}}, "", false
	}
	// change the table afterwards: restore must bring back exactly the captured content
	ctx, cancel := context.WithTimeout(context.Background(), 10*time.Second)
	_, _ = e.Put(ctx, &regattapb.PutRequest{Table: []byte(name), Key: []byte("zz-after-backup"), Value: []byte("x")})
	cancel()
	current, _ := e.Dump(name)
	file := filepath.Join(dir, name+".bak")
	if c.Corrupt != "" {
		raw, err := os.ReadFile(file)
		if err != nil || len(raw) == 0 {
			return nil, "setup: empty backup file", true
		}
		where, md5mode, _ := strings.Cut(c.Corrupt, "+")
		pos := map[string]int{"first": 0, "middle": len(raw) / 2, "last": len(raw) - 1}[where]
		raw[pos] ^= 0x01
		_ = os.WriteFile(file, raw, 0o644)
		if md5mode != "" {
			// the damaged file under a manifest whose checksum entry for it is empty / missing / in
			// another letter case: none of them is the file's checksum
			mf := filepath.Join(dir, "manifest.json")
			mb, err := os.ReadFile(mf)
			var man map[string]any
			if err != nil || json.Unmarshal(mb, &man) != nil {
				return nil, "setup: manifest unreadable", true
			}
			for _, t := range man["tables"].([]any) {
				tm := t.(map[string]any)
				switch md5mode {
				case "md5-empty":
					tm["md5"] = ""
				case "md5-absent":
					delete(tm, "md5")
				case "md5-uppercase":
					tm["md5"] = strings.ToUpper(fmt.Sprint(tm["md5"]))
				}
			}
			mb, _ = json.Marshal(man)
			_ = os.WriteFile(mf, mb, 0o644)
		}
	}
	rerr, timedOut := withDeadline(90*time.Second, b.Restore)
	if timedOut {
		return nil, "restore-deadline", true
	}
	got, _, _, err := dumpVia(e.Manager, name)
	if err != nil {
		return nil, "read-after-restore:" + err.Error(), true
	}
	if c.Corrupt != "" {
		if rerr == nil {
			vs = append(vs, viol{"backup/corrupted-file-not-refused/" + c.Corrupt, fmt.Sprintf("one bit flipped in the backup file (%s): Restore returned nil", c.Corrupt)})
		}
		if !fsmx.EqualKVs(got, current) {
			vs = append(vs, viol{"backup/table-changed-by-refused-restore", fmt.Sprintf("table %s, before %s", kvsStr(got), kvsStr(current))})
		}
	} else {
		if rerr != nil {
			vs = append(vs, viol{"backup/restore-error", rerr.Error()})
		} else if !fsmx.EqualKVs(got, want) {
			vs = append(vs, viol{"backup-restore/" + diffSig(got, want), fmt.Sprintf("sizes %v: restored %s, captured %s", c.Sizes, kvsStr(got), kvsStr(want))})
		}
	}
	_ = e.DeleteTable(name)
	return vs, fmt.Sprintf("%d pairs err=%v", len(got), rerr != nil), false
}

type quiet struct{}

func (quiet) Info(...interface{})          {}
func (quiet) Infof(string, ...interface{}) {}

// runPIT: at FSM level, the command snapshot is a point-in-time image: a writer that applies one
// more update after its J-th write must not influence the stream.
type hookWriter struct {
	msgs [][]byte
	n    int
	at   int
	hook func()
}

func (h *hookWriter) Write(p []byte) (int, error) {
	h.msgs = append(h.msgs, append([]byte(nil), p...))
	h.n++
	if h.n == h.at {
		h.hook()
	}
	return len(p), nil
}

func runPIT(c Case) (vs []viol, outcome string, writes int) {
	env := fsmx.NewEnv()
	inst, _, err := env.Open("t", 10001, fsm.RecoveryTypeSnapshot)
	if err != nil {
		return []viol{{"setup", err.Error()}}, "", 0
	}
	defer inst.Close()
	var idx uint64
	want := map[string]string{}
	for i, s := range c.Sizes {
		idx++
		k := fmt.Sprintf("k%02d", i)
		if _, err := inst.Update([]sm.Entry{fsmx.Entry(idx, &regattapb.Command{Table: Table, Type: regattapb.Command_PUT, Kv: &regattapb.KeyValue{Key: B(k), Value: valueOf(i, s)}})}); err != nil {
			return []viol{{"setup", err.Error()}}, "", 0
		}
		want[k] = string(valueOf(i, s))
	}
	declaredWant := idx
	hw := &hookWriter{at: c.J}
	hw.hook = func() {
		// overwrite everything, delete one, add in front and behind
		cmd := Seq(Del("k", []byte{0}, false, false), Put("a-new", "x", false), Put("k00", "changed", false), Put("zz-new", "x", false))
		if _, err := inst.Update([]sm.Entry{fsmx.Entry(idx+1, cmd)}); err != nil {
			vs = append(vs, viol{"pit/update-during-snapshot-failed", err.Error()})
		}
	}
	res, err := inst.Lookup(fsm.SnapshotRequest{Writer: hw})
	if err != nil {
		return append(vs, viol{"pit/snapshot-error", err.Error()}), "", hw.n
	}
	declared := res.(*fsm.SnapshotResponse).Index
	got := map[string]string{}
	for _, b := range hw.msgs { // one marshalled PUT command per Write
		cmd := &regattapb.Command{}
		if err := cmd.UnmarshalVT(b); err != nil || cmd.Type != regattapb.Command_PUT || cmd.Kv == nil {
			vs = append(vs, viol{"pit/stream-message-not-a-put-command", fmt.Sprintf("%v %v", err, cmd.GetType())})
			continue
		}
		got[string(cmd.Kv.Key)] = string(cmd.Kv.Value)
	}
	if declared != declaredWant {
		vs = append(vs, viol{"pit/declared-index-not-the-index-of-the-image", fmt.Sprintf("declared %d, image taken at %d (write applied after output write %d)", declared, declaredWant, c.J)})
	}
	if len(got) != len(want) {
		vs = append(vs, viol{"pit/stream-content-not-the-state-at-declared-index", fmt.Sprintf("%d pairs streamed, %d at the declared index (write applied after output write %d)", len(got), len(want), c.J)})
	} else {
		for k, v := range want {
			if got[k] != v {
				vs = append(vs, viol{"pit/stream-content-not-the-state-at-declared-index", fmt.Sprintf("key %s differs (write applied after output write %d)", k, c.J)})
				break
			}
		}
	}
	return vs, fmt.Sprintf("declared=%d pairs=%d", declared, len(got)), hw.n
}

// hookReader calls hook before its at-th Read.
type hookReader struct {
	r    io.Reader
	n    int
	at   int
	hook func()
}

func (h *hookReader) Read(p []byte) (int, error) {
	h.n++
	if h.n == h.at {
		h.hook()
	}
	return h.r.Read(p)
}

// overlapRestoreOne: two loads of the SAME table overlap (a follower recovery and an operator's
// restore, two operators): load A reaches its k-th read, then load B either runs to completion
// (nested) or runs up to its first read and is held there until A has returned (paused). A load that
// reported success is what the table serves until another load reports success.
func overlapRestoreOne(e *engx.Engine, k int, nested bool) (vs []viol, outcome string, reads int, inconclusive bool) {
	n := seq.Add(1)
	srcA, srcB, tgt := fmt.Sprintf("ovA%d", n), fmt.Sprintf("ovB%d", n), fmt.Sprintf("ovT%d", n)
	wantA, err := fill(e, srcA, []int{40, 41, 42})
	if err != nil {
		return nil, "", 0, true
	}
	wantB, err := fill(e, srcB, []int{7, 8})
	if err != nil {
		return nil, "", 0, true
	}
	pathA, declA, err := streamOf(e, srcA)
	if err != nil {
		return nil, "", 0, true
	}
	defer os.Remove(pathA)
	pathB, declB, err := streamOf(e, srcB)
	if err != nil {
		return nil, "", 0, true
	}
	defer os.Remove(pathB)
	m := managerFor(e, 0)
	defer m.Close()
	fa, err := snapshot.OpenFile(pathA)
	if err != nil {
		return nil, "", 0, true
	}
	defer fa.Close()
	fb, err := snapshot.OpenFile(pathB)
	if err != nil {
		return nil, "", 0, true
	}
	defer fb.Close()
	bAtFirstRead, releaseB, bDone := make(chan struct{}), make(chan struct{}), make(chan error, 1)
	rb := &hookReader{r: fb, at: 1, hook: func() {
		close(bAtFirstRead)
		<-releaseB
	}}
	if nested {
		close(releaseB)
	}
	ra := &hookReader{r: fa, at: k, hook: func() {
		go func() { bDone <- m.Restore(tgt, rb) }()
		if nested {
			bDone <- <-bDone // wait for B's verdict, keep it for later
			return
		}
		select {
		case <-bAtFirstRead:
		case err := <-bDone: // B ended before its first read
			bDone <- err
		case <-time.After(60 * time.Second):
		}
	}}
	cs := fmt.Sprintf("load B starts at load A's read %d (%s)", k, map[bool]string{true: "and completes there", false: "and is held at its first read until A has returned"}[nested])
	aerr, timedOut := withDeadline(120*time.Second, func() error { return m.Restore(tgt, ra) })
	if timedOut {
		if !nested {
			close(releaseB)
		}
		return nil, "", ra.n, true
	}
	started := ra.n >= k
	check := func(who string, want []*regattapb.KeyValue, decl uint64) {
		got, li, _, err := dumpVia(m, tgt)
		switch {
		case err != nil:
			vs = append(vs, viol{"overlapping-loads/table-unreadable-after-a-load-reported-success", fmt.Sprintf("%s: after load %s reported success: %v", cs, who, err)})
		case !fsmx.EqualKVs(got, want):
			vs = append(vs, viol{"overlapping-loads/table-is-not-the-content-of-the-load-that-reported-success/" + diffSig(got, want), fmt.Sprintf("%s: after load %s reported success the table holds %s, its stream held %s", cs, who, kvsStr(got), kvsStr(want))})
		case li != decl:
			vs = append(vs, viol{"overlapping-loads/leader-index-not-the-declared-index", fmt.Sprintf("%s: after load %s: leader index %d, declared %d", cs, who, li, decl)})
		}
	}
	if aerr == nil {
		check("A", wantA, declA)
	}
	var berr error
	if started {
		if !nested {
			close(releaseB)
		}
		select {
		case berr = <-bDone:
		case <-time.After(120 * time.Second):
			return vs, "", ra.n, true
		}
		if berr == nil && !nested {
			check("B", wantB, declB)
		}
	}
	_ = m.DeleteTable(tgt)
	_ = m.DeleteTable(srcA)
	_ = m.DeleteTable(srcB)
	return vs, fmt.Sprintf("overlap k=%d nested=%v A=%v B=%v", k, nested, aerr == nil, berr == nil), ra.n, false
}

func runOverlapRestore(r *evid.Run, e *engx.Engine) {
	for _, nested := range []bool{false, true} {
		total := -1
		for k := 1; total < 0 || k <= total; k++ {
			if r.Expired() {
				r.Cap("deadline in the overlapping-loads part")
				return
			}
			vs, outcome, reads, inc := overlapRestoreOne(e, k, nested)
			if inc {
				r.Inconcl.Add(1)
				if total < 0 {
					break
				}
				continue
			}
			if total < 0 {
				total = reads
			}
			r.Outcome(outcome, true)
			r.AddExtra("overlapping_load_cases", 1)
			for _, v := range vs {
				r.Violate(v.sig, v.detail, Case{Kind: "overlap-restore", J: k, Prepop: nested})
			}
		}
	}
}

// runStreamPIT: the leader side of a follower recovery, SnapshotServer.Stream on a real engine, with
// leader writes (a put in front of all keys, an overwrite, a delete: three log entries) landing
// before its k-th executed statement, for EVERY k - the statements of Stream itself, of the FSM's
// Lookup and of commandSnapshot. The stream's pairs must be the table's content at exactly the index
// its closing command declares.
func runStreamPIT(r *evid.Run, e *engx.Engine) {
	total := -1
	for k := 0; total < 0 || k <= total; k++ {
		if r.Expired() {
			r.Cap("deadline in the stream point-in-time part")
			break
		}
		cs := Case{Kind: "stream-pit", J: k}
		vs, outcome, n, inc := streamPITOne(e, k)
		if inc {
			r.Inconcl.Add(1)
			if total < 0 {
				return
			}
			continue
		}
		if total < 0 {
			total = n // k = 0: no write, the number of executed statements
			r.Extra("stream_pit_statement_points", n)
		}
		r.Outcome(outcome, true)
		r.AddExtra("stream_pit_runs", 1)
		for _, v := range vs {
			r.Violate(v.sig, v.detail, cs)
		}
	}
}

var tableSeq atomic.Int64

// streamPITOne: one Stream call with the writes landing before its k-th executed statement (k = 0:
// never); n is the number of statements executed.
func streamPITOne(e *engx.Engine, k int) (vs []viol, outcome string, n int, inconclusive bool) {
	var busy, inStream atomic.Bool
	name := fmt.Sprintf("pit%d", tableSeq.Add(1))
	if err := retryCAS(func() error { _, err := e.CreateTable(name); return err }); err != nil {
		return nil, "", 0, true
	}
	defer func() { _ = e.DeleteTable(name) }()
	if err := e.WaitTable(name, 20*time.Second); err != nil {
		return nil, "", 0, true
	}
	contents := map[uint64]string{}
	record := func(rev uint64) {
		ctx, cancel := context.WithTimeout(context.Background(), 20*time.Second)
		defer cancel()
		seq, err := e.IterateRange(ctx, &regattapb.RangeRequest{Table: []byte(name), Key: []byte{0}, RangeEnd: []byte{0}, Linearizable: true})
		if err != nil {
			return
		}
		var all []*regattapb.KeyValue
		seq(func(rr *regattapb.RangeResponse) bool { all = append(all, rr.Kvs...); return true })
		contents[rev] = kvsStr(all)
	}
	put := func(k, v string) bool {
		ctx, cancel := context.WithTimeout(context.Background(), 20*time.Second)
		defer cancel()
		res, err := e.Put(ctx, &regattapb.PutRequest{Table: []byte(name), Key: []byte(k), Value: []byte(v)})
		if err != nil {
			return false
		}
		record(res.Header.Revision)
		return true
	}
	if !(put("k00", "v0") && put("k01", "v1") && put("k02", "v2")) {
		return nil, "", 0, true
	}
	wrote := true
	vp.Hook = func(label string) {
		if !inStream.Load() || busy.Load() {
			return
		}
		if !strings.HasPrefix(label, "replication.go:") && !strings.HasPrefix(label, "fsm.go:") && !strings.HasPrefix(label, "query.go:") {
			return
		}
		n++
		if n != k {
			return
		}
		busy.Store(true)
		defer busy.Store(false)
		wrote = put("a-new", "x") && put("k00", "changed")
		if wrote {
			ctx, cancel := context.WithTimeout(context.Background(), 20*time.Second)
			res, err := e.Delete(ctx, &regattapb.DeleteRangeRequest{Table: []byte(name), Key: []byte("k01")})
			cancel()
			if wrote = err == nil; wrote {
				record(res.Header.Revision)
			}
		}
	}
	rs := &recStream{ctx: context.Background()}
	inStream.Store(true)
	err := (&regattaserver.SnapshotServer{Tables: e.Engine}).Stream(&regattapb.SnapshotRequest{Table: []byte(name)}, rs)
	inStream.Store(false)
	vp.Hook = nil
	if !wrote {
		return nil, "", n, true
	}
	if err != nil {
		return []viol{{"stream-pit/stream-error", err.Error()}}, "", n, false
	}
	pairs, declared, perr := parseStream(rs.buf.Bytes())
	outcome = fmt.Sprintf("stream-pit k=%d declared=%d pairs=%s", k, declared, pairs)
	want, known := contents[declared]
	switch {
	case perr != nil:
		vs = append(vs, viol{"stream-pit/stream-unreadable", perr.Error()})
	case !known:
		vs = append(vs, viol{"stream-pit/declared-index-is-no-revision-of-the-table", fmt.Sprintf("declared %d; writes landed before statement %d", declared, k)})
	case pairs != want:
		vs = append(vs, viol{"stream-pit/stream-content-not-the-state-at-declared-index", fmt.Sprintf("declared index %d: streamed %s, the table held %s at that index; writes landed before executed statement %d of Stream/Lookup/commandSnapshot", declared, pairs, want, k)})
	}
	return vs, outcome, n, false
}

// parseStream reads the bytes of a snapshot stream message-wise: PUT commands, then one DUMMY command
// declaring the leader index.
func parseStream(raw []byte) (pairs string, declared uint64, err error) {
	f, err := os.CreateTemp("", "verif-c07-pit-*.bin")
	if err != nil {
		return "", 0, err
	}
	defer os.Remove(f.Name())
	if _, err := f.Write(raw); err != nil {
		return "", 0, err
	}
	_ = f.Close()
	sf, err := snapshot.OpenFile(f.Name())
	if err != nil {
		return "", 0, err
	}
	defer sf.Close()
	var kvs []*regattapb.KeyValue
	buf := make([]byte, 4<<20)
	closed := false
	for {
		n, err := sf.Read(buf)
		if err == io.EOF {
			break
		}
		if err != nil {
			return "", 0, err
		}
		cmd := &regattapb.Command{}
		if err := cmd.UnmarshalVT(buf[:n]); err != nil {
			return "", 0, err
		}
		switch {
		case closed:
			return "", 0, fmt.Errorf("a command follows the closing command")
		case cmd.Type == regattapb.Command_PUT && cmd.Kv != nil:
			kvs = append(kvs, &regattapb.KeyValue{Key: append([]byte(nil), cmd.Kv.Key...), Value: append([]byte(nil), cmd.Kv.Value...)})
		case cmd.Type == regattapb.Command_DUMMY && cmd.LeaderIndex != nil:
			declared, closed = *cmd.LeaderIndex, true
		default:
			return "", 0, fmt.Errorf("unexpected command of type %v in the stream", cmd.Type)
		}
	}
	if !closed {
		return "", 0, fmt.Errorf("the stream has no closing command declaring the index")
	}
	return kvsStr(kvs), declared, nil
}

func sizeSeqs(classes []int, maxN int) [][]int {
	out := [][]int{{}}
	var rec func(cur []int)
	rec = func(cur []int) {
		if len(cur) == maxN {
			return
		}
		for _, s := range classes {
			nx := append(append([]int(nil), cur...), s)
			out = append(out, nx)
			rec(nx)
		}
	}
	rec(nil)
	return out
}

// feasible: dragonboat's in-memory-log rate limiter rejects every proposal forever when a batch
// (threshold + one record) plus ~128 bytes exceeds MaxInMemLogSize; such settings are dragonboat's
// behaviour, not a regatta property, and are excluded by construction.
func feasible(sizes []int, k uint64) bool {
	if k == 0 || k >= 1<<20 {
		return true
	}
	maxRec := 0
	for _, s := range sizes {
		if s+60 > maxRec {
			maxRec = s + 60
		}
	}
	return uint64(int(k/2)+maxRec+160) <= k
}

func Run(r *evid.Run) {
	r.Check = "c07"
	classes := []int{0, 1, 40, 300}
	maxN := 3
	mems := []uint64{0, 600, 1000, 6 << 20}
	if r.Thorough() {
		maxN = 5
		mems = []uint64{0, 600, 700, 800, 1000, 2000, 6 << 20}
	}
	r.Rule(fmt.Sprintf("(manager) contents = every sequence of 0..%d pairs with value sizes from %v (every order; plus one content whose keys are 1019, 1020, 1023, 1024, 1024 and 1 bytes long, sharing their first 1019 bytes, on every path) x MaxInMemLogSize in %v (settings under which dragonboat starves proposals are excluded by construction) x target {absent, pre-populated with other keys} x {directly, after a restore of another three-pair image into the same table that broke off with a transport error once its pairs had been read}: captured with the real SnapshotServer.Stream on a real engine, loaded with the real Manager.Restore/readIntoTable, read back with a linearizable full range: content must equal the captured content, leader index = declared index, shard id grows. (worker) the same contents through real gRPC -> real replication worker.recover() on follower engines with MaxInMemLogSize 0 and 6MiB. (backup) backup.Backup -> backup.Restore through real gRPC incl. a bit flip in the first/middle/last byte of the file, also under a manifest whose checksum entry is empty, missing or upper-cased (must be refused, table unchanged). Large values (64KiB, 2MiB) thorough only. Non-trivial: at least one pair; distinct = distinct (case, restored size) outcomes", maxN, classes, mems))
	eng, err := engx.Start(engx.Opts{})
	if err != nil {
		fmt.Println("INFRA: engine start failed:", err)
		os.Exit(2)
	}
	defer eng.Close()
	contents := sizeSeqs(classes, maxN)
	if r.Thorough() {
		contents = append(contents, []int{64 << 10, 1, 64 << 10}, []int{2 << 20, 40, 2 << 20, 1}, []int{1, 2 << 20}, []int{2 << 20, 2 << 20, 2 << 20})
	} else {
		contents = append(contents, []int{64 << 10, 1, 64 << 10}, []int{2 << 20, 40, 2 << 20})
	}
	var cases []Case
	skipped := 0
	for _, s := range contents {
		for _, k := range mems {
			if !feasible(s, k) {
				skipped++
				continue
			}
			cases = append(cases, Case{Kind: "manager", Sizes: s, MaxInMem: k})
			if len(s) <= 2 {
				cases = append(cases, Case{Kind: "manager", Sizes: s, MaxInMem: k, Prepop: true})
				cases = append(cases, Case{Kind: "manager", Sizes: s, MaxInMem: k, AfterFailed: true}, Case{Kind: "manager", Sizes: s, MaxInMem: k, Prepop: true, AfterFailed: true})
			}
		}
	}
	// keys at the length limit (every MaxInMemLogSize)
	longKeys := []int{1019, 1020, 1023, 1024, 1024, 1}
	for _, k := range mems {
		cases = append(cases, Case{Kind: "manager", Sizes: []int{1, 1, 1, 1, 1, 1}, KeyLens: longKeys, MaxInMem: k})
	}
	r.Extra("excluded_infeasible_settings", skipped)
	oldWorkers := par.Workers
	par.Workers = 12
	var mu sync.Mutex
	record := func(c Case, vs []viol, outcome string, inc bool) {
		if inc {
			r.Inconcl.Add(1)
			mu.Lock()
			r.Extra("last_inconclusive", fmt.Sprint(c, outcome))
			mu.Unlock()
			return
		}
		r.Outcome(fmt.Sprint(c)+outcome, len(c.Sizes) > 0)
		for _, v := range vs {
			r.Violate(v.sig, v.detail, c)
		}
	}
	done := par.For(int64(len(cases)), r.Expired, func(i int64) {
		vs, outcome, inc := runManager(eng, cases[i])
		record(cases[i], vs, outcome, inc)
		if i%40 == 39 {
			_ = eng.Manager.VerifReconcile()
		}
	})
	if done < int64(len(cases)) {
		r.Cap(fmt.Sprintf("deadline: %d of %d manager cases", done, len(cases)))
	}
	r.Extra("manager_cases", done)
	_ = eng.Manager.VerifReconcile()
	// worker path
	conn, stop, err := engx.Serve(engx.ReplicationServers(eng, 0), grpc.MaxRecvMsgSize(64<<20))
	if err == nil {
		defer stop()
		for _, k := range []uint64{0, 6 << 20} {
			fol, err := engx.Start(engx.Opts{MaxInMemLogSize: k})
			if err != nil {
				r.Inconcl.Add(1)
				continue
			}
			var wcases []Case
			wc := sizeSeqs(classes, 2)
			if r.Thorough() {
				wc = sizeSeqs(classes, 3)
			}
			wc = append(wc, []int{2 << 20, 1, 2 << 20})
			for _, s := range wc {
				wcases = append(wcases, Case{Kind: "worker", Sizes: s, MaxInMem: k}, Case{Kind: "worker", Sizes: s, MaxInMem: k, Prepop: true})
			}
			wcases = append(wcases, Case{Kind: "worker", Sizes: []int{1, 1, 1, 1, 1, 1}, KeyLens: []int{1019, 1020, 1023, 1024, 1024, 1}, MaxInMem: k})
			wdone := par.For(int64(len(wcases)), r.Expired, func(i int64) {
				vs, outcome, inc := runWorker(eng, fol, conn, wcases[i])
				record(wcases[i], vs, outcome, inc)
			})
			r.AddExtra("worker_cases", wdone)
			fol.Close()
		}
	}
	par.Workers = oldWorkers
	// backup path on its own engine (a backup covers all tables of the engine)
	beng, err := engx.Start(engx.Opts{})
	if err == nil {
		for _, s := range [][]int{{}, {1}, {40, 300, 0}, {64 << 10, 1}} {
			for _, cor := range []string{"", "first", "middle", "last", "middle+md5-empty", "middle+md5-absent", "middle+md5-uppercase"} {
				if cor != "" && len(s) == 0 {
					continue
				}
				c := Case{Kind: "backup", Sizes: s, Corrupt: cor}
				vs, outcome, inc := runBackup(beng, c)
				record(c, vs, outcome, inc)
				r.AddExtra("backup_cases", 1)
			}
		}
		{
			c := Case{Kind: "backup", Sizes: []int{1, 1, 1, 1, 1, 1}, KeyLens: []int{1019, 1020, 1023, 1024, 1024, 1}}
			vs, outcome, inc := runBackup(beng, c)
			record(c, vs, outcome, inc)
			r.AddExtra("backup_cases", 1)
		}
		beng.Close()
	}
	// point-in-time at FSM level: a write applied from inside the stream after its j-th output write
	for _, sset := range sizeSeqs([]int{0, 40}, 4) {
		for j := 1; j <= len(sset)+1; j++ {
			c := Case{Kind: "pit", Sizes: sset, J: j}
			vs, outcome, _ := runPIT(c)
			r.Outcome(fmt.Sprint(c)+outcome, len(sset) > 0)
			r.AddExtra("point_in_time_cases", 1)
			for _, v := range vs {
				r.Violate(v.sig, v.detail, c)
			}
		}
	}
	// point-in-time at engine level: leader writes land before every statement of the real Stream
	runStreamPIT(r, eng)
	runOverlapRestore(r, eng)
	r.Rule("(overlapping loads) two Manager.Restore calls on the same table: load B starts at load A's k-th read (every k) and either completes there or is held at its first read until A has returned; after every load that reports success the table holds exactly that load's content at its declared index")
	r.Rule("(stream point-in-time) the real SnapshotServer.Stream on a real engine holding three pairs, with three leader writes (put in front, overwrite, delete) landing before its k-th executed statement for EVERY k (statements of Stream, FSM.Lookup and commandSnapshot): the streamed pairs must be the table's content at exactly the index the closing command declares")
	r.Sample(Case{Kind: "manager", Sizes: []int{40, 300, 1}, MaxInMem: 1000, Prepop: false})
	r.Sample(Case{Kind: "backup", Sizes: []int{40, 300, 0}, Corrupt: "middle"})
	r.Assume("single-node engines on in-memory file systems; waits are 'poll until condition or generous deadline', a missed deadline counts as inconclusive, never as pass or violation")
	r.Assume("the point-in-time clause is decided at FSM level (a write applied from inside Lookup(SnapshotRequest) after every output write) and at engine level with writes landing at statement boundaries of Stream/Lookup/commandSnapshot; the other engine-level captures run without concurrent writes")
	_ = io.EOF
	_ = strings.Join
}

func Replay(raw json.RawMessage) (string, bool) {
	var c Case
	if err := json.Unmarshal(raw, &c); err != nil {
		return err.Error(), false
	}
	eng, err := engx.Start(engx.Opts{})
	if err != nil {
		return "engine: " + err.Error(), false
	}
	defer eng.Close()
	var vs []viol
	var outcome string
	switch c.Kind {
	case "pit":
		vs, outcome, _ = runPIT(c)
	case "stream-pit":
		vs, outcome, _, _ = streamPITOne(eng, c.J)
	case "overlap-restore":
		vs, outcome, _, _ = overlapRestoreOne(eng, c.J, c.Prepop)
	case "manager":
		vs, outcome, _ = runManager(eng, c)
	case "backup":
		vs, outcome, _ = runBackup(eng, c)
	case "worker":
		conn, stop, err := engx.Serve(engx.ReplicationServers(eng, 0), grpc.MaxRecvMsgSize(64<<20))
		if err != nil {
			return err.Error(), false
		}
		defer stop()
		fol, err := engx.Start(engx.Opts{MaxInMemLogSize: c.MaxInMem})
		if err != nil {
			return err.Error(), false
		}
		defer fol.Close()
		vs, outcome, _ = runWorker(eng, fol, conn, c)
	}
	var sb strings.Builder
	fmt.Fprintf(&sb, "outcome: %s\n", outcome)
	for _, v := range vs {
		fmt.Fprintf(&sb, "%s: %s\n", v.sig, v.detail)
	}
	return sb.String(), len(vs) == 0
}
