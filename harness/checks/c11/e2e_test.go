package c11

import (
	"context"
	"fmt"
	"strings"
	"sync"
	"testing"
	"testing/synctest"
	"time"

	"github.com/jamf/regatta/regattapb"
	"github.com/jamf/regatta/regattaserver"
	"github.com/jamf/regatta/storage"
	"github.com/jamf/regatta/storage/table/fsm"
	sm "github.com/lni/dragonboat/v4/statemachine"
	"google.golang.org/grpc"

	. "verif/harness/cmdx"
	"verif/harness/fsmx"
	"verif/harness/par"
	"verif/harness/simraft"
)

// Part B: end to end. Real ForwardingKVServer -> stub leader client (real ActiveTable over a real
// leader FSM) -> real queue <- real follower FSM whose applied-index callback calls queue.Notify,
// exactly as cmd/follower.go wires Manager's AppliedIndexListener.

const (
	evPut = iota
	evTxnPut
	evTxnEmptyBranch
	evDelete
	evReplicateOne
	evReplicateAll
	evReopen
	evRecoveryBatch
	evBumpLocal
	evTick
	evCancel
	nEvB
)

var evBName = []string{"client-put", "client-txn(put)", "client-txn(empty-taken-branch)", "client-delete(pre-existing key)", "replicate-next-entry", "replicate-all-pending", "follower-close+reopen", "follower-recovery-batch(no-leader-index)", "follower-non-application-entries(+3)", "tick(1s)", "cancel-oldest-pending-call"}

type leaderStub struct {
	kv simraft.KV
}

func (l leaderStub) Range(ctx context.Context, in *regattapb.RangeRequest, _ ...grpc.CallOption) (*regattapb.RangeResponse, error) {
	return l.kv.Range(ctx, in)
}
func (l leaderStub) IterateRange(context.Context, *regattapb.RangeRequest, ...grpc.CallOption) (regattapb.KV_IterateRangeClient, error) {
	return nil, fmt.Errorf("not used")
}
func (l leaderStub) Put(ctx context.Context, in *regattapb.PutRequest, _ ...grpc.CallOption) (*regattapb.PutResponse, error) {
	return l.kv.Put(ctx, in)
}
func (l leaderStub) DeleteRange(ctx context.Context, in *regattapb.DeleteRangeRequest, _ ...grpc.CallOption) (*regattapb.DeleteRangeResponse, error) {
	return l.kv.Delete(ctx, in)
}
func (l leaderStub) Txn(ctx context.Context, in *regattapb.TxnRequest, _ ...grpc.CallOption) (*regattapb.TxnResponse, error) {
	return l.kv.Txn(ctx, in)
}

type callB struct {
	id       int
	key      string
	kind     int
	rev      uint64
	pos      uint64 // position of the call's entry in the leader log
	cancel   context.CancelFunc
	done     bool
	err      error
	visible  bool // the write was readable on the follower when the call returned
	readBack string
}

type CaseB struct {
	Path []int    `json:"path"`
	Desc []string `json:"desc,omitempty"`
}

func descB(p []int) []string {
	var d []string
	for _, e := range p {
		d = append(d, evBName[e])
	}
	return d
}

// outside runs f on a goroutine that is not part of any bubble (FSM Open/Close start and stop
// long-lived pebble goroutines that must not belong to the bubble).
type outsideJob struct {
	f     func()
	reply chan struct{}
}

var outsideCh = make(chan outsideJob)
var replyPool = make(chan chan struct{}, 64)

func init() {
	for i := 0; i < 64; i++ {
		replyPool <- make(chan struct{}) // created outside any bubble
	}
	for i := 0; i < 32; i++ {
		go func() {
			for j := range outsideCh {
				j.f()
				j.reply <- struct{}{}
			}
		}()
	}
}

func outside(f func()) {
	r := <-replyPool
	outsideCh <- outsideJob{f, r}
	<-r
	replyPool <- r
}

func runPathB(t *testing.T, path []int) (viols [][2]string, outcome string) {
	// everything that starts long-lived goroutines happens outside the bubble
	lenv, fenv := fsmx.NewEnv(), fsmx.NewEnv()
	leader, _, err := lenv.Open("t", 10001, fsm.RecoveryTypeSnapshot)
	if err != nil {
		return [][2]string{{"setup", err.Error()}}, ""
	}
	var pendingNotifs []uint64
	var nmu sync.Mutex
	inBubble := false
	var q *storage.IndexNotificationQueue
	onApplied := func(a uint64) {
		nmu.Lock()
		direct := inBubble
		if !direct {
			pendingNotifs = append(pendingNotifs, a)
		}
		nmu.Unlock()
		if direct {
			q.Notify("t", a) // synchronous, from the apply path, as in production
		}
	}
	follower, _, err := fenv.OpenWith("t", 10001, fsm.RecoveryTypeSnapshot, onApplied)
	if err != nil {
		leader.Close()
		return [][2]string{{"setup", err.Error()}}, ""
	}
	defer func() {
		leader.Close()
		follower.Close()
	}()
	viol := func(sig, detail string) { viols = append(viols, [2]string{sig, detail}) }

	defer func() {
		if p := recover(); p != nil {
			msg := fmt.Sprint(p)
			if !strings.Contains(msg, "blocked goroutines remain") && !strings.Contains(msg, "deadlock") {
				panic(p)
			}
			viols = append(viols, [2]string{"e2e/loop-wedged/bubble-cannot-end", "goroutines of the queue or its callers stay blocked for ever: " + msg})
		}
	}()
	synctest.Test(t, func(t *testing.T) {
		q = storage.NewNotificationQueue()
		go q.Run()
		nmu.Lock()
		pendingNotifs = nil // Open's notifications predate the queue's users
		nmu.Unlock()
		lc := simraft.NewCluster(10001, leader)
		lkv := simraft.KV{Host: simraft.Host{N: lc.Nodes[0]}, Name: "t", Shard: 10001}
		fc := simraft.NewCluster(10001, follower)
		fkv := simraft.KV{Host: simraft.Host{N: fc.Nodes[0]}, Name: "t", Shard: 10001}
		srv := regattaserver.NewForwardingKVServer(fkv, leaderStub{lkv}, q)
		var calls []*callB
		var cmu sync.Mutex
		var leaderCmds []*regattapb.Command // leader log as commands, index = position+1
		shipped := 0
		flocal := uint64(0)
		// local indices deliberately ahead of leader indices
		flocal += 5
		applyFollower := func(cmd *regattapb.Command) error {
			flocal++
			nmu.Lock()
			inBubble = true
			nmu.Unlock()
			_, err := follower.Update([]sm.Entry{fsmx.Entry(flocal, cmd)})
			nmu.Lock()
			inBubble = false
			nmu.Unlock()
			return err
		}
		followerLeaderIndex := func() uint64 { li, _ := follower.LeaderIndex(); return li }
		// a pre-existing pair, written on the leader (log position 1) and already replicated
		if _, err := lkv.Put(context.Background(), &regattapb.PutRequest{Table: Table, Key: B("pre"), Value: B("v")}); err != nil {
			viol("setup", err.Error())
			return
		}
		leaderCmds = append(leaderCmds, Put("pre", "v", false))
		if err := applyFollower(WithLeader(Seq(leaderCmds[0]), 1)); err != nil {
			viol("setup", err.Error())
			return
		}
		shipped = 1
		startCall := func(kind int) {
			id := len(calls)
			c := &callB{id: id, key: fmt.Sprintf("k%d", id), kind: kind}
			ctx, cancel := context.WithCancel(context.Background())
			c.cancel = cancel
			cmu.Lock()
			calls = append(calls, c)
			cmu.Unlock()
			// the leader log grows by exactly one entry per forwarded write
			switch kind {
			case evPut:
				leaderCmds = append(leaderCmds, Put(c.key, "v", false))
			case evTxnPut:
				leaderCmds = append(leaderCmds, Txn(nil, Ops(OpPut(c.key, "v", false)), nil))
			case evTxnEmptyBranch:
				leaderCmds = append(leaderCmds, Txn(Cmps(Exists("never", nil)), Ops(OpPut(c.key, "v", false)), nil))
			case evDelete:
				leaderCmds = append(leaderCmds, Del("pre", nil, false, false))
			}
			c.pos = uint64(len(leaderCmds))
			go func() {
				var err error
				switch kind {
				case evPut:
					var r *regattapb.PutResponse
					r, err = srv.Put(ctx, &regattapb.PutRequest{Table: Table, Key: B(c.key), Value: B("v")})
					if r != nil {
						c.rev = r.Header.GetRevision()
					}
				case evTxnPut:
					var r *regattapb.TxnResponse
					r, err = srv.Txn(ctx, &regattapb.TxnRequest{Table: Table, Success: Ops(OpPut(c.key, "v", false))})
					if r != nil {
						c.rev = r.Header.GetRevision()
					}
				case evTxnEmptyBranch:
					var r *regattapb.TxnResponse
					r, err = srv.Txn(ctx, &regattapb.TxnRequest{Table: Table, Compare: Cmps(Exists("never", nil)), Success: Ops(OpPut(c.key, "v", false))})
					if r != nil {
						c.rev = r.Header.GetRevision()
					}
				case evDelete:
					var r *regattapb.DeleteRangeResponse
					r, err = srv.DeleteRange(ctx, &regattapb.DeleteRangeRequest{Table: Table, Key: B("pre")})
					if r != nil {
						c.rev = r.Header.GetRevision()
					}
				}
				// read-your-writes: a read on the same node right after the acknowledgement
				visible := true
				readBack := ""
				if err == nil {
					li := followerLeaderIndex()
					readBack = fmt.Sprintf("follower leader index %d", li)
					if kind == evDelete {
						rr, rerr := srv.Range(context.Background(), &regattapb.RangeRequest{Table: Table, Key: B("pre")})
						visible = rerr == nil && len(rr.Kvs) == 0
						readBack += fmt.Sprintf(", range(pre) -> %v %v", rr.GetKvs(), rerr)
					} else if kind != evTxnEmptyBranch {
						rr, rerr := srv.Range(context.Background(), &regattapb.RangeRequest{Table: Table, Key: B(c.key)})
						visible = rerr == nil && len(rr.Kvs) == 1 && string(rr.Kvs[0].Value) == "v"
						readBack += fmt.Sprintf(", range(%s) -> %v %v", c.key, rr.GetKvs(), rerr)
					} else {
						// nothing was written; the acknowledgement still promises that the node has
						// applied the leader log up to the transaction's position
						visible = li >= c.pos
					}
				}
				cmu.Lock()
				c.done, c.err, c.visible, c.readBack = true, err, visible, readBack
				cmu.Unlock()
			}()
		}
		probe := func(what string) bool {
			done := false
			var pm sync.Mutex
			go func() {
				q.Len("t")
				pm.Lock()
				done = true
				pm.Unlock()
			}()
			synctest.Wait()
			pm.Lock()
			defer pm.Unlock()
			if !done {
				viol("e2e/loop-wedged", what)
			}
			return done
		}
		var sb strings.Builder
	events:
		for _, e := range path {
			switch e {
			case evPut, evTxnPut, evTxnEmptyBranch, evDelete:
				startCall(e)
			case evReplicateOne, evReplicateAll:
				n := 1
				if e == evReplicateAll {
					n = len(leaderCmds) - shipped
				}
				if shipped+n > len(leaderCmds) {
					n = len(leaderCmds) - shipped
				}
				if n > 0 {
					li := uint64(shipped + n)
					seq := WithLeader(Seq(leaderCmds[shipped:shipped+n]...), li)
					if err := applyFollower(seq); err != nil {
						viol("e2e/follower-apply-error", err.Error())
						break events
					}
					shipped += n
				}
			case evReopen:
				outside(func() {
					_ = follower.Close()
					var err error
					follower, _, err = fenv.OpenWith("t", 10001, fsm.RecoveryTypeSnapshot, onApplied)
					if err != nil {
						viol("e2e/reopen-error", err.Error())
					}
				})
				fc.Nodes[0].Inst = follower
				// Open ran outside the bubble: deliver its notifications now, in order
				nmu.Lock()
				pn := pendingNotifs
				pendingNotifs = nil
				nmu.Unlock()
				for _, a := range pn {
					q.Notify("t", a)
				}
			case evRecoveryBatch:
				if err := applyFollower(PutBatch("restored", "x")); err != nil {
					viol("e2e/follower-apply-error", err.Error())
					break events
				}
			case evBumpLocal:
				flocal += 3
			case evTick:
				time.Sleep(time.Second)
			case evCancel:
				cmu.Lock()
				for _, c := range calls {
					if !c.done {
						c.cancel()
						break
					}
				}
				cmu.Unlock()
			}
			synctest.Wait()
			if !probe("Len after " + evBName[e]) {
				break
			}
			li := followerLeaderIndex()
			cmu.Lock()
			for _, c := range calls {
				if c.done && c.err == nil && !c.visible {
					kind := "put"
					if c.kind == evTxnPut {
						kind = "txn"
					} else if c.kind == evTxnEmptyBranch {
						kind = "txn-empty-branch"
					} else if c.kind == evDelete {
						kind = "delete"
					}
					viol("e2e/acknowledged-write-not-readable-on-the-node/"+kind, fmt.Sprintf("call %d (revision %d) returned nil; %s", c.id, c.rev, c.readBack))
					c.visible = true // report once
				}
				if !c.done && c.rev == 0 && li >= c.pos {
					// one leader entry per forwarded write
					viol("e2e/call-still-waiting-although-node-applied-its-revision", fmt.Sprintf("call %d (leader position %d) pending, follower leader index %d", c.id, c.pos, li))
				}
			}
			cmu.Unlock()
			fmt.Fprintf(&sb, "%d;", li)
		}
		cmu.Lock()
		for _, c := range calls {
			fmt.Fprintf(&sb, "c%d:%v/%v;", c.id, c.done, c.err == nil)
		}
		cmu.Unlock()
		outcome = sb.String()
		// cleanup: cancel everything, let sweeps answer, close the queue
		cmu.Lock()
		for _, c := range calls {
			c.cancel()
		}
		cmu.Unlock()
		for i := 0; i < 3; i++ {
			time.Sleep(time.Second)
			synctest.Wait()
		}
		_ = q.Close()
		synctest.Wait()
	})
	return viols, outcome
}

func TestEndToEnd(t *testing.T) {
	depth := 5
	if run.Thorough() {
		depth = 6
	}
	run.Rule(fmt.Sprintf("Part B: every event sequence of length 0..%d over %v with 1..3 client calls, on a follower whose local index starts ahead of the leader index and that holds one pre-existing replicated pair; invariants: a forwarded call that returns nil finds its write (resp. the deleted key gone, resp. the transaction's log position) on the follower at that moment; a call does not keep waiting once the follower recorded a leader index at or beyond its revision; the queue never wedges", depth, evBName))
	total := par.SeqCount(nEvB, depth)
	// sequential inside one test goroutine per shard: bubbles need a *testing.T of their own
	shards := 16
	for s := 0; s < shards; s++ {
		s := s
		t.Run(fmt.Sprintf("shard%d", s), func(t *testing.T) {
			t.Parallel()
			for i := int64(s); i < total; i += int64(shards) {
				if run.Expired() {
					run.Cap("deadline in part B")
					return
				}
				path := par.SeqAt(nEvB, depth, i)
				// skip paths without any client call: nothing to observe
				nCalls := 0
				for _, e := range path {
					if e <= evDelete {
						nCalls++
					}
				}
				if nCalls == 0 || nCalls > 3 {
					continue
				}
				vs, outcome := runPathB(t, path)
				run.Outcome(outcome, true)
				run.Transitions.Add(int64(len(path)))
				run.Validated.Add(1)
				for _, v := range vs {
					run.Violate(v[0], v[1]+" after "+strings.Join(descB(path), " -> "), CaseB{Path: path, Desc: descB(path)})
				}
				if i == total-1 {
					run.Sample(CaseB{Path: path, Desc: descB(path)})
				}
			}
		})
	}
}
