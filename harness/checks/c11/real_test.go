package c11

import (
	"bytes"
	"context"
	"fmt"
	"strings"
	"sync"
	"sync/atomic"
	"testing"
	"time"

	"github.com/jamf/regatta/regattapb"
	"github.com/jamf/regatta/regattaserver"
	"github.com/jamf/regatta/replication"
	"github.com/jamf/regatta/storage"
	"google.golang.org/grpc"

	"verif/harness/engx"
	"verif/harness/par"
)

// Part C: the same promise over the real replication path. Real leader engine (KV + replication
// services over gRPC on a unix socket), real follower engine whose applied-index listener is the
// real queue's Notify (as cmd/follower.go wires it), real ForwardingKVServer, real replication
// worker polled step by step. Client writes go to the leader directly or through the follower's
// forwarding API; values of 130 KiB make two commands exceed the size at which the worker cuts a
// replication response into several proposals.

const (
	rcLeaderPutBig = iota
	rcLeaderPutSmall
	rcFwdPutBig
	rcFwdPutSmall
	rcFwdDelete
	rcPoll
	rcRecover
	nRC
)

var rcName = []string{"leader:put(130KiB)", "leader:put(small)", "follower-api:put(130KiB)", "follower-api:put(small)", "follower-api:delete(a key whose forwarded put was acknowledged)", "follower:poll", "follower:table-recovers-from-the-leader's-snapshot"}

type CaseC struct {
	Kind string   `json:"kind"`
	Path []int    `json:"path"`
	Desc []string `json:"desc,omitempty"`
}

type realCall struct {
	key  string
	del  bool
	done atomic.Bool
	err  error
	ok   bool
	read string
	// acknowledged while the table's snapshot recovery was in progress (see D12 in DESIGN.md)
	duringRecover bool
}

type realWorld struct {
	leader, follower *engx.Engine
	q                *storage.IndexNotificationQueue
	srv              *regattaserver.ForwardingKVServer
	conn             *grpc.ClientConn
	stop             func()

	mu      sync.Mutex
	pending []*realCall

	recovering atomic.Bool // a snapshot recovery of the path's table is in progress
}

// settle gives acknowledged calls the time to run their read-back while the caller (the apply path
// or the event loop) is parked: it returns once no call has completed for three short rounds.
func (w *realWorld) settle() {
	count := func() int {
		w.mu.Lock()
		defer w.mu.Unlock()
		n := 0
		for _, c := range w.pending {
			if c.done.Load() {
				n++
			}
		}
		return n
	}
	last, stable := count(), 0
	for i := 0; i < 200 && stable < 3; i++ {
		time.Sleep(2 * time.Millisecond)
		if n := count(); n != last {
			last, stable = n, 0
		} else {
			stable++
		}
	}
}

func newRealWorld() (*realWorld, error) {
	w := &realWorld{q: storage.NewNotificationQueue()}
	go w.q.Run()
	var err error
	if w.leader, err = engx.Start(engx.Opts{}); err != nil {
		return nil, err
	}
	w.conn, w.stop, err = engx.Serve(func(s *grpc.Server) {
		engx.ReplicationServers(w.leader, 0)(s)
		regattapb.RegisterKVServer(s, &regattaserver.KVServer{Storage: w.leader.Engine})
	}, grpc.MaxRecvMsgSize(64<<20))
	if err != nil {
		return nil, err
	}
	w.follower, err = engx.Start(engx.Opts{Listener: func(table string, idx uint64) {
		w.q.Notify(table, idx) // synchronous, from the apply path, as in production
		w.settle()             // the apply path stays parked while acknowledged clients read back
	}})
	if err != nil {
		return nil, err
	}
	w.srv = regattaserver.NewForwardingKVServer(w.follower.Engine, regattapb.NewKVClient(w.conn), w.q)
	return w, nil
}

func (w *realWorld) close() {
	_ = w.q.Close()
	w.stop()
	w.follower.Close()
	w.leader.Close()
}

var realTableSeq atomic.Int64

func (w *realWorld) runPath(path []int) (viols [][2]string, outcome string, inconclusive string) {
	name := fmt.Sprintf("rc%d", realTableSeq.Add(1))
	for _, e := range []*engx.Engine{w.leader, w.follower} {
		if _, err := e.CreateTable(name); err != nil {
			return nil, "", "create: " + err.Error()
		}
		if err := e.WaitTable(name, 20*time.Second); err != nil {
			return nil, "", err.Error()
		}
	}
	defer func() {
		_ = w.leader.DeleteTable(name)
		_ = w.follower.DeleteTable(name)
	}()
	w.mu.Lock()
	w.pending = nil
	w.mu.Unlock()
	conn := w.conn
	wk := replication.VerifNewWorker(w.follower.Engine, name, regattapb.NewLogClient(conn), regattapb.NewSnapshotClient(conn), 30*time.Second, 60*time.Second)
	big := bytes.Repeat([]byte("B"), 130<<10)
	ctx, cancelAll := context.WithTimeout(context.Background(), 60*time.Second)
	defer cancelAll()
	nKeys := 0
	var fwdKeys []string
	deleted := map[string]bool{}
	var sb strings.Builder
	start := func(key string, val []byte, del bool) {
		c := &realCall{key: key, del: del}
		w.mu.Lock()
		w.pending = append(w.pending, c)
		w.mu.Unlock()
		go func() {
			var err error
			if del {
				_, err = w.srv.DeleteRange(ctx, &regattapb.DeleteRangeRequest{Table: []byte(name), Key: []byte(key)})
			} else {
				_, err = w.srv.Put(ctx, &regattapb.PutRequest{Table: []byte(name), Key: []byte(key), Value: val})
			}
			c.err = err
			c.ok = true
			c.duringRecover = w.recovering.Load()
			if err == nil {
				// read-your-writes: a read on the same node right after the acknowledgement
				rr, rerr := w.srv.Range(context.Background(), &regattapb.RangeRequest{Table: []byte(name), Key: []byte(key)})
				switch {
				case rerr != nil:
					c.ok, c.read = false, "read error: "+rerr.Error()
				case del:
					c.ok, c.read = len(rr.Kvs) == 0, fmt.Sprintf("%d pairs", len(rr.Kvs))
				default:
					c.ok = len(rr.Kvs) == 1 && bytes.Equal(rr.Kvs[0].Value, val)
					c.read = fmt.Sprintf("%d pairs", len(rr.Kvs))
				}
			}
			c.done.Store(true)
		}()
	}
	for _, e := range path {
		switch e {
		case rcLeaderPutBig, rcLeaderPutSmall:
			nKeys++
			v := []byte("v")
			if e == rcLeaderPutBig {
				v = big
			}
			c2, cancel := context.WithTimeout(ctx, 20*time.Second)
			_, err := w.leader.Put(c2, &regattapb.PutRequest{Table: []byte(name), Key: []byte(fmt.Sprintf("l%d", nKeys)), Value: v})
			cancel()
			if err != nil {
				return nil, "", "leader put: " + err.Error()
			}
		case rcFwdPutBig, rcFwdPutSmall:
			nKeys++
			v := []byte("v")
			if e == rcFwdPutBig {
				v = big
			}
			k := fmt.Sprintf("f%d", nKeys)
			fwdKeys = append(fwdKeys, k)
			start(k, v, false)
			// the leader has the entry once the forwarded call reached it: wait for that, so that the
			// next event finds a definite leader log
			if inc := w.waitLeaderHas(name, k, false); inc != "" {
				return nil, "", inc
			}
		case rcFwdDelete:
			// only a key whose put has been acknowledged (a delete overlapping the put would make
			// "the put is readable at its acknowledgement" meaningless), each key at most once
			k := ""
			w.mu.Lock()
			for _, c := range w.pending {
				if !c.del && c.done.Load() && c.err == nil && !deleted[c.key] {
					k = c.key
					break
				}
			}
			w.mu.Unlock()
			if k == "" {
				continue
			}
			deleted[k] = true
			start(k, nil, true)
			if inc := w.waitLeaderHas(name, k, true); inc != "" {
				return nil, "", inc
			}
		case rcPoll:
			res, err := wk.Poll()
			if err != nil && res == replication.VerifUnknown {
				return nil, "", "poll: " + err.Error()
			}
			fmt.Fprintf(&sb, "p%d;", res)
		case rcRecover:
			// what the worker does when the leader answers that its log no longer reaches back far enough
			// (it may do so at any time): stream the leader's snapshot and load it into a new shard
			w.recovering.Store(true)
			err := wk.Recover()
			w.recovering.Store(false)
			if err != nil {
				return nil, "", "recover: " + err.Error()
			}
			if err := w.follower.WaitTable(name, 20*time.Second); err != nil {
				return nil, "", err.Error()
			}
		}
		w.settle()
		w.mu.Lock()
		for i, c := range w.pending {
			if c.done.Load() && c.err == nil && !c.ok {
				what := "put"
				if c.del {
					what = "delete"
				}
				sig := "real/acknowledged-write-not-readable-on-the-node/" + what
				if c.duringRecover {
					// the acknowledgement came while Manager.Restore was loading the table's recovery shard
					sig = "real/write-acknowledged-by-the-recovery-shard-before-it-serves-the-table/" + what
				}
				viols = append(viols, [2]string{sig, fmt.Sprintf("call %d (%s %s) returned nil; read on the node right afterwards: %s", i, what, c.key, c.read)})
				c.ok = true // once
			}
		}
		w.mu.Unlock()
	}
	// drain: polls until the follower tails; every call must have been answered by then
	for i := 0; i < 6; i++ {
		res, _ := wk.Poll()
		w.settle()
		if res == replication.VerifFollowerTailing {
			break
		}
	}
	w.settle()
	// an answered call needs its goroutine to be scheduled before it shows as done: on a loaded machine
	// that can take longer than settle waits, and a scheduling delay is not a verdict
	for i := 0; i < 500; i++ {
		allDone := true
		w.mu.Lock()
		for _, c := range w.pending {
			if !c.done.Load() {
				allDone = false
			}
		}
		w.mu.Unlock()
		if allDone {
			break
		}
		time.Sleep(10 * time.Millisecond)
	}
	w.mu.Lock()
	for i, c := range w.pending {
		switch {
		case !c.done.Load():
			viols = append(viols, [2]string{"real/call-still-waiting-although-the-follower-tails", fmt.Sprintf("call %d (%s)", i, c.key)})
		case c.err != nil:
			viols = append(viols, [2]string{"real/call-error", fmt.Sprintf("call %d (%s): %v", i, c.key, c.err)})
		case !c.ok:
			viols = append(viols, [2]string{"real/acknowledged-write-not-readable-on-the-node/late", fmt.Sprintf("call %d (%s): %s", i, c.key, c.read)})
		}
		fmt.Fprintf(&sb, "c%d:%v;", i, c.done.Load())
	}
	w.mu.Unlock()
	cancelAll()
	w.settle()
	return viols, sb.String(), ""
}

// waitLeaderHas waits until the leader table holds (resp. no longer holds) key.
func (w *realWorld) waitLeaderHas(name, key string, gone bool) string {
	deadline := time.Now().Add(20 * time.Second)
	for time.Now().Before(deadline) {
		c2, cancel := context.WithTimeout(context.Background(), 5*time.Second)
		rr, err := w.leader.Range(c2, &regattapb.RangeRequest{Table: []byte(name), Key: []byte(key), Linearizable: true})
		cancel()
		if err == nil && (len(rr.Kvs) == 0) == gone {
			return ""
		}
		time.Sleep(2 * time.Millisecond)
	}
	return "forwarded call did not reach the leader in 20s"
}

func descC(p []int) []string {
	var d []string
	for _, e := range p {
		d = append(d, rcName[e])
	}
	return d
}

func TestRealReplicationPath(t *testing.T) {
	depth := 3
	if run.Thorough() {
		depth = 4
	}
	run.Rule(fmt.Sprintf("Part C: every event sequence of length 1..%d over %v with at least one call through the follower API and at most one snapshot recovery, on real leader and follower engines joined by the real log server, replication worker (polled step by step), notification queue and forwarding server; the follower's apply path is parked after every notification until the clients it released have read back; invariants: a call that returns nil finds its write (resp. its delete) on the follower at that moment; once the follower tails, every call has been answered without error", depth, rcName))
	const nWorlds = 4
	worlds := make([]*realWorld, 0, nWorlds)
	for i := 0; i < nWorlds; i++ {
		w, err := newRealWorld()
		if err != nil {
			run.Inconcl.Add(1)
			run.Cap("part C: engines did not start: " + err.Error())
			for _, o := range worlds {
				o.close()
			}
			return
		}
		worlds = append(worlds, w)
	}
	defer func() {
		for _, o := range worlds {
			o.close()
		}
	}()
	total := par.SeqCount(nRC, depth)
	var wg sync.WaitGroup
	var realPaths atomic.Int64
	for wi, w := range worlds {
		wg.Add(1)
		go func() {
			defer wg.Done()
			for i := int64(wi); i < total; i += nWorlds {
				if run.Expired() {
					run.Cap("deadline in part C")
					return
				}
				path := par.SeqAt(nRC, depth, i)
				fwd, recovers := false, 0
				for _, e := range path {
					if e == rcFwdPutBig || e == rcFwdPutSmall {
						fwd = true
					}
					if e == rcRecover {
						recovers++
					}
				}
				if !fwd || recovers > 1 {
					continue
				}
				vs, outcome, inc := w.runPath(path)
				if inc != "" {
					run.Inconcl.Add(1)
					continue
				}
				realPaths.Add(1)
				run.Outcome("real"+fmt.Sprint(path)+outcome, true)
				run.Transitions.Add(int64(len(path)))
				run.Validated.Add(1)
				for _, v := range vs {
					run.Violate(v[0], v[1]+" after "+strings.Join(descC(path), " -> "), CaseC{Kind: "real", Path: path, Desc: descC(path)})
				}
			}
		}()
	}
	wg.Wait()
	run.Extra("real_path_sequences", realPaths.Load())
}
