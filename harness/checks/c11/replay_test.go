package c11

import (
	"encoding/json"
	"fmt"
	"os"
	"regexp"
	"strconv"
	"strings"
	"testing"
)

// Replay of a stored artefact: VERIF_REPLAY=<file> makes TestMain run only TestReplay, which
// re-executes the one recorded path (part A/A2: queue events in a bubble; part B: end-to-end bubble;
// part C: real engines) without any enumeration.

var (
	replayFile   = os.Getenv("VERIF_REPLAY")
	replayOut    string
	replayFailed bool
)

func TestReplay(t *testing.T) {
	if replayFile == "" {
		t.Skip("no artefact given")
	}
	b, err := os.ReadFile(replayFile)
	if err != nil {
		t.Fatal(err)
	}
	var art struct {
		Signature string          `json:"signature"`
		Case      json.RawMessage `json:"case"`
	}
	if err := json.Unmarshal(b, &art); err != nil {
		t.Fatal(err)
	}
	var probe map[string]json.RawMessage
	_ = json.Unmarshal(art.Case, &probe)
	var viols [][2]string
	var sb strings.Builder
	switch {
	case probe["config"] != nil:
		var c Case
		if err := json.Unmarshal(art.Case, &c); err != nil {
			t.Fatal(err)
		}
		var cfg *config
		for _, k := range configs(true) {
			if k.Name == c.Config {
				k := k
				cfg = &k
			}
		}
		if cfg == nil && strings.HasPrefix(c.Config, "perm[") {
			cfg = &config{Name: c.Config}
			for _, f := range regexp.MustCompile(`\d+`).FindAllString(c.Config, -1) {
				n, _ := strconv.Atoi(f)
				cfg.Waiters = append(cfg.Waiters, waiterDef{Table: "t", Rev: uint64(n)})
			}
		}
		if cfg == nil {
			t.Fatalf("unknown configuration %q", c.Config)
		}
		fmt.Fprintf(&sb, "queue events [config %s]: %s\n", cfg.Name, strings.Join(desc(c.Path), " -> "))
		res := runPath(t, *cfg, c.Path)
		viols = res.viols
		if res.wedged {
			viols = append(viols, [2]string{"loop-wedged", "a probe did not complete at quiescence"})
		}
	case string(probe["kind"]) == `"listener"`:
		var c CaseD
		if err := json.Unmarshal(art.Case, &c); err != nil {
			t.Fatal(err)
		}
		fmt.Fprintf(&sb, "listener [%s]: %s\n", c.Format, strings.Join(descD(c.Path), " -> "))
		viols, _ = runPathD(c.Format, c.Path)
	case string(probe["kind"]) == `"real"`:
		var c CaseC
		if err := json.Unmarshal(art.Case, &c); err != nil {
			t.Fatal(err)
		}
		fmt.Fprintf(&sb, "real engines: %s\n", strings.Join(descC(c.Path), " -> "))
		w, err := newRealWorld()
		if err != nil {
			t.Fatal(err)
		}
		defer w.close()
		var inc string
		viols, _, inc = w.runPath(c.Path)
		if inc != "" {
			fmt.Fprintf(&sb, "inconclusive: %s\n", inc)
		}
	default:
		var c CaseB
		if err := json.Unmarshal(art.Case, &c); err != nil {
			t.Fatal(err)
		}
		fmt.Fprintf(&sb, "end-to-end bubble: %s\n", strings.Join(descB(c.Path), " -> "))
		viols, _ = runPathB(t, c.Path)
	}
	for _, v := range viols {
		fmt.Fprintf(&sb, "%s: %s\n", v[0], v[1])
		replayFailed = true
	}
	replayOut = sb.String()
}
