// Package c11: writes through a follower are read-your-writes; waiting never wedges the node.
// Part A: explicit-state search of the real IndexNotificationQueue.Run loop inside testing/synctest
// bubbles (fake clock; "all goroutines durably blocked" is the wedge detector).
// Part B: end-to-end bubbles: real ForwardingKVServer -> stub leader backed by a real leader FSM ->
// real queue <- real follower FSM wired as cmd/follower.go wires it.
package c11

import (
	"context"
	"flag"
	"fmt"
	"math/bits"
	"os"
	"sort"
	"strings"
	"sync"
	"testing"
	"testing/synctest"
	"time"

	"github.com/jamf/regatta/storage"

	"verif/harness/evid"
)

var run *evid.Run

func TestMain(m *testing.M) {
	run = evid.NewRun("C11", "model_checking")
	run.Check = "c11"
	if replayFile != "" {
		flag.Parse()
		_ = flag.Set("test.run", "^TestReplay$")
		code := m.Run()
		fmt.Print(replayOut)
		switch {
		case code != 0:
			fmt.Println("INFRA: replay did not run to completion (not a verdict)")
			os.Exit(2)
		case replayFailed:
			fmt.Printf("VIOLATION property=C11 replay=%s\n", replayFile)
			os.Exit(1)
		}
		fmt.Println("replay: property holds on this case")
		os.Exit(0)
	}
	code := m.Run()
	if code != 0 {
		fmt.Println("INFRA: go test reported failure (not a verdict)")
		os.Exit(2)
	}
	os.Exit(run.Finish())
}

type waiterDef struct {
	Table   string
	Rev     uint64
	Timeout time.Duration // 0 = cancel-only context
}

type config struct {
	Name    string
	Waiters []waiterDef
}

func configs(thorough bool) []config {
	w := func(t string, r uint64) waiterDef { return waiterDef{Table: t, Rev: r} }
	cs := []config{
		{"increasing", []waiterDef{w("t", 1), w("t", 2), w("t", 3), w("t", 4)}},
		{"decreasing", []waiterDef{w("t", 4), w("t", 3), w("t", 2), w("t", 1)}},
		{"equal", []waiterDef{w("t", 2), w("t", 2), w("t", 2), w("t", 2)}},
		{"two-tables", []waiterDef{w("t", 1), w("u", 1), w("t", 2), w("u", 2)}},
		{"with-zero", []waiterDef{w("t", 0), w("t", 2), w("t", 1), w("t", 3)}},
		{"with-deadline", []waiterDef{w("t", 1), {Table: "t", Rev: 2, Timeout: 1500 * time.Millisecond}, w("t", 3), {Table: "t", Rev: 4, Timeout: 500 * time.Millisecond}}},
	}
	if thorough {
		cs = append(cs,
			config{"five-increasing", []waiterDef{w("t", 1), w("t", 2), w("t", 3), w("t", 4), w("t", 5)}},
			config{"five-mixed", []waiterDef{w("t", 3), w("t", 1), w("t", 3), w("t", 2), w("t", 5)}},
		)
	}
	return cs
}

type event struct {
	Kind  string `json:"kind"` // add | cancel | notify | tick | read
	W     int    `json:"w,omitempty"`
	Table string `json:"table,omitempty"`
	R     uint64 `json:"r,omitempty"`
}

func (e event) String() string {
	switch e.Kind {
	case "add":
		return fmt.Sprintf("add(w%d)", e.W)
	case "cancel":
		return fmt.Sprintf("cancel(w%d)", e.W)
	case "notify":
		return fmt.Sprintf("notify(%s,%d)", e.Table, e.R)
	case "read":
		return fmt.Sprintf("caller-reads(w%d)", e.W)
	}
	return "tick(1s)"
}

type wstate struct {
	def       waiterDef
	ctx       context.Context
	cancel    context.CancelFunc
	ch        <-chan error
	added     bool
	answers   []string // what the caller has received so far
	closedOK  bool     // the caller has seen the channel closed (nil answer)
	notified  bool     // a Notify(table, r >= rev) was processed while it was queued
	addedTick int
}

type result struct {
	key       string
	viols     [][2]string
	wedged    bool
	enabled   []event
	loopPanic string
}

type Case struct {
	Config string   `json:"config"`
	Path   []event  `json:"path"`
	Desc   []string `json:"desc,omitempty"`
}

func desc(p []event) []string {
	var d []string
	for _, e := range p {
		d = append(d, e.String())
	}
	return d
}

// runPath replays a path in a fresh bubble against the real queue.
func runPath(t *testing.T, cfg config, path []event) (res result) {
	// a bubble that cannot end because goroutines stay blocked (the loop stuck answering a waiter
	// twice, a caller never answered) makes synctest panic in this goroutine: that IS a wedge
	defer func() {
		if p := recover(); p != nil {
			msg := fmt.Sprint(p)
			if !strings.Contains(msg, "blocked goroutines remain") && !strings.Contains(msg, "deadlock") {
				panic(p)
			}
			res.wedged = true
			res.viols = append(res.viols, [2]string{"loop-wedged/bubble-cannot-end", "at the end of the path goroutines of the queue or its callers stay blocked for ever: " + msg})
		}
	}()
	synctest.Test(t, func(t *testing.T) {
		q := storage.NewNotificationQueue()
		var mu sync.Mutex
		loopDone := false
		go func() {
			defer func() {
				mu.Lock()
				loopDone = true
				mu.Unlock()
				if r := recover(); r != nil {
					mu.Lock()
					res.loopPanic = fmt.Sprint(r)
					mu.Unlock()
				}
			}()
			q.Run()
		}()
		ws := make([]*wstate, len(cfg.Waiters))
		for i, d := range cfg.Waiters {
			ws[i] = &wstate{def: d}
		}
		ticks := 0
		viol := func(sig, detail string) { res.viols = append(res.viols, [2]string{sig, detail}) }
		pending := 0 // helper goroutines that have not completed
		var pmu sync.Mutex
		call := func(f func()) bool { // runs a queue call in a helper goroutine; false if it did not complete
			pmu.Lock()
			pending++
			pmu.Unlock()
			done := false
			go func() {
				f()
				pmu.Lock()
				pending--
				done = true
				pmu.Unlock()
			}()
			synctest.Wait()
			pmu.Lock()
			defer pmu.Unlock()
			return done
		}
		queued := func() map[int]bool { // waiter ids currently in some heap
			out := map[int]bool{}
			for tbl, items := range q.VerifDump() {
				if tbl == "probe-table" {
					continue // the harness's own Add probes (cancelled right away, swept later)
				}
				for _, it := range items {
					known := false
					for i, w := range ws {
						if w.added && (<-chan error)(it.Ch) == w.ch {
							out[i] = true
							known = true
							if w.def.Table != tbl {
								viol("queue-corrupted/waiter-queued-under-another-table", fmt.Sprintf("waiter %d of table %s sits in the heap of table %s", i, w.def.Table, tbl))
							}
						}
					}
					if !known {
						viol("queue-corrupted/heap-entry-that-is-no-waiter", fmt.Sprintf("table %s holds an entry (revision %d, channel %v) that belongs to no added waiter", tbl, it.Revision, it.Ch != nil))
					}
				}
			}
			return out
		}
		// answerAvailable: an answer is buffered, or the channel is closed (peek is non-destructive)
		answerAvailable := func(w *wstate) (bool, string) {
			if len(w.ch) > 0 {
				return true, "error"
			}
			select {
			case _, ok := <-w.ch:
				if !ok {
					return true, "nil"
				}
				// cannot happen: len was 0 and nothing runs concurrently
				return true, "raced"
			default:
				return false, ""
			}
		}
		wedge := func(what string) {
			res.wedged = true
			viol("loop-wedged/"+what, fmt.Sprintf("%s did not complete although every goroutine is durably blocked", what))
		}
	events:
		for ei, e := range path {
			before := queued()
			switch e.Kind {
			case "add":
				w := ws[e.W]
				if w.def.Timeout > 0 {
					w.ctx, w.cancel = context.WithTimeout(context.Background(), w.def.Timeout)
				} else {
					w.ctx, w.cancel = context.WithCancel(context.Background())
				}
				w.addedTick = ticks
				if !call(func() { w.ch = q.Add(w.ctx, w.def.Table, w.def.Rev); w.added = true }) {
					wedge("Add")
					break events
				}
			case "cancel":
				ws[e.W].cancel()
				synctest.Wait()
			case "notify":
				if !call(func() { q.Notify(e.Table, e.R) }) {
					wedge("Notify")
					break events
				}
				for i, w := range ws {
					if before[i] && w.def.Table == e.Table && w.def.Rev > e.R && w.ctx.Err() == nil && !w.notified {
						if ok, kind := answerAvailable(w); ok && kind == "nil" {
							viol("waiter-released-before-its-revision", fmt.Sprintf("w%d (rev %d) released by notify(%s,%d)", i, w.def.Rev, e.Table, e.R))
						}
					}
					if before[i] && w.def.Table == e.Table && w.def.Rev <= e.R {
						w.notified = true
						if w.ctx.Err() == nil {
							if ok, kind := answerAvailable(w); !ok && !w.closedOK {
								viol("notified-waiter-not-answered", fmt.Sprintf("w%d (rev %d) has no answer after notify(%s,%d)", i, w.def.Rev, e.Table, e.R))
							} else if kind == "error" {
								viol("notified-live-waiter-answered-with-error", fmt.Sprintf("w%d", i))
							}
						}
					}
				}
			case "tick":
				ended := map[int]bool{}
				time.Sleep(time.Second)
				ticks++
				synctest.Wait()
				for i, w := range ws {
					if before[i] && w.ctx.Err() != nil {
						ended[i] = true
					}
				}
				// the sweep may itself be stuck: detect by a probe below; if not stuck, every ended waiter
				// that was queued has its answer
				if call(func() { q.Len("probe-table") }) {
					for i := range ended {
						w := ws[i]
						if ok, _ := answerAvailable(w); !ok && len(w.answers) == 0 && !w.closedOK {
							viol("expired-waiter-not-answered-by-sweep", fmt.Sprintf("w%d ended (%v) before the sweep and has no answer after it", i, w.ctx.Err()))
						}
					}
				} else {
					wedge("Len-after-sweep")
					break events
				}
			case "read":
				w := ws[e.W]
				select {
				case err, ok := <-w.ch:
					if !ok {
						if !w.closedOK {
							w.closedOK = true
							w.answers = append(w.answers, "nil")
							if !w.notified {
								viol("nil-answer-without-matching-notify", fmt.Sprintf("w%d rev %d", e.W, w.def.Rev))
							}
						}
					} else {
						w.answers = append(w.answers, "err:"+err.Error())
						if w.ctx.Err() == nil {
							viol("error-answer-although-context-alive", fmt.Sprintf("w%d: %v", e.W, err))
						}
					}
					if len(w.answers) > 1 {
						viol("second-answer-delivered", fmt.Sprintf("w%d received %v", e.W, w.answers))
					}
				default:
				}
				synctest.Wait()
			}
			mu.Lock()
			lp := res.loopPanic
			mu.Unlock()
			if lp != "" {
				viol("loop-panicked", lp)
				res.wedged = true
				break
			}
			// a waiter stays queued until it has its answer
			qd := queued()
			for i, w := range ws {
				if !w.added || len(w.answers) > 0 || w.closedOK {
					continue
				}
				if ok, _ := answerAvailable(w); !ok && !qd[i] {
					viol("waiter-dropped-without-answer", fmt.Sprintf("w%d (rev %d, context ended: %v) is neither queued nor answered", i, w.def.Rev, w.ctx.Err() != nil))
				}
			}
			// probes: statistics, notifications from the apply path and new callers are never delayed
			if !call(func() { q.Len("t") }) {
				wedge("Len")
				break
			}
			if !call(func() { q.Notify("probe-table", 0) }) {
				wedge("Notify-probe")
				break
			}
			pctx, pcancel := context.WithCancel(context.Background())
			okAdd := call(func() { q.Add(pctx, "probe-table", 1<<60) })
			pcancel()
			if !okAdd {
				wedge("Add-probe")
				break
			}
			_ = ei
		}
		// state key + enabled events
		if !res.wedged {
			var sb strings.Builder
			dump := q.VerifDump()
			tabs := make([]string, 0, len(dump))
			for k := range dump {
				if k != "probe-table" {
					tabs = append(tabs, k)
				}
			}
			sort.Strings(tabs)
			for _, tb := range tabs {
				sb.WriteString(tb + "[")
				for _, it := range dump[tb] {
					id := -1
					for i, w := range ws {
						if w.added && (<-chan error)(it.Ch) == w.ch {
							id = i
						}
					}
					fmt.Fprintf(&sb, "w%d:%d,", id, it.Revision)
				}
				sb.WriteString("]")
			}
			nextAdd := -1
			for i, w := range ws {
				if !w.added {
					if nextAdd < 0 {
						nextAdd = i
					}
					sb.WriteString("|-")
					continue
				}
				rem := "none"
				if w.def.Timeout > 0 {
					rem = fmt.Sprint(ticks - w.addedTick)
					if ticks-w.addedTick > 2 {
						rem = "late"
					}
				}
				avail, kind := answerAvailable(w)
				fmt.Fprintf(&sb, "|ended=%v ans=%v closedSeen=%v notified=%v buf=%v/%s age=%s", w.ctx.Err() != nil, w.answers, w.closedOK, w.notified, avail, kind, rem)
			}
			res.key = sb.String()
			// enabled events
			if nextAdd >= 0 {
				res.enabled = append(res.enabled, event{Kind: "add", W: nextAdd})
			}
			revs := map[string]map[uint64]bool{}
			for i, w := range ws {
				if !w.added {
					continue
				}
				if w.ctx.Err() == nil && w.def.Timeout == 0 {
					res.enabled = append(res.enabled, event{Kind: "cancel", W: i})
				}
				if ok, _ := answerAvailable(w); ok && !w.closedOK {
					res.enabled = append(res.enabled, event{Kind: "read", W: i})
				}
				if revs[w.def.Table] == nil {
					revs[w.def.Table] = map[uint64]bool{}
				}
				revs[w.def.Table][w.def.Rev] = true
			}
			for _, tb := range tabs {
				var rs []uint64
				for r := range revs[tb] {
					rs = append(rs, r)
				}
				sort.Slice(rs, func(a, b int) bool { return rs[a] < rs[b] })
				if len(rs) > 0 && rs[0] != 0 {
					rs = append([]uint64{0}, rs...)
				}
				for _, r := range rs {
					res.enabled = append(res.enabled, event{Kind: "notify", Table: tb, R: r})
				}
			}
			res.enabled = append(res.enabled, event{Kind: "tick"})
		}
		// cleanup: release everything so that the bubble can end
		for _, w := range ws {
			if w.cancel != nil {
				w.cancel()
			}
		}
		for round := 0; round < 200; round++ {
			for _, w := range ws {
				if w.ch != nil {
					select {
					case <-w.ch:
					default:
					}
				}
			}
			synctest.Wait()
			pmu.Lock()
			p := pending
			pmu.Unlock()
			if p == 0 {
				break
			}
		}
		_ = q.Close()
		// the loop may still be blocked on a send to an abandoned waiter: keep draining until it exits
		for round := 0; round < 200; round++ {
			for _, w := range ws {
				if w.ch != nil {
					select {
					case <-w.ch:
					default:
					}
				}
			}
			for _, items := range q.VerifDump() {
				for _, it := range items {
					select {
					case <-it.Ch:
					default:
					}
				}
			}
			synctest.Wait()
			mu.Lock()
			ld := loopDone
			mu.Unlock()
			if ld {
				break
			}
		}
	})
	return res
}

func explore(t *testing.T, cfg config, depth int) {
	type node struct{ path []event }
	seen := map[string]bool{}
	r0 := runPath(t, cfg, nil)
	seen[r0.key] = true
	frontier := []node{{nil}}
	enabled := map[string][]event{"": r0.enabled}
	pk := func(p []event) string { return strings.Join(desc(p), ";") }
	var states, transitions int64 = 1, 0
	wedges := 0
	for d := 0; d < depth && len(frontier) > 0; d++ {
		if run.Expired() {
			run.Cap(fmt.Sprintf("deadline at depth %d in config %s", d, cfg.Name))
			break
		}
		var next []node
		for _, nd := range frontier {
			for _, e := range enabled[pk(nd.path)] {
				path := append(append([]event(nil), nd.path...), e)
				res := runPath(t, cfg, path)
				transitions++
				for _, v := range res.viols {
					run.Violate(v[0], v[1]+" after "+strings.Join(desc(path), " -> ")+" [config "+cfg.Name+"]", Case{Config: cfg.Name, Path: path, Desc: desc(path)})
				}
				if res.wedged {
					wedges++
					continue
				}
				if !seen[res.key] {
					seen[res.key] = true
					states++
					next = append(next, node{path})
					enabled[pk(path)] = res.enabled
				}
			}
			delete(enabled, pk(nd.path))
		}
		frontier = next
	}
	run.States.Add(states)
	run.Transitions.Add(transitions)
	run.Validated.Add(transitions)
	run.Part(map[string]any{"scenario": "queue/" + cfg.Name, "waiters": len(cfg.Waiters), "depth": depth, "states": states, "transitions": transitions, "wedged_paths": wedges, "unexpanded_frontier": len(frontier)})
}

func TestQueueStateSpace(t *testing.T) {
	depth := 9
	if run.Thorough() {
		depth = 12
	}
	run.Rule(fmt.Sprintf("Part A: for each of the waiter configurations (4 waiters: increasing / decreasing / equal revisions, two tables, a zero revision, two deadline waiters; thorough adds 5-waiter ones) BFS to depth %d over events {add next waiter, cancel(w), notify(table, r) for r in the configuration's revisions and 0, sweep tick (fake clock +1s, which also expires deadlines), caller reads its channel}; every path is replayed in a fresh synctest bubble against the real IndexNotificationQueue.Run loop; after every event synctest.Wait() and probes Len / Notify / Add from fresh goroutines - a probe that has not completed at quiescence means the loop is wedged. Visited set keyed by the complete concrete state (heap arrays in array order via hook dump, per-waiter context state, buffered/closed channel state, answers received, notified flag, deadline age). Part B: see scenario list", depth))
	for _, cfg := range configs(run.Thorough()) {
		cfg := cfg
		t.Run(cfg.Name, func(t *testing.T) {
			t.Parallel()
			explore(t, cfg, depth)
		})
	}
}

// Part A2: sweep + notify over every arrival order. For n waiters whose revisions are a permutation of
// 1..n (every permutation = every heap shape reachable by pushes) and every subset of them cancelled:
// add all, cancel the subset, one sweep tick, then notify(1), notify(2), .. notify(n) in turn; after
// notify(r) every live waiter with revision <= r must have its answer, and no live waiter with a
// larger revision may have one. This is the same oracle as part A on a space that part A's fixed
// arrival orders do not contain.
func permutations(n int) [][]int {
	var out [][]int
	a := make([]int, n)
	for i := range a {
		a[i] = i + 1
	}
	var rec func(k int)
	rec = func(k int) {
		if k == n {
			out = append(out, append([]int(nil), a...))
			return
		}
		for i := k; i < n; i++ {
			a[k], a[i] = a[i], a[k]
			rec(k + 1)
			a[k], a[i] = a[i], a[k]
		}
	}
	rec(0)
	return out
}

func TestSweepThenNotifyAllArrivalOrders(t *testing.T) {
	sizes := []int{4, 5, 6, 7}
	run.Rule(fmt.Sprintf("Part A2: for n in %v: every permutation of revisions 1..n as arrival order x every subset cancelled (quick: for n=7 only subsets of at most 2): add all, cancel, sweep tick, notify(1..n) in turn; after each notify every live waiter at or below the revision is answered and none above it", sizes))
	for _, n := range sizes {
		n := n
		perms := permutations(n)
		shards := 8
		for s := 0; s < shards; s++ {
			s := s
			t.Run(fmt.Sprintf("n%d-shard%d", n, s), func(t *testing.T) {
				t.Parallel()
				for pi := s; pi < len(perms); pi += shards {
					if run.Expired() {
						run.Cap("deadline in part A2")
						return
					}
					perm := perms[pi]
					cfg := config{Name: fmt.Sprint("perm", perm)}
					for _, r := range perm {
						cfg.Waiters = append(cfg.Waiters, waiterDef{Table: "t", Rev: uint64(r)})
					}
					for mask := 1; mask < 1<<n-1; mask++ { // at least one cancelled, at least one kept
						if n >= 7 && !run.Thorough() && bits.OnesCount(uint(mask)) > 2 {
							continue
						}
						var path []event
						for i := 0; i < n; i++ {
							path = append(path, event{Kind: "add", W: i})
						}
						for i := 0; i < n; i++ {
							if mask&(1<<i) != 0 {
								path = append(path, event{Kind: "cancel", W: i})
							}
						}
						path = append(path, event{Kind: "tick"})
						for r := 1; r <= n; r++ {
							path = append(path, event{Kind: "notify", Table: "t", R: uint64(r)})
						}
						res := runPath(t, cfg, path)
						run.Transitions.Add(int64(len(path)))
						run.Validated.Add(1)
						run.OutcomeHash(uint64(pi)<<20|uint64(mask)<<4|uint64(n), true)
						for _, v := range res.viols {
							run.Violate("order/"+v[0], v[1]+" after "+strings.Join(desc(path), " -> ")+fmt.Sprintf(" [arrival order of revisions %v]", perm), Case{Config: cfg.Name, Path: path, Desc: desc(path)})
						}
					}
				}
			})
		}
	}
}
