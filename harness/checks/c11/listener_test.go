package c11

import (
	"bytes"
	"fmt"
	"strings"
	"testing"

	"github.com/jamf/regatta/storage/table/fsm"
	sm "github.com/lni/dragonboat/v4/statemachine"

	. "verif/harness/cmdx"
	"verif/harness/fsmx"
	"verif/harness/par"
)

// Part D: what the apply path tells the applied-index listener (in production: the notification
// queue, which then answers waiting follower writes) must already be true of the replica AT THE
// MOMENT of the call: the leader index it serves is at least the reported one and the pairs written
// at or below that index are readable. Event sequences over a real FSM whose listener looks at the
// FSM from inside the callback: updates with and without leader index, a flush, and snapshot installs
// (every saver/receiver format pair) from a donor that is ahead.

const (
	ldPutLeader = iota
	ldPutPlain
	ldSync
	ldInstallS
	ldInstallC
	nLD
)

var ldName = []string{"update(put with leader index)", "update(put without leader index)", "sync", "install snapshot from a donor that is ahead (snapshot format)", "install snapshot from a donor that is ahead (checkpoint format)"}

type CaseD struct {
	Kind   string   `json:"kind"`
	Format string   `json:"format"`
	Path   []int    `json:"path"`
	Desc   []string `json:"desc,omitempty"`
}

func descD(p []int) []string {
	var d []string
	for _, e := range p {
		d = append(d, ldName[e])
	}
	return d
}

func srtD(s string) fsm.SnapshotRecoveryType {
	if s == "c" {
		return fsm.RecoveryTypeCheckpoint
	}
	return fsm.RecoveryTypeSnapshot
}

func runPathD(format string, path []int) (viols [][2]string, outcome string) {
	env := fsmx.NewEnv()
	var inst *fsmx.Inst
	var notes []string
	// leader index -> keys that must be readable once that index is reported
	need := map[uint64][]string{}
	onApplied := func(reported uint64) {
		if inst == nil || inst.F == nil {
			return // the notification of Open: the caller does not hold the FSM yet
		}
		served, err := inst.LeaderIndex()
		if err != nil {
			viols = append(viols, [2]string{"listener/replica-unreadable-inside-the-notification", err.Error()})
			return
		}
		notes = append(notes, fmt.Sprintf("%d/%d", reported, served))
		if served < reported {
			viols = append(viols, [2]string{"listener/reported-leader-index-not-yet-served", fmt.Sprintf("the listener was told leader index %d while the replica serves %d", reported, served)})
		}
		kvs, err := inst.All()
		if err != nil {
			return
		}
		have := map[string]bool{}
		for _, kv := range kvs {
			have[string(kv.Key)] = true
		}
		for li, keys := range need {
			if li > reported {
				continue
			}
			for _, k := range keys {
				if !have[k] {
					viols = append(viols, [2]string{"listener/pair-at-or-below-the-reported-index-not-readable", fmt.Sprintf("the listener was told leader index %d; key %s (written at leader index %d) is not readable at that moment", reported, k, li)})
				}
			}
		}
	}
	var err error
	inst, _, err = env.OpenWith("t", 10001, srtD(format), onApplied)
	if err != nil {
		return [][2]string{{"listener/open-error", err.Error()}}, ""
	}
	defer func() { inst.Close() }()
	idx, leader := uint64(0), uint64(100)
	for step, e := range path {
		switch e {
		case ldPutLeader:
			idx++
			leader += 10
			k := fmt.Sprintf("k%d", step)
			need[leader] = append(need[leader], k)
			if _, err := inst.Update([]sm.Entry{fsmx.Entry(idx, WithLeader(Put(k, "v", false), leader))}); err != nil {
				return append(viols, [2]string{"listener/update-error", err.Error()}), ""
			}
		case ldPutPlain:
			idx++
			if _, err := inst.Update([]sm.Entry{fsmx.Entry(idx, Put(fmt.Sprintf("p%d", step), "v", false))}); err != nil {
				return append(viols, [2]string{"listener/update-error", err.Error()}), ""
			}
		case ldSync:
			_ = inst.Sync()
		case ldInstallS, ldInstallC:
			// the donor replays this replica's history and is two entries ahead
			df := "s"
			if e == ldInstallC {
				df = "c"
			}
			denv := fsmx.NewEnv()
			donor, _, err := denv.Open("t", 10001, srtD(df))
			if err != nil {
				return append(viols, [2]string{"listener/donor-error", err.Error()}), ""
			}
			idx += 2
			leader += 20
			dk := fmt.Sprintf("d%d", step)
			_, err = donor.Update([]sm.Entry{fsmx.Entry(idx-1, WithLeader(Put(dk+"a", "v", false), leader-10)), fsmx.Entry(idx, WithLeader(Put(dk+"b", "v", false), leader))})
			var buf bytes.Buffer
			if err == nil {
				err = donor.SaveSnapshot(nil, &buf, nil)
			}
			donor.Close()
			if err != nil {
				return append(viols, [2]string{"listener/donor-error", err.Error()}), ""
			}
			// the install replaces the content: only the donor's pairs are required from here on
			need = map[uint64][]string{leader - 10: {dk + "a"}, leader: {dk + "b"}}
			if err := inst.Recover(&buf, nil); err != nil {
				return append(viols, [2]string{"listener/install-error", err.Error()}), ""
			}
		}
	}
	return viols, strings.Join(notes, ",")
}

func TestListenerSeesWhatItIsTold(t *testing.T) {
	depth := 3
	if run.Thorough() {
		depth = 4
	}
	run.Rule(fmt.Sprintf("Part D: every event sequence of length 1..%d over %v on a real FSM of either snapshot format whose applied-index listener looks at the FSM from inside the callback: the replica serves at least the reported leader index and every pair written at or below it is readable at that moment", depth, ldName))
	total := par.SeqCount(nLD, depth)
	par.For(total*2, run.Expired, func(i int64) {
		format := []string{"s", "c"}[i%2]
		path := par.SeqAt(nLD, depth, i/2)
		if len(path) == 0 {
			return
		}
		vs, outcome := runPathD(format, path)
		run.Outcome("listener"+format+fmt.Sprint(path)+outcome, true)
		run.Transitions.Add(int64(len(path)))
		run.Validated.Add(1)
		run.AddExtra("listener_sequences", 1)
		seen := map[string]bool{}
		for _, v := range vs {
			if seen[v[0]] {
				continue
			}
			seen[v[0]] = true
			run.Violate(v[0], v[1]+" after "+strings.Join(descD(path), " -> "), CaseD{Kind: "listener", Format: format, Path: path, Desc: descD(path)})
		}
	})
}
