// Package c12: key encoding is injective, order-preserving, and isolates bookkeeping keys.
package c12

import (
	"bytes"
	"encoding/json"
	"fmt"
	"strings"

	"github.com/jamf/regatta/regattapb"
	"github.com/jamf/regatta/storage/table/fsm"
	"github.com/jamf/regatta/storage/table/key"
	sm "github.com/lni/dragonboat/v4/statemachine"

	c01pkg "verif/harness/checks/c01"
	. "verif/harness/cmdx"
	"verif/harness/evid"
	"verif/harness/fsmx"
	"verif/harness/par"
	"verif/harness/refkv"
)

type Case struct {
	Kind string `json:"kind"`
	A    string `json:"a,omitempty"` // hex-ish via %q
	B    string `json:"b,omitempty"`
	C    string `json:"c,omitempty"`
	I    int    `json:"i,omitempty"`
}

func keys(thorough bool) [][]byte {
	alpha := []byte{0x00, 0x01, 0x61, 0xFE, 0xFF}
	var out [][]byte
	var rec func(cur []byte, n int)
	rec = func(cur []byte, n int) {
		if len(cur) > 0 {
			out = append(out, append([]byte(nil), cur...))
		}
		if len(cur) == n {
			return
		}
		for _, b := range alpha {
			rec(append(cur, b), n)
		}
	}
	rec(nil, 3)
	for _, l := range []int{1018, 1019, 1020, 1023, 1024} {
		z := bytes.Repeat([]byte{0}, l)
		f := bytes.Repeat([]byte{0xff}, l)
		fz := append(bytes.Repeat([]byte{0xff}, l-1), 0)
		zf := append(bytes.Repeat([]byte{0}, l-1), 0xff)
		out = append(out, z, f, fz, zf)
	}
	return out
}

func enc(k []byte) ([]byte, error) {
	var buf bytes.Buffer
	_, err := key.NewEncoder(&buf).Encode(&key.Key{KeyType: key.TypeUser, Key: k})
	return buf.Bytes(), err
}

func sgn(x int) int {
	if x < 0 {
		return -1
	}
	if x > 0 {
		return 1
	}
	return 0
}

func qk(b []byte) string {
	if len(b) > 16 {
		return fmt.Sprintf("%d bytes %x..%x", len(b), b[:2], b[len(b)-2:])
	}
	return fmt.Sprintf("%q", b)
}

func Run(r *evid.Run) {
	r.Check = "c12"
	ks := keys(r.Thorough())
	n := len(ks)
	encs := make([][]byte, n)
	r.Rule(fmt.Sprintf("%d keys = every byte string of length 1..3 over {00,01,61,FE,FF} plus boundary lengths {1018,1019,1020,1023,1024} x 4 fill patterns: all keys for round trip through DecodeBytes and the stream Decoder, all ordered pairs for injectivity and order preservation, all triples (lo,k,hi) for range membership, and every key through a real FSM (put alone; wildcard read and delete; the table export = command snapshot holds exactly that key; index lookups intact); sibling sweep: for every shared-prefix length 0..1023 the keys p^n+a, p^n+b, p^n+a\\x00 and p^n itself through a real FSM (each alone, built up, torn down) with point reads, counted point deletes of absent siblings and transaction reads against the reference map; every pair of key lengths 1..20 through one apply call whose later commands read the call's pending writes (order inside the indexed batch). Non-trivial: the pair/triple has distinct members; distinct = distinct (relation outcome) tuples", n))
	// round trips
	for i, k := range ks {
		e, err := enc(k)
		if err != nil {
			r.Violate("encode-error", fmt.Sprintf("%s: %v", qk(k), err), Case{Kind: "roundtrip", I: i})
			continue
		}
		encs[i] = e
		d, err := key.DecodeBytes(e)
		r.Outcome(fmt.Sprintf("rt%d", i), true)
		if err != nil || d.KeyType != key.TypeUser || !bytes.Equal(d.Key, k) {
			r.Violate("roundtrip/DecodeBytes", fmt.Sprintf("key %s decodes to type %d key %s err %v", qk(k), d.KeyType, qk(d.Key), err), Case{Kind: "roundtrip", I: i})
		}
		var dk key.Key
		err = key.NewDecoder(bytes.NewReader(e)).Decode(&dk)
		r.Outcome(fmt.Sprintf("rts%d", i), true)
		if err != nil || dk.KeyType != key.TypeUser || !bytes.Equal(dk.Key, k) {
			sig := "roundtrip/stream-Decoder"
			if err == nil && len(k) > 1019 && bytes.Equal(dk.Key, k[:1019]) {
				sig = "roundtrip/stream-Decoder-truncates-keys-over-1019-bytes"
			}
			r.Violate(sig, fmt.Sprintf("key %s decodes to type %d key %s err %v", qk(k), dk.KeyType, qk(dk.Key), err), Case{Kind: "roundtrip", I: i})
		}
		if key.LatestKeyLen(len(k)) != len(e) {
			r.Violate("encoded-length", fmt.Sprintf("key %s: LatestKeyLen=%d encoded=%d", qk(k), key.LatestKeyLen(len(k)), len(e)), Case{Kind: "roundtrip", I: i})
		}
	}
	// system keys lie outside every user-expressible range: every encoded user key compares below
	// every system key and the wildcard upper bound is above all user keys and below system keys.
	sysKeys := [][]byte{}
	for _, name := range []string{"index", "leader_index"} {
		var buf bytes.Buffer
		_, _ = key.NewEncoder(&buf).Encode(&key.Key{KeyType: key.TypeSystem, Key: []byte(name)})
		sysKeys = append(sysKeys, buf.Bytes())
	}
	for i := range ks {
		for _, s := range sysKeys {
			if bytes.Compare(encs[i], s) >= 0 {
				r.Violate("user-key-not-below-system-key", qk(ks[i]), Case{Kind: "roundtrip", I: i})
			}
		}
	}
	// pairs
	par.For(int64(n), nil, func(i int64) {
		for j := 0; j < n; j++ {
			a, b := ks[i], ks[j]
			ca, cb := sgn(bytes.Compare(a, b)), sgn(bytes.Compare(encs[i], encs[j]))
			r.OutcomeHash(uint64(ca+1)*3+uint64(cb+1)+uint64(len(a)%7)*100+uint64(len(b)%7)*1000, int(i) != j)
			if ca != cb {
				sig := "order-not-preserved"
				if cb == 0 {
					sig = "not-injective"
				}
				r.Violate(sig, fmt.Sprintf("a=%s b=%s compare(a,b)=%d compare(enc a,enc b)=%d", qk(a), qk(b), ca, cb), Case{Kind: "pair", A: fmt.Sprintf("%x", a), B: fmt.Sprintf("%x", b)})
			}
		}
	})
	// triples (restricted to the short keys + a few long ones to keep n^3 small)
	var tk []int
	for i, k := range ks {
		if len(k) <= 2 || len(k) >= 1019 {
			tk = append(tk, i)
		}
	}
	par.For(int64(len(tk)), nil, func(x int64) {
		lo := tk[x]
		for _, k := range tk {
			for _, hi := range tk {
				in := bytes.Compare(ks[k], ks[lo]) >= 0 && bytes.Compare(ks[k], ks[hi]) < 0
				ein := bytes.Compare(encs[k], encs[lo]) >= 0 && bytes.Compare(encs[k], encs[hi]) < 0
				r.OutcomeHash(uint64(lo)*1_000_003+uint64(hi)*1009+b2u(in), in)
				if in != ein {
					r.Violate("range-membership-differs", fmt.Sprintf("lo=%s k=%s hi=%s user-space=%v encoded-space=%v", qk(ks[lo]), qk(ks[k]), qk(ks[hi]), in, ein), Case{Kind: "triple", A: fmt.Sprintf("%x", ks[lo]), B: fmt.Sprintf("%x", ks[k]), C: fmt.Sprintf("%x", ks[hi])})
				}
			}
		}
	})
	r.Extra("keys", n)
	r.Extra("triple_keys", len(tk))
	// through the FSM
	par.For(int64(n), r.Expired, func(i int64) {
		vs := runFSM(ks[i])
		r.Outcome(fmt.Sprintf("fsm%d", i), true)
		for _, v := range vs {
			r.Violate(v[0], v[1], Case{Kind: "fsm", I: int(i)})
		}
	})
	// sibling sweep: for EVERY shared-prefix length n in 0..1023, keys that differ only after n shared
	// bytes (and the shared prefix itself) stay distinct keys for point reads, point deletes and
	// transaction reads of the store
	maxN := 1023
	par.For(int64(maxN+1), r.Expired, func(i int64) {
		vs := runSiblings(int(i))
		r.Outcome(fmt.Sprintf("sib%d", i), true)
		for _, v := range vs {
			r.Violate(v[0], v[1], Case{Kind: "sibling", I: int(i)})
		}
	})
	r.Extra("sibling_prefix_lengths", maxN+1)
	// "the byte order of encoded user keys is the byte order of the user keys" also inside the
	// pending writes of an apply call (pebble orders an indexed batch with the comparer's
	// abbreviated keys): every pair of key lengths 1..20, two orders (the sweep lives in C01)
	const maxLen = 20
	par.For(int64(maxLen*maxLen*2), r.Expired, func(i int64) {
		lc := c01pkg.Case{Kind: "lengths", Lo: int(i%maxLen) + 1, Hi: int(i/maxLen%maxLen) + 1, Flags: int(i / maxLen / maxLen)}
		sigs, details := c01pkg.RunLengthsExt(lc)
		r.Outcome(fmt.Sprint("lengths", lc.Lo, lc.Hi, lc.Flags, len(sigs)), true)
		for k, sg := range sigs {
			r.Violate("order-inside-apply-call/"+sg, details[k], Case{Kind: "lengths", A: fmt.Sprint(lc.Lo), B: fmt.Sprint(lc.Hi), I: lc.Flags})
		}
	})
	r.Sample(map[string]any{"pair": []string{qk(ks[3]), qk(ks[40])}, "triple": []string{qk(ks[tk[1]]), qk(ks[tk[5]]), qk(ks[tk[9]])}, "fsm_key": qk(ks[n-1])})
	r.Assume("byte-wise lexicographic order (bytes.Compare) is the order of the store (pebble DefaultComparer.Compare, as configured in pebble/pebble.go)")
}

func b2u(b bool) uint64 {
	if b {
		return 1
	}
	return 0
}

type msgWriter struct{ msgs [][]byte }

func (w *msgWriter) Write(p []byte) (int, error) {
	w.msgs = append(w.msgs, append([]byte(nil), p...))
	return len(p), nil
}

// exportKeys runs the real command snapshot and returns the keys of the PUT commands it streams.
func exportKeys(inst *fsmx.Inst) ([]string, error) {
	w := &msgWriter{}
	if _, err := inst.Lookup(fsm.SnapshotRequest{Writer: w}); err != nil {
		return nil, err
	}
	var ks []string
	for _, b := range w.msgs {
		cmd := &regattapb.Command{}
		if err := cmd.UnmarshalVT(b); err != nil {
			return nil, err
		}
		if cmd.Type != regattapb.Command_PUT || cmd.Kv == nil {
			return nil, fmt.Errorf("export message of type %s", cmd.Type)
		}
		ks = append(ks, string(cmd.Kv.Key))
	}
	return ks, nil
}

// runSiblings: a = p^n+"a", b = p^n+"b", c = p^n (n>0), d = p^n+"a\x00": every single-key read, counted
// single-key delete and transaction read addresses exactly its own key, whichever of the others exist.
func runSiblings(n int) (vs [][2]string) {
	env := fsmx.NewEnv()
	inst, _, err := env.Open("t", 10001, fsm.RecoveryTypeSnapshot)
	if err != nil {
		return [][2]string{{"open-error", err.Error()}}
	}
	defer inst.Close()
	m := refkv.New()
	p := bytes.Repeat([]byte{'p'}, n)
	a := string(p) + "a"
	b := string(p) + "b"
	d := string(p) + "a\x00"
	ks := []string{a, b, d}
	if n > 0 {
		ks = append(ks, string(p))
	}
	idx := uint64(0)
	apply := func(c *regattapb.Command) bool {
		idx++
		out, err := inst.Update([]sm.Entry{fsmx.Entry(idx, c)})
		if err != nil {
			vs = append(vs, [2]string{"sibling/update-error", fmt.Sprintf("n=%d %s: %v", n, fsmx.CmdStr(c), err)})
			return false
		}
		v, cr := m.Apply(idx, fsmx.Wire(c))
		if g, w := fsmx.NormalizeObserved(out[0]), fsmx.ExpectStr(v, cr); g != w {
			vs = append(vs, [2]string{"sibling/result-names-another-key", fmt.Sprintf("shared prefix %d bytes, %s: got %s want %s", n, short(fsmx.CmdStr(c)), short(g), short(w))})
		}
		return true
	}
	reads := func(tag string) {
		for _, k := range ks {
			req := &regattapb.RequestOp_Range{Key: []byte(k)}
			got, err := inst.Range(req)
			if err != nil {
				vs = append(vs, [2]string{"sibling/read-error", err.Error()})
				continue
			}
			if g, w := fsmx.RangeStr(got), fsmx.RangeStr(m.Range(req)); g != w {
				vs = append(vs, [2]string{"sibling/point-read-answers-with-another-key", fmt.Sprintf("shared prefix %d bytes, %s, key ..%q: got %s want %s", n, tag, k[max(0, len(k)-2):], short(g), short(w))})
			}
			// the same read inside a read-only transaction and inside a writing one
			if !apply(Txn(nil, []*regattapb.RequestOp{OpGet(k, nil, 0, false, false)}, nil)) {
				return
			}
		}
	}
	// each key alone, then pairs building up, with counted point deletes of absent siblings in between
	for _, first := range ks {
		if !apply(Put(first, "v-"+first[max(0, len(first)-2):], false)) {
			return
		}
		reads("one key present")
		for _, other := range ks {
			if other == first {
				continue
			}
			if !apply(Del(other, nil, true, true)) { // absent: must delete nothing
				return
			}
		}
		reads("after deleting absent siblings")
		if !apply(Del(first, nil, true, true)) {
			return
		}
	}
	for _, k := range ks {
		if !apply(Put(k, "w-"+k[max(0, len(k)-2):], true)) {
			return
		}
		reads("building up")
	}
	for _, k := range ks {
		if !apply(Del(k, nil, true, true)) {
			return
		}
		reads("tearing down")
	}
	return vs
}

func short(s string) string {
	if len(s) > 300 {
		return s[:120] + "…" + s[len(s)-120:]
	}
	return s
}

// runFSM: key put alone; wildcard read returns it; bookkeeping untouched by extreme deletes.
func runFSM(k []byte) (vs [][2]string) {
	env := fsmx.NewEnv()
	inst, _, err := env.Open("t", 10001, fsm.RecoveryTypeSnapshot)
	if err != nil {
		return [][2]string{{"open-error", err.Error()}}
	}
	defer inst.Close()
	m := refkv.New()
	apply := func(idx uint64, c *regattapb.Command) bool {
		out, err := inst.Update([]sm.Entry{fsmx.Entry(idx, c)})
		if err != nil {
			vs = append(vs, [2]string{"fsm/update-error", fmt.Sprintf("%s: %v", fsmx.CmdStr(c), err)})
			return false
		}
		v, cr := m.Apply(idx, fsmx.Wire(c))
		if g, w := fsmx.NormalizeObserved(out[0]), fsmx.ExpectStr(v, cr); g != w {
			vs = append(vs, [2]string{"fsm/result-mismatch", fmt.Sprintf("%s: got %s want %s", fsmx.CmdStr(c), g, w)})
		}
		return true
	}
	reads := func(tag string) {
		for _, req := range []*regattapb.RequestOp_Range{
			{Key: []byte{0}, RangeEnd: []byte{0}},
			{Key: k, RangeEnd: []byte{0}},
			{Key: k},
			{Key: []byte{0}, RangeEnd: k},
			{Key: []byte("index"), RangeEnd: []byte{0}},
			{Key: []byte("\x02index")},
		} {
			got, err := inst.Range(req)
			if err != nil {
				vs = append(vs, [2]string{"fsm/read-error", err.Error()})
				continue
			}
			if g, w := fsmx.RangeStr(got), fsmx.RangeStr(m.Range(req)); g != w {
				vs = append(vs, [2]string{"fsm/read-mismatch/" + tag, fmt.Sprintf("key %s %s: got %s want %s", qk(k), fsmx.RangeReqStr(req), g, w)})
			}
		}
		li, _ := inst.LocalIndex()
		le, _ := inst.LeaderIndex()
		if li != m.Applied || le != m.Leader {
			vs = append(vs, [2]string{"fsm/bookkeeping-altered/" + tag, fmt.Sprintf("key %s: local %d want %d leader %d want %d", qk(k), li, m.Applied, le, m.Leader)})
		}
	}
	if !apply(1, WithLeader(Put(string(k), "v", false), 5)) {
		return
	}
	reads("after-put")
	// the table export (command snapshot: follower bootstrap, backup, restore) addresses the same
	// user key space as the wildcard: the key must be in it, and nothing but user keys
	if exp, err := exportKeys(inst); err != nil {
		vs = append(vs, [2]string{"fsm/export-error", err.Error()})
	} else if len(exp) != 1 || exp[0] != string(k) {
		vs = append(vs, [2]string{"fsm/export-differs-from-wildcard-range", fmt.Sprintf("key %s stored alone: the export holds %d keys %s", qk(k), len(exp), qk([]byte(strings.Join(exp, ","))))})
	}
	if !apply(2, Del(string(k), []byte{0}, true, true)) {
		return
	}
	reads("after-delete-from-key")
	if !apply(3, Put(string(k), "w", true)) {
		return
	}
	if !apply(4, Del("\x00", []byte{0}, false, true)) {
		return
	}
	reads("after-delete-all")
	// attempts to address bookkeeping keys by user keys that resemble them
	if !apply(5, Put("index", "x", false)) {
		return
	}
	if !apply(6, Del("index", nil, true, true)) {
		return
	}
	reads("after-index-named-key")
	return vs
}

func Replay(raw json.RawMessage) (string, bool) {
	var c Case
	_ = json.Unmarshal(raw, &c)
	if c.Kind == "lengths" {
		var l1, l2 int
		fmt.Sscan(c.A, &l1)
		fmt.Sscan(c.B, &l2)
		sigs, details := c01pkg.RunLengthsExt(c01pkg.Case{Kind: "lengths", Lo: l1, Hi: l2, Flags: c.I})
		var sb strings.Builder
		for k := range sigs {
			fmt.Fprintf(&sb, "order-inside-apply-call/%s: %s\n", sigs[k], details[k])
		}
		return sb.String(), len(sigs) == 0
	}
	if c.Kind == "sibling" {
		vs := runSiblings(c.I)
		var sb strings.Builder
		for _, v := range vs {
			fmt.Fprintf(&sb, "%s: %s\n", v[0], v[1])
		}
		return sb.String(), len(vs) == 0
	}
	if c.Kind == "fsm" {
		ks := keys(true)
		vs := runFSM(ks[c.I])
		var sb strings.Builder
		for _, v := range vs {
			fmt.Fprintf(&sb, "%s: %s\n", v[0], v[1])
		}
		return sb.String(), len(vs) == 0
	}
	// pure cases: re-run the whole pure part is cheap; report per-case only
	var a, b, cc []byte
	fmt.Sscanf(c.A, "%x", &a)
	fmt.Sscanf(c.B, "%x", &b)
	fmt.Sscanf(c.C, "%x", &cc)
	switch c.Kind {
	case "pair":
		ea, _ := enc(a)
		eb, _ := enc(b)
		if sgn(bytes.Compare(a, b)) != sgn(bytes.Compare(ea, eb)) {
			return "order differs\n", false
		}
	case "triple":
		ea, _ := enc(a)
		eb, _ := enc(b)
		ec, _ := enc(cc)
		in := bytes.Compare(b, a) >= 0 && bytes.Compare(b, cc) < 0
		ein := bytes.Compare(eb, ea) >= 0 && bytes.Compare(eb, ec) < 0
		if in != ein {
			return "membership differs\n", false
		}
	case "roundtrip":
		k := keys(true)[c.I]
		e, _ := enc(k)
		d, err := key.DecodeBytes(e)
		var dk key.Key
		err2 := key.NewDecoder(bytes.NewReader(e)).Decode(&dk)
		if err != nil || err2 != nil || !bytes.Equal(d.Key, k) || !bytes.Equal(dk.Key, k) {
			return fmt.Sprintf("round trip of %s fails: DecodeBytes=%s Decoder=%s\n", qk(k), qk(d.Key), qk(dk.Key)), false
		}
	}
	return "", true
}
