// Package c05: a follower table always equals the leader table at its recorded leader index.
// Real leader and follower engines; the real LogServer/SnapshotServer/MetadataServer over gRPC on a
// unix socket; the real replication worker stepped by the harness (one poll, one recovery at a time);
// observation at every follower apply through the AppliedIndexListener.
package c05

import (
	"bytes"
	"context"
	"encoding/json"
	"fmt"
	"os"
	"sort"
	"strings"
	"sync"
	"sync/atomic"
	"time"

	"github.com/jamf/regatta/regattapb"
	"github.com/jamf/regatta/replication"
	"github.com/jamf/regatta/storage"
	"github.com/lni/dragonboat/v4"
	"google.golang.org/grpc"

	. "verif/harness/cmdx"
	"verif/harness/engx"
	"verif/harness/evid"
	"verif/harness/fsmx"
	"verif/harness/par"
)

const (
	evPutNew = iota
	evPutA
	evDeleteA
	evDeleteRange
	evToggleTxn
	evBigPut
	evPoll
	evRecover
	evCompact0
	evCompact1
	evRestartFollower
	evWarmCache
	nEv
)

var evName = []string{"leader:put(new key)", "leader:put(a)", "leader:delete(a)", "leader:delete-range(a..)", "leader:toggle-txn", "leader:put(300KiB, larger than one follower proposal)", "follower:poll", "follower:recover-from-snapshot", "leader:snapshot+compact(keep 0)", "leader:snapshot+compact(keep 1)", "follower:engine-restart", "leader:advanced-reader-warms-log-cache-at-tail"}

type Case struct {
	Path     []int    `json:"path"`
	MsgLimit uint64   `json:"max_message_size"`
	Cache    int      `json:"log_cache_size"`
	Desc     []string `json:"desc,omitempty"`
}

type viol struct{ sig, detail string }

// pair is one leader/follower engine pair owned by one worker goroutine.
type pair struct {
	leader         *engx.Engine
	follower       *engx.Engine
	conns          map[uint64]*grpc.ClientConn
	stops          []func()
	cache          int
	closed         bool
	followerClosed bool

	mu      sync.Mutex
	observe func(table string, idx uint64) // set per path
}

var tableSeq atomic.Int64
var evTime [nEv + 2]atomic.Int64
var transitions atomic.Int64
var stateSet sync.Map // observed abstract states: (leader writes so far, follower leader index, follower content, recovery pending)

func newPair(cache int, limits []uint64) (*pair, error) {
	p := &pair{conns: map[uint64]*grpc.ClientConn{}, cache: cache}
	var err error
	p.leader, err = engx.Start(engx.Opts{LogCacheSize: cache})
	if err != nil {
		return nil, err
	}
	for _, l := range limits {
		conn, stop, err := engx.Serve(engx.ReplicationServers(p.leader, l), grpc.MaxRecvMsgSize(64<<20))
		if err != nil {
			return nil, err
		}
		p.conns[l] = conn
		p.stops = append(p.stops, stop)
	}
	if err := p.startFollower(nil); err != nil {
		return nil, err
	}
	return p, nil
}

func (p *pair) listener(table string, idx uint64) {
	p.mu.Lock()
	f := p.observe
	p.mu.Unlock()
	if f != nil {
		f(table, idx)
	}
}

func (p *pair) startFollower(old *engx.Engine) error {
	o := engx.Opts{Listener: p.listener}
	if old != nil {
		o.FS, o.TableFS = old.Opts.FS, old.Opts.TableFS
		o.Ports = [2]int{old.Opts.Ports[0], 0} // same raft address, fresh gossip port
	}
	var err error
	for i := 0; i < 20; i++ {
		f, e2 := engx.Start(o)
		if e2 == nil {
			p.follower = f
			p.followerClosed = false
			return nil
		}
		err = e2
		time.Sleep(100 * time.Millisecond)
	}
	return err
}

func (p *pair) close() {
	if p.closed {
		return
	}
	p.closed = true
	for _, s := range p.stops {
		s()
	}
	if p.follower != nil && !p.followerClosed {
		p.follower.Close()
	}
	p.leader.Close()
}

func full(e *storage.Engine, name string, lin bool) ([]*regattapb.KeyValue, error) {
	ctx, cancel := context.WithTimeout(context.Background(), 20*time.Second)
	defer cancel()
	seq, err := e.IterateRange(ctx, &regattapb.RangeRequest{Table: []byte(name), Key: []byte{0}, RangeEnd: []byte{0}, Linearizable: lin})
	if err != nil {
		return nil, err
	}
	var out []*regattapb.KeyValue
	seq(func(r *regattapb.RangeResponse) bool { out = append(out, r.Kvs...); return true })
	return out, nil
}

func leaderIndexOf(e *storage.Engine, name string, lin bool) (uint64, error) {
	t, err := e.GetTable(name)
	if err != nil {
		return 0, err
	}
	ctx, cancel := context.WithTimeout(context.Background(), 10*time.Second)
	defer cancel()
	r, err := t.LeaderIndex(ctx, lin)
	if err != nil {
		return 0, err
	}
	return r.Index, nil
}

// run executes one path on a fresh table of the pair.
func (p *pair) run(c Case) (vs []viol, outcome string, inconclusive string) {
	tSetup := time.Now()
	name := fmt.Sprintf("t%d", tableSeq.Add(1))
	if _, err := p.leader.CreateTable(name); err != nil {
		return nil, "", "create leader table: " + err.Error()
	}
	if err := p.leader.WaitTable(name, 20*time.Second); err != nil {
		return nil, "", err.Error()
	}
	if _, err := p.follower.CreateTable(name); err != nil {
		return nil, "", "create follower table: " + err.Error()
	}
	if err := p.follower.WaitTable(name, 20*time.Second); err != nil {
		return nil, "", err.Error()
	}
	defer func() {
		p.mu.Lock()
		p.observe = nil
		p.mu.Unlock()
		_ = p.leader.DeleteTable(name)
		_ = p.follower.DeleteTable(name)
	}()
	lt, err := p.leader.GetTable(name)
	if err != nil {
		return nil, "", "leader table: " + err.Error()
	}
	evTime[nEv].Add(int64(time.Since(tSetup)))
	// leader contents per revision
	contents := map[uint64]string{0: "[]"}
	var revs []uint64
	record := func(rev uint64) error {
		kvs, err := full(p.leader.Engine, name, true)
		if err != nil {
			return err
		}
		contents[rev] = fsmx.KVs(kvs)
		revs = append(revs, rev)
		return nil
	}
	contentAt := func(idx uint64) string { // content at the greatest recorded revision <= idx
		best := uint64(0)
		for _, r := range revs {
			if r <= idx && r > best {
				best = r
			}
		}
		return contents[best]
	}
	var vmu sync.Mutex
	addViol := func(sig, detail string) {
		vmu.Lock()
		vs = append(vs, viol{sig, detail})
		vmu.Unlock()
	}
	var lastL uint64
	applies := 0
	checkFollower := func(where string, lin bool) {
		li, err := leaderIndexOf(p.follower.Engine, name, lin)
		if err != nil {
			return
		}
		kvs, err := full(p.follower.Engine, name, lin)
		if err != nil {
			return
		}
		li2, err := leaderIndexOf(p.follower.Engine, name, lin)
		if err != nil || li2 != li {
			return // moved while reading: not a stable observation
		}
		vmu.Lock()
		prev := lastL
		if li > lastL {
			lastL = li
		}
		vmu.Unlock()
		if li < prev {
			addViol("follower-leader-index-moved-backwards/"+where, fmt.Sprintf("%d after %d", li, prev))
		}
		if got, want := fsmx.KVs(kvs), contentAt(li); got != want {
			sig := "follower-content-not-leader-content-at-recorded-index/" + where
			addViol(sig, fmt.Sprintf("recorded leader index %d: follower %s, leader had %s", li, trunc(got), trunc(want)))
		}
	}
	p.mu.Lock()
	p.observe = func(table string, idx uint64) {
		if table != name {
			return
		}
		applies++
		// the apply path is parked in this callback; lookups run concurrently (stale reads)
		checkFollower("at-apply", false)
	}
	p.mu.Unlock()
	mkWorker := func() *replication.VerifWorker {
		conn := p.conns[c.MsgLimit]
		return replication.VerifNewWorker(p.follower.Engine, name, regattapb.NewLogClient(conn), regattapb.NewSnapshotClient(conn), 30*time.Second, 60*time.Second)
	}
	w := mkWorker()
	ctx := context.Background()
	newKeys := 0
	needRecover := false
	write := func(f func(ctx context.Context) (uint64, error)) string {
		c2, cancel := context.WithTimeout(ctx, 20*time.Second)
		defer cancel()
		rev, err := f(c2)
		if err != nil {
			return "leader write: " + err.Error()
		}
		if err := record(rev); err != nil {
			return "leader read: " + err.Error()
		}
		return ""
	}
	var sb strings.Builder
	for _, e := range c.Path {
		var inc string
		t0 := time.Now()
		defer func(e int) { evTime[e].Add(int64(time.Since(t0))) }(e)
		switch e {
		case evPutNew:
			newKeys++
			k := fmt.Sprintf("n%d", newKeys)
			inc = write(func(ctx context.Context) (uint64, error) {
				r, err := p.leader.Put(ctx, &regattapb.PutRequest{Table: []byte(name), Key: []byte(k), Value: []byte("v")})
				return r.GetHeader().GetRevision(), err
			})
		case evPutA:
			inc = write(func(ctx context.Context) (uint64, error) {
				r, err := p.leader.Put(ctx, &regattapb.PutRequest{Table: []byte(name), Key: []byte("a"), Value: []byte(fmt.Sprintf("a%d", len(revs)))})
				return r.GetHeader().GetRevision(), err
			})
		case evDeleteA:
			inc = write(func(ctx context.Context) (uint64, error) {
				r, err := p.leader.Delete(ctx, &regattapb.DeleteRangeRequest{Table: []byte(name), Key: []byte("a")})
				return r.GetHeader().GetRevision(), err
			})
		case evDeleteRange:
			inc = write(func(ctx context.Context) (uint64, error) {
				r, err := p.leader.Delete(ctx, &regattapb.DeleteRangeRequest{Table: []byte(name), Key: []byte("a"), RangeEnd: []byte{0}})
				return r.GetHeader().GetRevision(), err
			})
		case evToggleTxn:
			inc = write(func(ctx context.Context) (uint64, error) {
				r, err := p.leader.Txn(ctx, &regattapb.TxnRequest{Table: []byte(name), Compare: Cmps(Exists("tog", nil)), Success: Ops(OpDel("tog", nil, false, false)), Failure: Ops(OpPut("tog", "1", false))})
				return r.GetHeader().GetRevision(), err
			})
		case evBigPut:
			newKeys++
			k := fmt.Sprintf("big%d", newKeys)
			inc = write(func(ctx context.Context) (uint64, error) {
				r, err := p.leader.Put(ctx, &regattapb.PutRequest{Table: []byte(name), Key: []byte(k), Value: bytes.Repeat([]byte("B"), 300<<10)})
				return r.GetHeader().GetRevision(), err
			})
		case evPoll:
			res, err := w.Poll()
			if res == replication.VerifLeaderAhead {
				needRecover = true
			}
			if err != nil && res == replication.VerifUnknown {
				inc = "poll: " + err.Error()
			}
			fmt.Fprintf(&sb, "p%d;", res)
		case evRecover:
			if !needRecover {
				return nil, "SKIP", "" // not enabled: the path is not part of the space
			}
			if err := w.Recover(); err != nil {
				inc = "recover: " + err.Error()
			}
			needRecover = false
			if err := p.follower.WaitTable(name, 20*time.Second); err != nil {
				inc = err.Error()
			}
		case evCompact0, evCompact1:
			keep := uint64(e - evCompact0)
			c2, cancel := context.WithTimeout(ctx, 20*time.Second)
			_, err := p.leader.NodeHost.SyncRequestSnapshot(c2, lt.ClusterID, dragonboat.SnapshotOption{OverrideCompactionOverhead: true, CompactionOverhead: keep})
			cancel()
			if err != nil {
				if strings.Contains(err.Error(), "rejected") {
					break // nothing new to snapshot: the event is a no-op
				}
				inc = "snapshot: " + err.Error()
				break
			}
			// wait for the visible log compaction
			c4, cancel4 := context.WithTimeout(ctx, 20*time.Second)
			li, err := lt.LocalIndex(c4, true)
			cancel4()
			if err != nil {
				inc = "leader index: " + err.Error()
				break
			}
			deadline := time.Now().Add(10 * time.Second)
			for time.Now().Before(deadline) {
				lr, err := p.leader.NodeHost.GetLogReader(lt.ClusterID)
				if err == nil {
					first, _ := lr.GetRange()
					if first+keep >= li.Index {
						break
					}
				}
				time.Sleep(2 * time.Millisecond)
			}
			time.Sleep(5 * time.Millisecond) // LogCompacted event -> cache clear
		case evWarmCache:
			// what a second, more advanced follower would do: read the last two applied entries
			c4, cancel4 := context.WithTimeout(ctx, 20*time.Second)
			li, err := lt.LocalIndex(c4, true)
			if err == nil && li.Index >= 2 {
				_, _ = p.leader.LogReader.QueryRaftLog(c4, lt.ClusterID, dragonboat.LogRange{FirstIndex: li.Index - 1, LastIndex: li.Index + 1}, 1<<20)
			}
			cancel4()
		case evRestartFollower:
			old := p.follower
			old.Close()
			p.followerClosed = true
			_ = old.Cluster.Close()
			if err := p.startFollower(old); err != nil {
				return nil, "", "FATAL follower restart: " + err.Error()
			}
			// the manager starts catalogued tables on its reconcile tick (30 s); run that pass now
			for i := 0; i < 200; i++ {
				if err := p.follower.Manager.VerifReconcile(); err == nil {
					break
				}
				time.Sleep(5 * time.Millisecond)
			}
			if err := p.follower.WaitTable(name, 30*time.Second); err != nil {
				inc = err.Error()
			}
			w = mkWorker()
		}
		if inc != "" {
			return vs, "", inc
		}
		checkFollower("after-event", true)
		transitions.Add(1)
		vmu.Lock()
		stateSet.Store(fmt.Sprintf("%d|%d|%s|%v", len(revs), lastL, contentAt(lastL), needRecover), true)
		vmu.Unlock()
	}
	// convergence: once the leader stops changing the follower reaches its latest state
	c3, cancel3 := context.WithTimeout(ctx, 20*time.Second)
	lli, err := lt.LocalIndex(c3, true)
	cancel3()
	if err != nil {
		return vs, "", "leader index: " + err.Error()
	}
	want := contentAt(lli.Index)
	converged := false
	tConv := time.Now()
	defer func() { evTime[nEv+1].Add(int64(time.Since(tConv))) }()
	for i := 0; i < len(c.Path)+4 && !converged; i++ {
		res, err := w.Poll()
		if res == replication.VerifLeaderAhead {
			if err := w.Recover(); err != nil {
				return vs, "", "final recover: " + err.Error()
			}
			_ = p.follower.WaitTable(name, 20*time.Second)
		} else if err != nil && res == replication.VerifUnknown {
			return vs, "", "final poll: " + err.Error()
		}
		checkFollower("after-event", true)
		kvs, err := full(p.follower.Engine, name, true)
		if err == nil && fsmx.KVs(kvs) == want {
			if li, err := leaderIndexOf(p.follower.Engine, name, true); err == nil && (li == lli.Index || len(revs) == 0) {
				converged = true
			}
		}
	}
	if !converged {
		kvs, _ := full(p.follower.Engine, name, true)
		li, _ := leaderIndexOf(p.follower.Engine, name, true)
		addViol("follower-does-not-reach-leader-state", fmt.Sprintf("after %d polls: follower index %d content %s; leader index %d content %s", len(c.Path)+4, li, trunc(fsmx.KVs(kvs)), lli.Index, trunc(want)))
	}
	fmt.Fprintf(&sb, "L=%d applies=%d %s", lli.Index, applies, trunc(want))
	return vs, sb.String(), ""
}

func trunc(s string) string {
	if len(s) > 240 {
		return s[:240] + "..."
	}
	return s
}

// runTableSet: leader creates/deletes tables, follower reconciles: sets converge.
func (p *pair) runTableSet(r *evid.Run) {
	conn := p.conns[0]
	m := replication.NewManager(p.follower.Engine, nil, conn, replication.Config{ReconcileInterval: time.Hour, Workers: replication.WorkerConfig{PollInterval: time.Hour, LeaseInterval: time.Hour, LogRPCTimeout: time.Minute, SnapshotRPCTimeout: time.Minute, MaxRecoveryInFlight: 1}})
	names := func(e *storage.Engine) string {
		ts, _ := e.GetTables()
		var ns []string
		for _, t := range ts {
			if strings.HasPrefix(t.Name, "set-") {
				ns = append(ns, t.Name)
			}
		}
		sort.Strings(ns)
		return strings.Join(ns, ",")
	}
	// events: 0 create x, 1 delete x, 2 create y, 3 delete y, 4 reconcile; from the empty set (length
	// <= 4) and from the non-initial state "x exists on both sides" (length <= 3)
	t0 := time.Now()
	for _, start := range []string{"empty", "x-on-both"} {
		depth := 4
		if start != "empty" {
			depth = 3
		}
		total := par.SeqCount(5, depth)
		for i := int64(0); i < total; i++ {
			path := par.SeqAt(5, depth, i)
			for _, n := range []string{"set-x", "set-y"} {
				_ = p.leader.DeleteTable(n)
			}
			_ = m.VerifReconcileTables()
			if start == "x-on-both" {
				_, _ = p.leader.CreateTable("set-x")
				_ = m.VerifReconcileTables()
				if l, f := names(p.leader.Engine), names(p.follower.Engine); l != "set-x" || f != "set-x" {
					r.Inconcl.Add(1)
					continue
				}
			}
			for _, e := range path {
				switch e {
				case 0:
					_, _ = p.leader.CreateTable("set-x")
				case 1:
					_ = p.leader.DeleteTable("set-x")
				case 2:
					_, _ = p.leader.CreateTable("set-y")
				case 3:
					_ = p.leader.DeleteTable("set-y")
				case 4:
					if err := m.VerifReconcileTables(); err != nil {
						r.Inconcl.Add(1)
						continue
					}
					if l, f := names(p.leader.Engine), names(p.follower.Engine); l != f {
						r.Violate("table-set-not-converged-after-reconcile", fmt.Sprintf("leader {%s} follower {%s} after %v from start state %s", l, f, path, start), map[string]any{"kind": "tableset", "path": path, "start": start})
					}
				}
			}
			r.Outcome(fmt.Sprint("tableset", start, path, names(p.leader.Engine)), true)
			r.AddExtra("table_set_paths", 1)
		}
	}
	r.Extra("table_set_seconds", int(time.Since(t0).Seconds()))
}

func valid(path []int) bool {
	// recover only right after a poll (the poll's verdict enables it); at most one follower restart;
	// no leading follower-only events
	restarts := 0
	for i, e := range path {
		if e == evRecover && (i == 0 || path[i-1] != evPoll) {
			return false
		}
		if e == evRestartFollower {
			restarts++
		}
	}
	return restarts <= 1
}

func Run(r *evid.Run) {
	r.Check = "c05"
	depth := 3
	limits := []uint64{1, 300, 0}
	if r.Thorough() {
		depth = 5
	}
	if os.Getenv("VERIF_DEADLINE_SEC") == "" { // an explicit deadline wins
		r.SetDeadline(map[bool]time.Duration{false: 240 * time.Second, true: 40 * time.Minute}[r.Thorough()])
	}
	r.Rule(fmt.Sprintf("every schedule of length 0..%d over %v (recover only right after a poll that answered use-snapshot, at most one follower restart) x replication message limit {1 byte, 300 bytes, default} x leader log cache {0, 2 entries}; each schedule runs on a fresh table of a long-lived real leader/follower engine pair with the real LogServer/SnapshotServer over gRPC and the real replication worker stepped by the harness. Observation after every event AND at every follower apply (AppliedIndexListener; the apply path is parked while the harness reads): the follower's recorded leader index never decreases and its full content equals the leader content recorded at that index; afterwards <= n+4 polls (with recovery when told) bring it to the leader's state. Table sets: every sequence of length <= 4 over {create/delete x, create/delete y on the leader, follower reconcile}. Non-trivial: every schedule; distinct = distinct (schedule, poll results, final content)", depth, evName))
	total := par.SeqCount(nEv, depth)
	type job struct {
		path  []int
		limit uint64
	}
	var jobs []job
	for i := int64(0); i < total; i++ {
		path := par.SeqAt(nEv, depth, i)
		if !valid(path) {
			continue
		}
		hasFollower := false
		for _, e := range path {
			if e >= evPoll && e != evWarmCache {
				hasFollower = true
			}
		}
		for li, l := range limits {
			if !hasFollower && li > 0 {
				continue
			}
			jobs = append(jobs, job{path, l})
		}
	}
	r.Extra("schedules_in_space", len(jobs))
	nPairs := 12
	var next atomic.Int64
	var wg sync.WaitGroup
	var doneJobs atomic.Int64
	for wkr := 0; wkr < nPairs; wkr++ {
		wg.Add(1)
		go func(wkr int) {
			defer wg.Done()
			cache := (wkr % 2) * 2
			p, err := newPair(cache, limits)
			if err != nil {
				fmt.Println("INFRA: engine pair:", err)
				r.Inconcl.Add(1)
				return
			}
			defer func() { p.close() }()
			n := 0
			for {
				i := next.Add(1) - 1
				if i >= int64(len(jobs)) || r.Expired() {
					return
				}
				j := jobs[i]
				c := Case{Path: j.path, MsgLimit: j.limit, Cache: cache}
				evid.Journal("C05", fmt.Sprint(c))
				vs, outcome, inc := p.run(c)
				doneJobs.Add(1)
				if strings.HasPrefix(inc, "FATAL") {
					r.Inconcl.Add(1)
					return
				}
				if outcome == "SKIP" {
					r.AddExtra("schedules_skipped_recover_not_enabled", 1)
				} else if inc != "" {
					r.Inconcl.Add(1)
					r.Extra("last_inconclusive", inc)
				} else {
					r.Outcome(fmt.Sprint(c.Path, c.MsgLimit, c.Cache)+outcome, true)
				}
				for _, v := range vs {
					var d []string
					for _, e := range c.Path {
						d = append(d, evName[e])
					}
					c.Desc = d
					r.Violate(v.sig, v.detail+fmt.Sprintf(" [schedule %v, message limit %d, cache %d]", d, c.MsgLimit, c.Cache), c)
				}
				n++
				if n%50 == 0 {
					_ = p.leader.Manager.VerifReconcile()
					_ = p.follower.Manager.VerifReconcile()
				}
				if n%250 == 0 {
					// fresh engines: the in-memory disks and Raft logs of hundreds of dropped tables go
					p.close()
					np, err := newPair(cache, limits)
					if err != nil {
						fmt.Println("INFRA: engine pair:", err)
						r.Inconcl.Add(1)
						return
					}
					p = np
				}
				if wkr == 0 && i%97 == 0 {
					r.Sample(map[string]any{"schedule": c.Path, "max_message_size": c.MsgLimit, "log_cache_size": cache, "outcome": outcome})
				}
			}
		}(wkr)
	}
	wg.Wait()
	if doneJobs.Load() < int64(len(jobs)) {
		r.Cap(fmt.Sprintf("deadline: %d of %d schedules", doneJobs.Load(), len(jobs)))
	}
	r.Extra("schedules_run", doneJobs.Load())
	nStates := int64(0)
	stateSet.Range(func(_, _ any) bool { nStates++; return true })
	r.States.Store(nStates)
	r.Transitions.Store(transitions.Load())
	r.Validated.Store(doneJobs.Load())
	tm := map[string]string{}
	for i := range evName {
		tm[evName[i]] = time.Duration(evTime[i].Load()).String()
	}
	tm["setup"] = time.Duration(evTime[nEv].Load()).String()
	tm["convergence"] = time.Duration(evTime[nEv+1].Load()).String()
	r.Extra("cumulative_time_from_event_start_to_schedule_end", tm)
	runRestartDuringPoll(r)
	r.Rule("worker restart during a poll: the worker's own routines run (real Start, lease interval 100ms), its first replication stream (message limit 300 bytes, a leader history of 12 compare-and-swap transactions) is held after k messages, k = 1..6; the worker is closed (Close may return whenever it likes), a new worker catches up, the held stream is let go: the follower's content equals the leader's at its recorded index, which does not move backwards")
	// table sets on one more pair
	if p, err := newPair(0, []uint64{0}); err == nil {
		p.runTableSet(r)
		p.close()
	}
	r.Assume("single-node leader and follower clusters; multi-node follower clusters (lease hand-over from a lagging replica) and proposals that time out yet commit are not explored (inside dragonboat)")
	r.Assume("waits are 'poll until condition or generous deadline'; a missed deadline makes that schedule inconclusive (counted), never a verdict")
	_ = os.Getenv
}

// pausingLog wraps the leader's log client: the first replication stream opened through it delivers
// pauseAfter messages and then holds its next Recv until released (a slow or stalled stream).
type pausingLog struct {
	regattapb.LogClient
	pauseAfter int
	once       sync.Once
	paused     chan struct{} // closed when the stream is held
	release    chan struct{} // close to let it go on
	ended      chan struct{} // closed when the held stream has delivered its last answer
	streams    atomic.Int64
}

type pausingStream struct {
	regattapb.Log_ReplicateClient
	p *pausingLog
	n int
}

func (s *pausingStream) Recv() (*regattapb.ReplicateResponse, error) {
	if s.n == s.p.pauseAfter {
		s.p.once.Do(func() { close(s.p.paused) })
		<-s.p.release
	}
	s.n++
	m, err := s.Log_ReplicateClient.Recv()
	if err != nil {
		select {
		case <-s.p.ended:
		default:
			close(s.p.ended)
		}
	}
	return m, err
}

func (p *pausingLog) Replicate(ctx context.Context, in *regattapb.ReplicateRequest, opts ...grpc.CallOption) (regattapb.Log_ReplicateClient, error) {
	st, err := p.LogClient.Replicate(ctx, in, opts...)
	if err != nil || p.streams.Add(1) > 1 {
		return st, err // only the first stream is held
	}
	return &pausingStream{Log_ReplicateClient: st, p: p}, nil
}

// restartDuringPoll: the worker's own routines run (real Start); its first poll is held after
// pauseAfter messages; the worker is closed - Close may return whenever it likes - and a new worker
// for the same table catches up; then the held stream is let go. Whatever the old poll still does,
// every leader command takes effect on the follower exactly once: the follower's content equals the
// leader's at the follower's recorded index, which does not move backwards. The leader's history is
// a chain of compare-and-swap transactions, so a command applied twice shows.
func (p *pair) restartDuringPoll(pauseAfter int) (vs []viol, outcome string, inconclusive string) {
	name := fmt.Sprintf("rs%d", tableSeq.Add(1))
	for _, e := range []*engx.Engine{p.leader, p.follower} {
		if _, err := e.CreateTable(name); err != nil {
			return nil, "", "create: " + err.Error()
		}
		if err := e.WaitTable(name, 20*time.Second); err != nil {
			return nil, "", err.Error()
		}
	}
	defer func() {
		_ = p.leader.DeleteTable(name)
		_ = p.follower.DeleteTable(name)
	}()
	ctx := context.Background()
	contents := map[uint64]string{}
	var revs []uint64
	prev := ""
	for i := 1; i <= 12; i++ {
		cur := fmt.Sprintf("v-%d", i)
		cmp := Cmps(Cmp("cas", nil, regattapb.Compare_EQUAL, prev))
		if i == 1 {
			cmp = nil
		}
		c2, cancel := context.WithTimeout(ctx, 20*time.Second)
		res, err := p.leader.Txn(c2, &regattapb.TxnRequest{Table: []byte(name), Compare: cmp, Success: Ops(OpPut("cas", cur, false), OpPut(fmt.Sprintf("k%02d", i), strings.Repeat("x", 120), false)), Failure: Ops(OpPut("cas", fmt.Sprintf("lost-update-%d", i), false))})
		cancel()
		if err != nil {
			return nil, "", "leader txn: " + err.Error()
		}
		kvs, err := full(p.leader.Engine, name, true)
		if err != nil {
			return nil, "", "leader read: " + err.Error()
		}
		contents[res.Header.Revision] = fsmx.KVs(kvs)
		revs = append(revs, res.Header.Revision)
		prev = cur
	}
	conn := p.conns[300]
	pl := &pausingLog{LogClient: regattapb.NewLogClient(conn), pauseAfter: pauseAfter, paused: make(chan struct{}), release: make(chan struct{}), ended: make(chan struct{})}
	q := storage.NewNotificationQueue()
	go q.Run()
	defer q.Close()
	w1 := replication.VerifNewStartableWorkerWithClients(p.follower.Engine, name, q, pl, regattapb.NewSnapshotClient(conn), 100*time.Millisecond, 50*time.Millisecond, 120*time.Second)
	w1.Start()
	released := false
	letGo := func() {
		if !released {
			released = true
			close(pl.release)
		}
	}
	select {
	case <-pl.paused:
	case <-pl.ended:
		// fewer messages than pauseAfter: the stream ended on its own, nothing was held
		w1.Close()
		return nil, fmt.Sprintf("pause-after=%d stream-shorter", pauseAfter), ""
	case <-time.After(30 * time.Second):
		letGo()
		w1.Close()
		return nil, "", "the first poll did not start in 30s"
	}
	closeDone := make(chan struct{})
	go func() { w1.Close(); close(closeDone) }()
	early := false
	select {
	case <-closeDone:
		early = true // Close returned although the worker's poll is still in flight
	case <-time.After(1500 * time.Millisecond):
		letGo()
		select {
		case <-closeDone:
		case <-time.After(60 * time.Second):
			return nil, "", "Close did not return in 60s after the stream was let go"
		}
	}
	// the restarted worker catches up
	w2 := replication.VerifNewWorker(p.follower.Engine, name, regattapb.NewLogClient(conn), regattapb.NewSnapshotClient(conn), 30*time.Second, 60*time.Second)
	for i := 0; i < 40; i++ {
		res, err := w2.Poll()
		if res == replication.VerifFollowerTailing {
			break
		}
		if err != nil && res == replication.VerifUnknown {
			letGo()
			return nil, "", "poll: " + err.Error()
		}
	}
	liBefore, err := leaderIndexOf(p.follower.Engine, name, true)
	if err != nil {
		letGo()
		return nil, "", "follower index: " + err.Error()
	}
	if early {
		letGo()
		// the old poll (if it is still alive) goes on reading and proposing; it leaves its stream at
		// the first empty answer without reading to the end, so there is no end-of-stream to wait
		// for: give it a moment, then wait until the follower is quiet
		select {
		case <-pl.ended:
		case <-time.After(300 * time.Millisecond):
		}
		last, stable := uint64(0), 0
		for i := 0; i < 400 && stable < 25; i++ {
			time.Sleep(10 * time.Millisecond)
			t, err := p.follower.GetTable(name)
			if err != nil {
				continue
			}
			c2, cancel := context.WithTimeout(ctx, 5*time.Second)
			li, err := t.LocalIndex(c2, true)
			cancel()
			if err == nil && li.Index == last {
				stable++
			} else if err == nil {
				last, stable = li.Index, 0
			}
		}
	}
	liAfter, err := leaderIndexOf(p.follower.Engine, name, true)
	if err != nil {
		return nil, "", "follower index: " + err.Error()
	}
	kvs, err := full(p.follower.Engine, name, true)
	if err != nil {
		return nil, "", "follower read: " + err.Error()
	}
	if liAfter < liBefore {
		vs = append(vs, viol{"worker-restart-during-poll/follower-leader-index-moved-backwards", fmt.Sprintf("%d after %d (first poll held after %d messages, Close returned early: %v)", liAfter, liBefore, pauseAfter, early)})
	}
	best := uint64(0)
	for _, rv := range revs {
		if rv <= liAfter && rv > best {
			best = rv
		}
	}
	if got, want := fsmx.KVs(kvs), contents[best]; got != want {
		vs = append(vs, viol{"worker-restart-during-poll/follower-content-not-leader-content-at-recorded-index", fmt.Sprintf("first poll held after %d messages, Close returned while it was in flight: %v; recorded leader index %d: follower %s, leader had %s", pauseAfter, early, liAfter, trunc(got), trunc(want))})
	}
	return vs, fmt.Sprintf("pause-after=%d close-returned-early=%v li=%d", pauseAfter, early, liAfter), ""
}

func runRestartDuringPoll(r *evid.Run) {
	p, err := newPair(0, []uint64{300})
	if err != nil {
		r.Inconcl.Add(1)
		return
	}
	defer p.close()
	var outcomes []string
	for k := 1; k <= 6; k++ {
		if r.Expired() {
			r.Cap("deadline in the restart-during-poll part")
			return
		}
		vs, outcome, inc := p.restartDuringPoll(k)
		if inc != "" {
			r.Inconcl.Add(1)
			r.Extra("last_inconclusive", inc)
			continue
		}
		r.Outcome("restart-during-poll "+outcome, true)
		r.AddExtra("restart_during_poll_cases", 1)
		outcomes = append(outcomes, outcome)
		r.Extra("restart_during_poll_outcomes", outcomes)
		for _, v := range vs {
			r.Violate(v.sig, v.detail, map[string]any{"kind": "restart-during-poll", "pause_after": k})
		}
	}
}

func Replay(raw json.RawMessage) (string, bool) {
	var c Case
	if err := json.Unmarshal(raw, &c); err != nil {
		return err.Error(), false
	}
	p, err := newPair(c.Cache, []uint64{c.MsgLimit})
	if err != nil {
		return err.Error(), false
	}
	defer p.close()
	vs, outcome, inc := p.run(c)
	var sb strings.Builder
	fmt.Fprintf(&sb, "outcome: %s inconclusive: %s\n", outcome, inc)
	for _, v := range vs {
		fmt.Fprintf(&sb, "%s: %s\n", v.sig, v.detail)
	}
	return sb.String(), len(vs) == 0
}
