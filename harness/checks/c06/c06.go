// Package c06: the replication log stream is exact. Explicit-state search over (log, compaction
// marker, applied index, cache run, capacity) where every transition calls the real readers / the
// real LogServer.Replicate over a small model of dragonboat's ReadonlyLogReader.
package c06

import (
	"context"
	"encoding/json"
	"errors"
	"fmt"
	"strings"
	"time"

	"github.com/jamf/regatta/regattapb"
	"github.com/jamf/regatta/regattaserver"
	"github.com/jamf/regatta/storage"
	serrors "github.com/jamf/regatta/storage/errors"
	"github.com/jamf/regatta/storage/logreader"
	"github.com/jamf/regatta/storage/table"
	"github.com/jamf/regatta/storage/table/fsm"
	"github.com/lni/dragonboat/v4"
	"github.com/lni/dragonboat/v4/client"
	"github.com/lni/dragonboat/v4/raftio"
	"github.com/lni/dragonboat/v4/raftpb"
	sm "github.com/lni/dragonboat/v4/statemachine"
	"go.uber.org/zap"
	"google.golang.org/grpc"

	. "verif/harness/cmdx"
	"verif/harness/engx"
	"verif/harness/evid"
	"verif/harness/par"
)

const shardID = 10001

// entry types of the model log
const (
	tSmall = iota
	tLarge
	tConfig
	tEmpty
	nTypes
)

var typeName = []string{"encoded-small(payload carries another leader index)", "encoded-large", "config-change", "empty-application"}

func mkEntry(index uint64, t int) raftpb.Entry {
	e := raftpb.Entry{Index: index, Term: 1}
	switch t {
	case tSmall:
		// the payload carries a leader index of its own, as every entry of a follower's log does (a
		// follower that later serves its log, a table loaded from a replication snapshot or reset)
		b, _ := WithLeader(Put(fmt.Sprintf("k%d", index), "v", false), 5000+index).MarshalVT()
		e.Type = raftpb.EncodedEntry
		e.Cmd = append([]byte{0}, b...)
	case tLarge:
		b, _ := Put(fmt.Sprintf("k%d", index), strings.Repeat("L", 400), true).MarshalVT()
		e.Type = raftpb.EncodedEntry
		e.Cmd = append([]byte{0}, b...)
	case tConfig:
		e.Type = raftpb.ConfigChangeEntry
		e.Cmd = []byte("cc")
	case tEmpty:
		e.Type = raftpb.ApplicationEntry
	}
	return e
}

// fakeLog models dragonboat's LogReader: GetRange = (marker+1, last); Entries(low, high, max) =
// error at or below the marker / beyond last+1, otherwise the maximal prefix whose cumulative
// SizeUpperLimit stays <= max but at least one entry (as LogReader.Entries does).
type fakeLog struct {
	types  []int // entry i+1 has type types[i]
	marker uint64
}

func (l *fakeLog) last() uint64 { return uint64(len(l.types)) }

func (l *fakeLog) GetLogReader(uint64) (dragonboat.ReadonlyLogReader, error) { return l, nil }
func (l *fakeLog) GetRange() (uint64, uint64)                                { return l.marker + 1, l.last() }
func (l *fakeLog) NodeState() (raftpb.State, raftpb.Membership) {
	return raftpb.State{}, raftpb.Membership{}
}
func (l *fakeLog) Term(uint64) (uint64, error) { return 1, nil }
func (l *fakeLog) Snapshot() raftpb.Snapshot   { return raftpb.Snapshot{Index: l.marker} }

var errCompacted = errors.New("entry compacted")
var errUnavailable = errors.New("entry unavailable")

func (l *fakeLog) Entries(low, high, maxSize uint64) ([]raftpb.Entry, error) {
	return modelEntries(func(i uint64) raftpb.Entry { return mkEntry(i, l.types[i-1]) }, l.last(), l.marker, low, high, maxSize)
}

// modelEntries is the model of dragonboat's LogReader.Entries over any entry source.
func modelEntries(get func(i uint64) raftpb.Entry, last, marker, low, high, maxSize uint64) ([]raftpb.Entry, error) {
	if low > high {
		return nil, fmt.Errorf("high (%d) < low (%d)", high, low)
	}
	if low <= marker {
		return nil, errCompacted
	}
	if high > last+1 {
		return nil, errUnavailable
	}
	var out []raftpb.Entry
	size := uint64(0)
	for i := low; i < high; i++ {
		e := get(i)
		size += uint64(e.SizeUpperLimit())
		out = append(out, e)
		if size > maxSize {
			break
		}
	}
	if size > maxSize && len(out) > 1 {
		out = out[:len(out)-1]
	}
	return out, nil
}

// fakeHost answers LocalIndex for ActiveTable.
type fakeHost struct{ applied *uint64 }

func (h fakeHost) SyncRead(_ context.Context, _ uint64, req interface{}) (interface{}, error) {
	return h.StaleRead(0, req)
}
func (h fakeHost) StaleRead(_ uint64, req interface{}) (interface{}, error) {
	if _, ok := req.(fsm.LocalIndexRequest); ok {
		return &fsm.IndexResponse{Index: *h.applied}, nil
	}
	return nil, errors.New("unexpected query")
}
func (h fakeHost) SyncPropose(context.Context, *client.Session, []byte) (sm.Result, error) {
	return sm.Result{}, errors.New("no proposals")
}
func (h fakeHost) GetNoOPSession(id uint64) *client.Session { return &client.Session{ShardID: id} }

type fakeTables struct {
	regattaserver.TableService
	host fakeHost
}

func (t fakeTables) GetTable(name string) (table.ActiveTable, error) {
	if name != "t" {
		return table.ActiveTable{}, serrors.ErrTableNotFound
	}
	return table.Table{Name: "t", ClusterID: shardID}.AsActive(t.host), nil
}

type recStream struct {
	grpc.ServerStream
	msgs []*regattapb.ReplicateResponse
}

func (s *recStream) Context() context.Context { return context.Background() }
func (s *recStream) Send(m *regattapb.ReplicateResponse) error {
	b, _ := m.MarshalVT()
	cp := &regattapb.ReplicateResponse{}
	_ = cp.UnmarshalVT(b)
	s.msgs = append(s.msgs, cp)
	return nil
}

// world is one concrete state.
type world struct {
	log      *fakeLog
	applied  uint64
	capacity int
	cache    *logreader.ShardCache
	simple   *logreader.Simple
	cached   *logreader.Cached
}

type event struct {
	Kind  string `json:"kind"` // append | apply | compact | query | replicate
	T     int    `json:"t,omitempty"`
	J     uint64 `json:"j,omitempty"`
	First uint64 `json:"first,omitempty"`
	Max   uint64 `json:"max,omitempty"`
}

func (e event) String() string {
	switch e.Kind {
	case "append":
		return "append(" + typeName[e.T] + ")"
	case "apply":
		return "apply"
	case "compact":
		return fmt.Sprintf("compact-to(%d)", e.J)
	case "query":
		return fmt.Sprintf("cached-query(first=%d,max=%d)", e.First, e.Max)
	}
	return fmt.Sprintf("cached-replicate(first=%d,max=%d)", e.First, e.Max)
}

func newWorld(capacity int) *world {
	w := &world{log: &fakeLog{}, capacity: capacity}
	w.cache = logreader.NewShardCache(capacity)
	w.simple = &logreader.Simple{LogQuerier: w.log}
	w.cached = &logreader.Cached{LogQuerier: w.log, ShardCache: w.cache}
	return w
}

func (w *world) key() string {
	return fmt.Sprintf("%v|m%d|a%d|c%v", w.log.types, w.log.marker, w.applied, w.cache.VerifIndices(shardID))
}

type viol struct{ sig, detail string }

func entriesStr(es []raftpb.Entry) string {
	var s []string
	for _, e := range es {
		s = append(s, fmt.Sprint(e.Index))
	}
	return "[" + strings.Join(s, ",") + "]"
}

// checkQuery validates one QueryRaftLog answer against the oracle.
func (w *world) checkQuery(which string, first, max uint64, got []raftpb.Entry, err error) []viol {
	tag := which + "/"
	a := w.applied
	switch {
	case first == a+1:
		if err != nil || len(got) != 0 {
			return []viol{{tag + "empty-range-not-empty-answer", fmt.Sprintf("first=%d: %s err=%v", first, entriesStr(got), err)}}
		}
		return nil
	case first <= w.log.marker:
		if !errors.Is(err, serrors.ErrLogAhead) {
			return []viol{{tag + "compacted-index-not-answered-with-log-ahead", fmt.Sprintf("first=%d marker=%d: %s err=%v", first, w.log.marker, entriesStr(got), err)}}
		}
		return nil
	}
	if err != nil {
		return []viol{{tag + "unexpected-error", fmt.Sprintf("first=%d max=%d: %v", first, max, err)}}
	}
	if len(got) == 0 {
		return []viol{{tag + "non-empty-range-yields-no-entry", fmt.Sprintf("first=%d max=%d applied=%d", first, max, a)}}
	}
	for i, e := range got {
		want := first + uint64(i)
		if e.Index != want {
			sig := "gap-or-repeat"
			if i == 0 {
				sig = "does-not-start-at-requested-index"
			}
			return []viol{{tag + sig, fmt.Sprintf("first=%d max=%d: %s", first, max, entriesStr(got))}}
		}
		if e.Index > a {
			return []viol{{tag + "entry-beyond-applied-index", fmt.Sprintf("first=%d applied=%d: %s", first, a, entriesStr(got))}}
		}
		ref := mkEntry(e.Index, w.log.types[e.Index-1])
		if e.Type != ref.Type || string(e.Cmd) != string(ref.Cmd) {
			return []viol{{tag + "entry-content-differs-from-log", fmt.Sprintf("index %d", e.Index)}}
		}
	}
	return nil
}

// checkReplicate validates the recorded stream of one Replicate call.
func (w *world) checkReplicate(which string, first, max uint64, msgs []*regattapb.ReplicateResponse, err error) []viol {
	tag := which + "/"
	a := w.applied
	if err != nil {
		return []viol{{tag + "replicate-error", fmt.Sprintf("first=%d: %v", first, err)}}
	}
	isErr := func(m *regattapb.ReplicateResponse, e regattapb.ReplicateError) bool {
		r, ok := m.Response.(*regattapb.ReplicateResponse_ErrorResponse)
		return ok && r.ErrorResponse.Error == e
	}
	switch {
	case first > a+1:
		if len(msgs) != 1 || !isErr(msgs[0], regattapb.ReplicateError_LEADER_BEHIND) {
			return []viol{{tag + "beyond-applied+1-not-leader-behind", fmt.Sprintf("first=%d applied=%d msgs=%d", first, a, len(msgs))}}
		}
		return nil
	case first == a+1:
		if len(msgs) != 1 || msgs[0].Response != nil || msgs[0].LeaderIndex != a {
			return []viol{{tag + "at-applied+1-not-empty-batch-with-applied-index", fmt.Sprintf("first=%d applied=%d msgs=%v", first, a, msgs)}}
		}
		return nil
	case first <= w.log.marker:
		if len(msgs) != 1 || !isErr(msgs[0], regattapb.ReplicateError_USE_SNAPSHOT) {
			return []viol{{tag + "compacted-index-not-use-snapshot", fmt.Sprintf("first=%d marker=%d msgs=%v", first, w.log.marker, msgs)}}
		}
		return nil
	}
	next := first
	closed := false
	for i, m := range msgs {
		if closed {
			return []viol{{tag + "message-after-closing-message", fmt.Sprintf("first=%d message %d", first, i)}}
		}
		switch r := m.Response.(type) {
		case *regattapb.ReplicateResponse_CommandsResponse:
			if len(r.CommandsResponse.Commands) == 0 {
				return []viol{{tag + "empty-commands-message", fmt.Sprintf("first=%d message %d", first, i)}}
			}
			for _, c := range r.CommandsResponse.Commands {
				if c.LeaderIndex != next {
					sig := "gap-or-repeat-in-stream"
					if next == first {
						sig = "stream-does-not-start-at-requested-index"
					}
					return []viol{{tag + sig, fmt.Sprintf("first=%d: command labelled %d, expected %d", first, c.LeaderIndex, next)}}
				}
				if next > a {
					return []viol{{tag + "command-beyond-applied-index", fmt.Sprintf("index %d applied %d", next, a)}}
				}
				if c.Command.LeaderIndex == nil || *c.Command.LeaderIndex != next {
					return []viol{{tag + "command-not-labelled-with-own-index", fmt.Sprintf("index %d: %v", next, c.Command.LeaderIndex)}}
				}
				t := w.log.types[next-1]
				switch t {
				case tSmall, tLarge:
					ref := &regattapb.Command{}
					_ = ref.UnmarshalVT(mkEntry(next, t).Cmd[1:])
					ref.LeaderIndex = c.Command.LeaderIndex
					rb, _ := ref.MarshalVT()
					cb, _ := c.Command.MarshalVT()
					if string(rb) != string(cb) {
						return []viol{{tag + "command-differs-from-log-entry", fmt.Sprintf("index %d", next)}}
					}
				default:
					if c.Command.Type != regattapb.Command_DUMMY || c.Command.Kv != nil {
						return []viol{{tag + "non-application-entry-not-dummy", fmt.Sprintf("index %d type %s -> %s", next, typeName[t], c.Command.Type)}}
					}
				}
				next++
			}
		case nil:
			closed = true
			if m.LeaderIndex != a {
				return []viol{{tag + "closing-message-wrong-applied-index", fmt.Sprintf("%d want %d", m.LeaderIndex, a)}}
			}
		default:
			return []viol{{tag + "unexpected-error-message", fmt.Sprintf("first=%d: %v", first, m)}}
		}
	}
	if next != a+1 {
		return []viol{{tag + "stream-ends-before-applied-index", fmt.Sprintf("first=%d max=%d: streamed up to %d, applied %d (closed=%v)", first, max, next-1, a, closed)}}
	}
	if !closed {
		return []viol{{tag + "no-closing-message", fmt.Sprintf("first=%d", first)}}
	}
	return nil
}

func (w *world) replicate(cached bool, first, max uint64) ([]*regattapb.ReplicateResponse, error) {
	var lr regattaserver.LogReaderService = w.simple
	if cached {
		lr = w.cached
	}
	srv := regattaserver.NewLogServer(fakeTables{host: fakeHost{&w.applied}}, lr, zap.NewNop(), max)
	st := &recStream{}
	err := srv.Replicate(&regattapb.ReplicateRequest{Table: []byte("t"), LeaderIndex: first}, st)
	return st.msgs, err
}

// apply executes one event (mutating ones) and returns violations found by it.
func (w *world) apply(e event) []viol {
	switch e.Kind {
	case "append":
		w.log.types = append(w.log.types, e.T)
	case "apply":
		w.applied++
	case "compact":
		w.log.marker = e.J
		// the engine's own handling of dragonboat's LogCompacted system event (Index = the last entry
		// removed), through its listener and dispatcher
		// published while two other system events of the shard are still queued (dragonboat reports
		// them from its own goroutines; the engine's event channel has one slot)
		storage.VerifDeliverLogCompactedAfter(w.cache, 1, raftio.EntryInfo{ShardID: shardID, ReplicaID: 1, Index: e.J}, 2)
	case "query":
		got, err := w.cached.QueryRaftLog(context.Background(), shardID, dragonboat.LogRange{FirstIndex: e.First, LastIndex: w.applied + 1}, e.Max)
		return w.checkQuery("cached-reader", e.First, e.Max, got, err)
	case "replicate":
		msgs, err := w.replicate(true, e.First, e.Max)
		return w.checkReplicate("cached-server", e.First, e.Max, msgs, err)
	}
	return nil
}

func sizes() []uint64 {
	s := uint64((&raftpb.Entry{}).SizeUpperLimit())
	small := mkEntry(1, tSmall)
	one := uint64(small.SizeUpperLimit())
	_ = s
	return []uint64{1, one, 2*one + 1, 1 << 30}
}

// stateChecks runs all non-mutating checks in a state (uncached reader and server).
func (w *world) stateChecks() []viol {
	var vs []viol
	for _, max := range sizes() {
		for first := uint64(1); first <= w.applied+1; first++ {
			got, err := w.simple.QueryRaftLog(context.Background(), shardID, dragonboat.LogRange{FirstIndex: first, LastIndex: w.applied + 1}, max)
			vs = append(vs, w.checkQuery("simple-reader", first, max, got, err)...)
		}
		for first := uint64(1); first <= w.applied+2; first++ {
			msgs, err := w.replicate(false, first, max)
			vs = append(vs, w.checkReplicate("uncached-server", first, max, msgs, err)...)
		}
	}
	return vs
}

func (w *world) events(maxN int) []event {
	var evs []event
	if len(w.log.types) < maxN {
		for t := 0; t < nTypes; t++ {
			evs = append(evs, event{Kind: "append", T: t})
		}
	}
	if w.applied < w.log.last() {
		evs = append(evs, event{Kind: "apply"})
	}
	for j := w.log.marker + 1; j <= w.applied; j++ {
		evs = append(evs, event{Kind: "compact", J: j})
	}
	for _, max := range sizes() {
		for first := uint64(1); first <= w.applied+1; first++ {
			evs = append(evs, event{Kind: "query", First: first, Max: max})
		}
		for first := uint64(1); first <= w.applied+2; first++ {
			evs = append(evs, event{Kind: "replicate", First: first, Max: max})
		}
	}
	return evs
}

func build(capacity int, path []event) *world {
	w := newWorld(capacity)
	for _, e := range path {
		w.apply(e)
	}
	return w
}

type Case struct {
	Capacity int      `json:"capacity"`
	Path     []event  `json:"path"`
	Desc     []string `json:"desc,omitempty"`
}

func desc(p []event) []string {
	var d []string
	for _, e := range p {
		d = append(d, e.String())
	}
	return d
}

// explore runs BFS for one cache capacity.
func explore(r *evid.Run, capacity, maxN, depth int, initial []event, seen map[string]bool) {
	type node struct{ path []event }
	w0 := build(capacity, initial)
	if seen[w0.key()] {
		return
	}
	seen[w0.key()] = true
	frontier := []node{{initial}}
	var states, transitions int64 = 1, 0
	for d := 0; d < depth && len(frontier) > 0; d++ {
		if r.Expired() {
			r.Cap(fmt.Sprintf("deadline at BFS depth %d (capacity %d)", d, capacity))
			break
		}
		type res struct {
			next []node
			keys []string
		}
		results := make([]res, len(frontier))
		par.For(int64(len(frontier)), nil, func(i int64) {
			nd := frontier[i]
			base := build(capacity, nd.path)
			for _, e := range base.events(maxN) {
				w := build(capacity, nd.path)
				vs := w.apply(e)
				path := append(append([]event(nil), nd.path...), e)
				if len(vs) == 0 && (e.Kind == "append" || e.Kind == "apply" || e.Kind == "compact") {
					// a structural change: run all non-mutating checks in the new state
					vs = w.stateChecks()
				}
				for _, v := range vs {
					r.Violate(v.sig, v.detail+" after "+strings.Join(desc(path), " -> "), Case{Capacity: capacity, Path: path, Desc: desc(path)})
				}
				results[i].next = append(results[i].next, node{path})
				results[i].keys = append(results[i].keys, w.key())
			}
		})
		var next []node
		for _, rs := range results {
			for j, k := range rs.keys {
				transitions++
				if !seen[k] {
					seen[k] = true
					states++
					next = append(next, rs.next[j])
				}
			}
		}
		frontier = next
	}
	r.States.Add(states)
	r.Transitions.Add(transitions)
	r.Validated.Add(transitions)
	r.Part(map[string]any{"scenario": fmt.Sprintf("cache capacity %d, log length <= %d, BFS depth %d from initial state %v", capacity, maxN, depth, desc(initial)), "states": states, "transitions": transitions, "unexpanded_frontier": len(frontier)})
	if len(frontier) > 0 {
		r.AddExtra(fmt.Sprintf("capacity%d_frontier_left_at_depth_bounds", capacity), int64(len(frontier)))
	}
}

func Run(r *evid.Run) {
	r.Check = "c06"
	maxN, depth, caps := 5, 8, []int{1, 2, 3}
	if r.Thorough() {
		maxN, depth, caps = 6, 10, []int{1, 2, 3, 8}
	}
	r.Rule(fmt.Sprintf("state = (log entries 1..n each of a type from {encoded small whose payload carries a leader index of its own, encoded large, config-change, empty application}, compaction marker, applied index, the cache's index run, cache capacity); transitions = append, apply, compact-to-j (the LogCompacted system event delivered through the engine's real listener and dispatcher, published while the one-slot event channel is full), and for every first in 1..applied+1(+2) and maxSize in {1, one small entry, two small entries+1, unlimited} a query through the real Cached reader / the real LogServer.Replicate over it (these mutate the cache); in every new structural state all queries through the real Simple reader and an uncached LogServer are checked too. BFS to depth %d from the empty log and to depth-2 from non-initial states (4 small entries applied; small/large/config/empty applied; large/small/small applied), n <= %d, capacities %v, visited set on the complete tuple (cache run via hook dump). The Raft log is a model of dragonboat's LogReader (GetRange/Entries incl. size cut and at-least-one rule)", depth, maxN, caps))
	// BFS from the empty log and from non-initial states (logs already appended and applied), sharing
	// one visited set per capacity
	pre := func(types ...int) []event {
		var p []event
		for _, t := range types {
			p = append(p, event{Kind: "append", T: t})
		}
		for range types {
			p = append(p, event{Kind: "apply"})
		}
		return p
	}
	initials := [][]event{nil, pre(tSmall, tSmall, tSmall, tSmall), pre(tSmall, tLarge, tConfig, tEmpty), pre(tLarge, tSmall, tSmall)}
	if r.Thorough() {
		initials = append(initials, pre(tSmall, tSmall, tSmall, tSmall, tSmall), pre(tLarge, tLarge, tSmall, tSmall, tLarge))
	}
	for _, c := range caps {
		seen := map[string]bool{}
		for i, ini := range initials {
			d := depth
			if i > 0 {
				d = depth - 2
			}
			explore(r, c, maxN, d, ini, seen)
		}
	}
	runConformance(r)
	ex := []event{{Kind: "append", T: tLarge}, {Kind: "append", T: tSmall}, {Kind: "apply"}, {Kind: "apply"}, {Kind: "query", First: 1, Max: 1 << 30}, {Kind: "replicate", First: 1, Max: 1}}
	r.Sample(Case{Capacity: 2, Path: ex, Desc: desc(ex)})
	r.Assume("the end of a queried range is always applied+1 at call time (as the server computes it) and the applied index only grows")
	r.Assume("log compaction clears the shard cache atomically (the engine does it from the LogCompacted event); a stale cache between compaction and the event is not modelled")
	r.Assume("fake log = model of dragonboat LogReader.Entries/GetRange; conformance: on real logs of 1..4 (thorough 6) client entries, before and after real snapshot+compaction keeping 0/1/2 entries, every (low, high, maxSize) query is asked of the model and of dragonboat's LogReader and the answers compared (traces_validated_against_impl adds these queries to the BFS transitions, which all run the real readers/server)")
}

func Replay(raw json.RawMessage) (string, bool) {
	var c Case
	if err := json.Unmarshal(raw, &c); err != nil {
		return err.Error(), false
	}
	w := newWorld(c.Capacity)
	var sb strings.Builder
	ok := true
	for _, e := range c.Path {
		vs := w.apply(e)
		if e.Kind == "append" || e.Kind == "apply" || e.Kind == "compact" {
			vs = append(vs, w.stateChecks()...)
		}
		for _, v := range vs {
			fmt.Fprintf(&sb, "%s: %s: %s\n", e, v.sig, v.detail)
			ok = false
		}
	}
	return sb.String(), ok
}

// runConformance compares the model of the Raft log reader with dragonboat's real LogReader on real
// logs: for logs of n = 1..N client entries (plus Raft's own entries), before and after a real
// snapshot + log compaction, every (low, high, maxSize) is asked of both.
func runConformance(r *evid.Run) {
	eng, err := engx.Start(engx.Opts{})
	if err != nil {
		r.Inconcl.Add(1)
		r.Extra("conformance", "engine did not start: "+err.Error())
		return
	}
	defer eng.Close()
	maxN := 4
	if r.Thorough() {
		maxN = 6
	}
	compared := int64(0)
	for n := 1; n <= maxN; n++ {
		for _, keep := range []int{-1, 0, 1, 2} { // -1: no compaction
			name := fmt.Sprintf("lc%d-%d", n, keep+1)
			if _, err := eng.CreateTable(name); err != nil {
				r.Inconcl.Add(1)
				continue
			}
			if eng.WaitTable(name, 20*time.Second) != nil {
				r.Inconcl.Add(1)
				continue
			}
			at, _ := eng.GetTable(name)
			ctx, cancel := context.WithTimeout(context.Background(), 30*time.Second)
			for i := 0; i < n; i++ {
				val := "v"
				if i%2 == 1 {
					val = strings.Repeat("L", 400)
				}
				if _, err := eng.Put(ctx, &regattapb.PutRequest{Table: []byte(name), Key: []byte(fmt.Sprintf("k%d", i)), Value: []byte(val)}); err != nil {
					r.Inconcl.Add(1)
				}
			}
			lr, err := eng.NodeHost.GetLogReader(at.ClusterID)
			if err != nil {
				cancel()
				r.Inconcl.Add(1)
				continue
			}
			first, last := lr.GetRange()
			all, err := lr.Entries(first, last+1, 1<<30)
			if err != nil || uint64(len(all)) != last-first+1 {
				cancel()
				r.Inconcl.Add(1)
				continue
			}
			if keep >= 0 {
				if _, err := eng.NodeHost.SyncRequestSnapshot(ctx, at.ClusterID, dragonboat.SnapshotOption{OverrideCompactionOverhead: true, CompactionOverhead: uint64(keep)}); err != nil {
					cancel()
					r.Inconcl.Add(1)
					continue
				}
				deadline := time.Now().Add(10 * time.Second)
				for time.Now().Before(deadline) {
					f2, _ := lr.GetRange()
					if f2 > first {
						break
					}
					time.Sleep(2 * time.Millisecond)
				}
			}
			cancel()
			f2, l2 := lr.GetRange()
			marker := f2 - 1
			get := func(i uint64) raftpb.Entry { return all[i-first] }
			if mf, ml := marker+1, last; mf != f2 || ml != l2 {
				r.Violate("conformance/GetRange-differs", fmt.Sprintf("model (%d,%d) real (%d,%d)", mf, ml, f2, l2), nil)
			}
			one := uint64(all[len(all)-1].SizeUpperLimit())
			for low := uint64(1); low <= last+2; low++ {
				for high := low; high <= last+2; high++ {
					for _, max := range []uint64{0, 1, one, 2*one + 1, 1 << 30} {
						if low < first {
							continue // below what the model knows (entries compacted before this harness looked)
						}
						me, merr := modelEntries(get, last, marker, low, high, max)
						re, rerr := lr.Entries(low, high, max)
						compared++
						if (merr == nil) != (rerr == nil) || entriesStr(me) != entriesStr(re) {
							r.Violate("conformance/log-reader-model-differs-from-dragonboat", fmt.Sprintf("log [%d,%d] marker %d: Entries(%d,%d,%d): model %s err %v, real %s err %v", first, last, marker, low, high, max, entriesStr(me), merr, entriesStr(re), rerr), map[string]any{"kind": "conformance", "n": n, "keep": keep})
						}
					}
				}
			}
			_ = eng.DeleteTable(name)
		}
	}
	r.Validated.Add(compared)
	r.Extra("conformance_queries_compared_with_real_log_reader", compared)
}
