// Package c09: range reads are sorted, bounded, truthful about 'more', and page losslessly.
package c09

import (
	"bytes"
	"context"
	"encoding/json"
	"fmt"
	"strings"
	"sync/atomic"
	"time"

	"github.com/jamf/regatta/regattapb"
	"github.com/jamf/regatta/regattaserver"
	"github.com/jamf/regatta/storage/table/fsm"
	"github.com/jamf/regatta/util/iter"
	sm "github.com/lni/dragonboat/v4/statemachine"
	"google.golang.org/grpc"

	. "verif/harness/cmdx"
	"verif/harness/engx"
	"verif/harness/evid"
	"verif/harness/fsmx"
	"verif/harness/par"
	"verif/harness/refkv"
)

const grpcLimit = 4 * 1024 * 1024

var keys6 = []string{"a", "ab", "ac", "b", "ba", "c"}
var bounds = []string{"\x00", "a", "a\x00", "ab", "ac", "b", "ba", "bb", "c", "d"}

type Case struct {
	Kind    string `json:"kind"` // small | sized | paging
	Mask    int    `json:"mask,omitempty"`
	Sizes   []int  `json:"sizes,omitempty"`
	Detail  string `json:"detail,omitempty"`
	WriteAt int    `json:"write_at,omitempty"`
}

type viol struct{ sig, detail string }

func form(req *regattapb.RequestOp_Range) string {
	f := "full"
	if req.KeysOnly {
		f = "keys-only"
	} else if req.CountOnly {
		f = "count-only"
	}
	return f
}

// checkUnary compares a unary read with the model when no size cut can occur.
func checkUnary(inst *fsmx.Inst, m *refkv.Model, req *regattapb.RequestOp_Range, vs *[]viol, sb *strings.Builder) {
	got, err := inst.Range(req)
	if err != nil {
		*vs = append(*vs, viol{"read-error", fmt.Sprintf("%s: %v", fsmx.RangeReqStr(req), err)})
		return
	}
	want := m.Range(req)
	g, w := fsmx.RangeStr(got), fsmx.RangeStr(want)
	if g != w {
		what := "content"
		if fsmx.KVs(got.Kvs) == fsmx.KVs(want.Kvs) && got.Count == want.Count {
			what = "more-flag"
		} else if fsmx.KVs(got.Kvs) == fsmx.KVs(want.Kvs) {
			what = "count"
		}
		*vs = append(*vs, viol{"read-mismatch/" + what + "/" + form(req) + limTag(req), fmt.Sprintf("%s: got %s want %s", fsmx.RangeReqStr(req), g, w)})
	}
	sb.WriteString(g)
}

func limTag(req *regattapb.RequestOp_Range) string {
	if req.Limit > 0 {
		return "+limit/range"
	}
	return "/range"
}

// checkStream compares the streamed read with the model: concatenation, flags, counts, sizes.
func checkStream(inst *fsmx.Inst, m *refkv.Model, req *regattapb.RequestOp_Range, vs *[]viol, sb *strings.Builder) int {
	chunks, err := inst.Iterate(req)
	if err != nil {
		*vs = append(*vs, viol{"stream-error", fmt.Sprintf("%s: %v", fsmx.RangeReqStr(req), err)})
		return 0
	}
	want := m.Range(req)
	if len(chunks) == 0 {
		*vs = append(*vs, viol{"stream-no-message", fsmx.RangeReqStr(req)})
		return 0
	}
	var all []*regattapb.KeyValue
	var count int64
	for i, c := range chunks {
		all = append(all, c.Kvs...)
		count += c.Count
		last := i == len(chunks)-1
		if !last && !c.More {
			*vs = append(*vs, viol{"stream-more-missing-on-inner-message/" + form(req), fmt.Sprintf("%s: message %d of %d not flagged more", fsmx.RangeReqStr(req), i, len(chunks))})
		}
		if last && c.More != want.More {
			*vs = append(*vs, viol{"stream-last-more-flag/" + form(req), fmt.Sprintf("%s: last message more=%v want %v", fsmx.RangeReqStr(req), c.More, want.More)})
		}
		if !req.CountOnly && c.Count != int64(len(c.Kvs)) {
			*vs = append(*vs, viol{"stream-count/" + form(req), fmt.Sprintf("%s: message %d count=%d kvs=%d", fsmx.RangeReqStr(req), i, c.Count, len(c.Kvs))})
		}
		if sz := encodedSize(c); sz >= grpcLimit {
			*vs = append(*vs, viol{"stream-message-too-large/" + form(req), fmt.Sprintf("%s: message %d encodes to %d bytes", fsmx.RangeReqStr(req), i, sz)})
		}
		if !last && len(c.Kvs) == 0 && !req.CountOnly {
			*vs = append(*vs, viol{"stream-empty-inner-message/" + form(req), fmt.Sprintf("%s: message %d empty", fsmx.RangeReqStr(req), i)})
		}
	}
	if !fsmx.EqualKVs(all, want.Kvs) {
		*vs = append(*vs, viol{"stream-content/" + form(req) + limTag(req), fmt.Sprintf("%s: concatenation %s want %s", fsmx.RangeReqStr(req), fsmx.KVs(all), fsmx.KVs(want.Kvs))})
	}
	if count != want.Count {
		*vs = append(*vs, viol{"stream-total-count/" + form(req) + limTag(req), fmt.Sprintf("%s: total count %d want %d", fsmx.RangeReqStr(req), count, want.Count)})
	}
	fmt.Fprintf(sb, "s%d:%d;", len(chunks), count)
	return len(chunks)
}

// encodedSize is the wire size of the message as a RangeResponse with a maximal header.
func encodedSize(c *regattapb.ResponseOp_Range) int {
	r := &regattapb.RangeResponse{
		Header: &regattapb.ResponseHeader{ShardId: ^uint64(0), ReplicaId: ^uint64(0), Revision: ^uint64(0), RaftTerm: ^uint64(0), RaftLeaderId: ^uint64(0)},
		Kvs:    c.Kvs, More: c.More, Count: c.Count,
	}
	return r.SizeVT()
}

func fill(inst *fsmx.Inst, m *refkv.Model, idx uint64, kvs ...*regattapb.KeyValue) error {
	if len(kvs) == 0 {
		return nil
	}
	cmd := &regattapb.Command{Table: Table, Type: regattapb.Command_PUT_BATCH, Batch: kvs}
	if _, err := inst.Update([]sm.Entry{fsmx.Entry(idx, cmd)}); err != nil {
		return err
	}
	m.Apply(idx, cmd)
	return nil
}

// RunSmall: one content (subset of 6 keys), all bounds, limits, forms.
func RunSmall(c Case) (vs []viol, outcome string, evals int64) {
	env := fsmx.NewEnv()
	inst, _, err := env.Open("t", 10001, fsm.RecoveryTypeSnapshot)
	if err != nil {
		return []viol{{"open-error", err.Error()}}, "", 0
	}
	defer inst.Close()
	m := refkv.New()
	var kvs []*regattapb.KeyValue
	n := 0
	for i, k := range keys6 {
		if c.Mask&(1<<i) != 0 {
			kvs = append(kvs, &regattapb.KeyValue{Key: B(k), Value: B(fmt.Sprintf("v%d", i%3))})
			n++
		}
	}
	if err := fill(inst, m, 1, kvs...); err != nil {
		return []viol{{"update-error", err.Error()}}, "", 0
	}
	var sb strings.Builder
	for _, lo := range bounds {
		for _, hi := range bounds {
			for limit := 0; limit <= n+1; limit++ {
				for f := 0; f < 3; f++ {
					req := &regattapb.RequestOp_Range{Key: B(lo), RangeEnd: B(hi), Limit: int64(limit), KeysOnly: f == 1, CountOnly: f == 2}
					checkUnary(inst, m, req, &vs, &sb)
					checkStream(inst, m, req, &vs, &sb)
					evals += 2
				}
			}
		}
	}
	return vs, sb.String(), evals
}

var sizeClasses = []int{1024, 1 << 20, 2<<20 - 1024, 2 << 20}

func sizedContent(sizes []int) []*regattapb.KeyValue {
	var kvs []*regattapb.KeyValue
	for i, s := range sizes {
		v := bytes.Repeat([]byte{byte('A' + i)}, s)
		kvs = append(kvs, &regattapb.KeyValue{Key: B(fmt.Sprintf("k%d", i)), Value: v})
	}
	return kvs
}

// RunSized: content with big values; stream and unary reads for all limits and forms.
func RunSized(c Case) (vs []viol, outcome string, evals int64, multi int) {
	env := fsmx.NewEnv()
	inst, _, err := env.Open("t", 10001, fsm.RecoveryTypeSnapshot)
	if err != nil {
		return []viol{{"open-error", err.Error()}}, "", 0, 0
	}
	defer inst.Close()
	m := refkv.New()
	kvs := sizedContent(c.Sizes)
	for i, kv := range kvs { // one entry each: a 2 MiB value is the per-request maximum
		if err := fill(inst, m, uint64(i+1), kv); err != nil {
			return []viol{{"update-error", err.Error()}}, "", 0, 0
		}
	}
	var sb strings.Builder
	n := len(kvs)
	for limit := 0; limit <= n+1; limit++ {
		for f := 0; f < 3; f++ {
			req := &regattapb.RequestOp_Range{Key: B("k"), RangeEnd: []byte{0}, Limit: int64(limit), KeysOnly: f == 1, CountOnly: f == 2}
			if checkStream(inst, m, req, &vs, &sb) > 1 {
				multi++
			}
			evals++
			// Unary: a prefix of the matches, truthful about 'more'.
			got, err := inst.Range(req)
			evals++
			if err != nil {
				vs = append(vs, viol{"read-error", err.Error()})
				continue
			}
			want := m.Range(req)
			if sz := encodedSize(got); sz >= grpcLimit {
				vs = append(vs, viol{"unary-message-too-large/" + form(req), fmt.Sprintf("%s: %d bytes", fsmx.RangeReqStr(req), sz)})
			}
			if req.CountOnly {
				if got.Count != want.Count || got.More != want.More {
					vs = append(vs, viol{"read-mismatch/count/count-only" + limTag(req), fmt.Sprintf("%s: got %s want %s", fsmx.RangeReqStr(req), fsmx.RangeStr(got), fsmx.RangeStr(want))})
				}
				continue
			}
			k := len(got.Kvs)
			if k > len(want.Kvs) || !fsmx.EqualKVs(got.Kvs, want.Kvs[:k]) {
				vs = append(vs, viol{"read-mismatch/content/" + form(req) + limTag(req), fmt.Sprintf("%s: got %s, not a prefix of %s", fsmx.RangeReqStr(req), fsmx.KVs(got.Kvs), fsmx.KVs(want.Kvs))})
				continue
			}
			if k == 0 && len(want.Kvs) > 0 {
				vs = append(vs, viol{"read-empty-despite-matches/" + form(req), fsmx.RangeReqStr(req)})
			}
			remain := k < len(want.Kvs) || want.More
			if got.More != remain {
				vs = append(vs, viol{"read-mismatch/more-flag/" + form(req) + limTag(req) + "/sized", fmt.Sprintf("%s: returned %d of %d(+more=%v) more=%v", fsmx.RangeReqStr(req), k, len(want.Kvs), want.More, got.More)})
			}
			if got.Count != int64(k) {
				vs = append(vs, viol{"read-mismatch/count/" + form(req) + limTag(req), fmt.Sprintf("%s: count %d returned %d", fsmx.RangeReqStr(req), got.Count, k)})
			}
			fmt.Fprintf(&sb, "u%d;", k)
		}
	}
	return vs, sb.String(), evals, multi
}

// RunMany: c.Sizes = {pairs, key length, value length}: a table of many small pairs, streamed and read
// unary, full and keys-only: every message below the limit, all but the last flagged more, the
// concatenation is the range.
func RunMany(c Case) (vs []viol, outcome string) {
	n, kl, vl := c.Sizes[0], c.Sizes[1], c.Sizes[2]
	env := fsmx.NewEnv()
	inst, _, err := env.Open("t", 10001, fsm.RecoveryTypeSnapshot)
	if err != nil {
		return []viol{{"open-error", err.Error()}}, ""
	}
	defer inst.Close()
	val := bytes.Repeat([]byte("v"), vl)
	idx := uint64(0)
	for at := 0; at < n; at += 5000 {
		var kvs []*regattapb.KeyValue
		for i := at; i < min(n, at+5000); i++ {
			k := fmt.Sprintf("%0*d", kl, i)
			kvs = append(kvs, &regattapb.KeyValue{Key: []byte(k), Value: val})
		}
		idx++
		if _, err := inst.Update([]sm.Entry{fsmx.Entry(idx, &regattapb.Command{Table: Table, Type: regattapb.Command_PUT_BATCH, Batch: kvs})}); err != nil {
			return []viol{{"update-error", err.Error()}}, ""
		}
	}
	var sb strings.Builder
	for _, keysOnly := range []bool{false, true} {
		req := &regattapb.RequestOp_Range{Key: []byte{0}, RangeEnd: []byte{0}, KeysOnly: keysOnly}
		res, err := inst.F.Lookup(fsm.IteratorRequest{RangeOp: req})
		if err != nil {
			return append(vs, viol{"many/read-error", err.Error()}), ""
		}
		total, msgs, lastMore := 0, 0, false
		prev := ""
		res.(iter.Seq[*regattapb.ResponseOp_Range])(func(m *regattapb.ResponseOp_Range) bool {
			msgs++
			if sz := encodedSize(m); sz >= grpcLimit {
				vs = append(vs, viol{"many/stream-message-too-large/" + form(req), fmt.Sprintf("%d pairs of %d+%d bytes: message %d holds %d pairs and encodes to %d bytes", n, kl, vl, msgs, len(m.Kvs), sz)})
			}
			for _, kv := range m.Kvs {
				if string(kv.Key) <= prev {
					vs = append(vs, viol{"many/stream-not-ascending", fmt.Sprintf("%q after %q", kv.Key, prev)})
				}
				prev = string(kv.Key)
			}
			total += len(m.Kvs)
			lastMore = m.More
			return true
		})
		if total != n || lastMore {
			vs = append(vs, viol{"many/stream-content", fmt.Sprintf("%d pairs streamed of %d, last message more=%v", total, n, lastMore)})
		}
		got, err := inst.Range(req)
		if err != nil {
			return append(vs, viol{"many/read-error", err.Error()}), ""
		}
		if sz := encodedSize(got); sz >= grpcLimit {
			vs = append(vs, viol{"many/unary-message-too-large/" + form(req), fmt.Sprintf("%d pairs of %d+%d bytes: the unary answer holds %d pairs and encodes to %d bytes", n, kl, vl, len(got.Kvs), sz)})
		}
		if got.More != (len(got.Kvs) < n) || got.Count != int64(len(got.Kvs)) {
			vs = append(vs, viol{"many/unary-flags", fmt.Sprintf("returned %d of %d more=%v count=%d", len(got.Kvs), n, got.More, got.Count)})
		}
		fmt.Fprintf(&sb, "%v:%d;", keysOnly, msgs)
	}
	return vs, sb.String()
}

// RunSweep: two pairs whose sizes add up to every value in a window around the message limit (the
// second value shrinks byte by byte): wherever the implementation draws the line between "fits into
// this message" and "starts the next one", the largest message it ever builds is in this sweep.
func RunSweep(c Case) (vs []viol, outcome string) {
	env := fsmx.NewEnv()
	inst, _, err := env.Open("t", 10001, fsm.RecoveryTypeSnapshot)
	if err != nil {
		return []viol{{"open-error", err.Error()}}, ""
	}
	defer inst.Close()
	m := refkv.New()
	for i, kv := range sizedContent(c.Sizes) {
		if err := fill(inst, m, uint64(i+1), kv); err != nil {
			return []viol{{"update-error", err.Error()}}, ""
		}
	}
	var sb strings.Builder
	req := &regattapb.RequestOp_Range{Key: B("k"), RangeEnd: []byte{0}}
	msgs := checkStream(inst, m, req, &vs, &sb)
	got, err := inst.Range(req)
	if err != nil {
		return append(vs, viol{"read-error", err.Error()}), ""
	}
	if sz := encodedSize(got); sz >= grpcLimit {
		vs = append(vs, viol{"unary-message-too-large/" + form(req), fmt.Sprintf("%s: %d bytes", fsmx.RangeReqStr(req), sz)})
	}
	want := m.Range(req)
	k := len(got.Kvs)
	if k == 0 || k > len(want.Kvs) || !fsmx.EqualKVs(got.Kvs, want.Kvs[:k]) || got.More != (k < len(want.Kvs)) || got.Count != int64(k) {
		vs = append(vs, viol{"read-mismatch/sweep", fmt.Sprintf("sizes %v: returned %d pairs more=%v count=%d", c.Sizes, k, got.More, got.Count)})
	}
	for i := range vs {
		vs[i].sig = "sweep/" + vs[i].sig
	}
	return vs, fmt.Sprintf("msgs=%d unary=%d", msgs, k)
}

// RunPaging: pull the stream message by message, applying one write after the WriteAt-th pull; the
// concatenation must equal the state at the first pull.
func RunPaging(c Case) (vs []viol, outcome string, evals int64) {
	env := fsmx.NewEnv()
	inst, _, err := env.Open("t", 10001, fsm.RecoveryTypeSnapshot)
	if err != nil {
		return []viol{{"open-error", err.Error()}}, "", 0
	}
	defer inst.Close()
	m := refkv.New()
	kvs := sizedContent(c.Sizes)
	for i, kv := range kvs {
		if err := fill(inst, m, uint64(i+1), kv); err != nil {
			return []viol{{"update-error", err.Error()}}, "", 0
		}
	}
	req := &regattapb.RequestOp_Range{Key: B("k"), RangeEnd: []byte{0}}
	want := m.Range(req)
	r, err := inst.Lookup(fsm.IteratorRequest{RangeOp: req})
	if err != nil {
		return []viol{{"stream-error", err.Error()}}, "", 0
	}
	seq := r.(iter.Seq[*regattapb.ResponseOp_Range])
	var all []*regattapb.KeyValue
	pulls := 0
	func() {
		defer func() {
			if rr := recover(); rr != nil {
				vs = append(vs, viol{"stream-panic", fmt.Sprint(rr)})
			}
		}()
		seq(func(ch *regattapb.ResponseOp_Range) bool {
			all = append(all, ch.Kvs...)
			pulls++
			if pulls == c.WriteAt {
				// overwrite every key, delete one, add one in front and one behind
				w := Seq(Del("k", []byte{0}, false, false), Put("j", "new", false), Put("k0", "changed", false), Put("kz", "new", false))
				if _, err := inst.Update([]sm.Entry{fsmx.Entry(100, w)}); err != nil {
					vs = append(vs, viol{"update-error", err.Error()})
				}
			}
			return true
		})
	}()
	evals = 1
	if !fsmx.EqualKVs(all, want.Kvs) {
		vs = append(vs, viol{"stream-not-point-in-time", fmt.Sprintf("sizes %v write after pull %d: got %s want %s", c.Sizes, c.WriteAt, fsmx.KVs(all), fsmx.KVs(want.Kvs))})
	}
	return vs, fmt.Sprintf("p%d", pulls), evals
}

func sizeSeqs(maxN int) [][]int {
	var out [][]int
	var rec func(cur []int)
	rec = func(cur []int) {
		if len(cur) > 0 {
			out = append(out, append([]int(nil), cur...))
		}
		if len(cur) == maxN {
			return
		}
		for _, s := range sizeClasses {
			rec(append(cur, s))
		}
	}
	rec(nil)
	return out
}

func Run(r *evid.Run) {
	r.Check = "c09"
	maxSized := 3
	if r.Thorough() {
		maxSized = 5
	}
	r.Rule(fmt.Sprintf("(small) all 64 subsets of 6 prefix-related keys x all 100 bound pairs over 10 bounds incl. the wildcard x every limit 0..n+1 x {full, keys-only, count-only}, each as unary Lookup and as streamed iterator, compared with the sorted-map model; (sized) every content of 1..%d pairs with value sizes from {1KiB,1MiB,2MiB-1KiB,2MiB} in every order x every limit x 3 forms: stream concatenation, per-message flags/counts, encoded size < 4MiB, unary prefix + truthful more; (many) tables of 30000 / 40000 small pairs (197+1, 24+0 bytes), streamed and unary, full and keys-only: message sizes incl. per-pair framing, flags, order, completeness; (sweep) two pairs of 2MiB and 2MiB-d bytes for EVERY d in 0..2099, streamed and unary: wherever the line between 'fits' and 'next message' is drawn, the largest message ever built lies in the sweep and must encode (with a maximal header) below 4MiB; (paging) for sized contents, one write applied between any two pulls; (api) 4 small and 3 sized contents on a real storage.Engine, every bound pair x limit x form x {serializable, linearizable} through the real KVServer.Range and KVServer.IterateRange (recording stream): content, counts, more flags, headers, message sizes. Non-trivial: the read returned at least one pair or count>0; distinct = distinct renderings of all answers of a content", maxSized))
	// small
	var evals int64
	par.For(64, r.Expired, func(i int64) {
		c := Case{Kind: "small", Mask: int(i)}
		vs, outcome, n := RunSmall(c)
		r.Outcome(outcome, i != 0)
		r.Evaluations.Add(n - 1)
		for _, v := range vs {
			r.Violate(v.sig, v.detail, c)
		}
		_ = evals
	})
	seqs := sizeSeqs(maxSized)
	var multiTotal int64
	done := par.For(int64(len(seqs)), r.Expired, func(i int64) {
		c := Case{Kind: "sized", Sizes: seqs[i]}
		vs, outcome, n, multi := RunSized(c)
		r.Outcome(fmt.Sprint(seqs[i])+outcome, true)
		r.Evaluations.Add(n - 1)
		r.AddExtra("sized_streams_with_more_than_one_message", int64(multi))
		_ = multiTotal
		for _, v := range vs {
			r.Violate(v.sig, v.detail, c)
		}
		if i == int64(len(seqs))-1 {
			r.Sample(map[string]any{"case": c, "outcome": outcome})
		}
	})
	if done < int64(len(seqs)) {
		r.Cap(fmt.Sprintf("deadline: %d of %d sized contents", done, len(seqs)))
	}
	// many small pairs: the per-pair framing (tags, length prefixes) dominates what a size estimate
	// that only adds up key and value lengths overlooks
	for _, shape := range [][3]int{{30000, 197, 1}, {40000, 24, 0}} { // (iterate() re-measures the growing message for every pair: quadratic, keep the tables moderate)
		c := Case{Kind: "many", Sizes: shape[:]}
		vs, outcome := RunMany(c)
		r.Outcome("many"+outcome, true)
		r.AddExtra("many_small_pair_contents", 1)
		for _, v := range vs {
			r.Violate(v.sig, v.detail, c)
		}
	}
	// boundary sweep
	window := 2100
	var split, joined atomic.Int64
	par.For(int64(window), r.Expired, func(d int64) {
		c := Case{Kind: "sweep", Sizes: []int{2 << 20, 2<<20 - int(d)}}
		vs, outcome := RunSweep(c)
		r.Outcome("sweep"+outcome, true)
		if strings.HasPrefix(outcome, "msgs=1") {
			joined.Add(1)
		} else {
			split.Add(1)
		}
		for _, v := range vs {
			r.Violate(v.sig, v.detail, c)
		}
	})
	r.Extra("sweep_contents", window)
	r.Extra("sweep_contents_in_one_message", joined.Load())
	r.Extra("sweep_contents_in_two_messages", split.Load())
	if joined.Load() == 0 || split.Load() == 0 {
		r.Cap("boundary sweep: the window did not straddle the point where the second pair moves to the next message")
	}
	// paging: sized contents that need >= 2 messages
	var pcases []Case
	pmax := maxSized
	if pmax > 4 {
		pmax = 4
	}
	for _, s := range sizeSeqs(pmax) {
		tot := 0
		for _, x := range s {
			tot += x
		}
		if tot < 3<<20 {
			continue
		}
		for w := 1; w <= len(s); w++ {
			pcases = append(pcases, Case{Kind: "paging", Sizes: s, WriteAt: w})
		}
	}
	pdone := par.For(int64(len(pcases)), r.Expired, func(i int64) {
		vs, outcome, _ := RunPaging(pcases[i])
		r.Outcome(fmt.Sprint(pcases[i].Sizes, pcases[i].WriteAt)+outcome, true)
		for _, v := range vs {
			r.Violate(v.sig, v.detail, pcases[i])
		}
	})
	if pdone < int64(len(pcases)) {
		r.Cap(fmt.Sprintf("deadline: %d of %d paging cases", pdone, len(pcases)))
	}
	runAPI(r)
	r.Extra("small_contents", 64)
	r.Extra("sized_contents", done)
	r.Extra("paging_cases", pdone)
	r.Sample(map[string]any{"case": Case{Kind: "small", Mask: 0b101101}, "keys": keys6, "bounds": bounds})
	r.Assume("message size is measured as the vtproto size of a RangeResponse carrying the message with a maximal header")
}

func Replay(raw json.RawMessage) (string, bool) {
	var c Case
	if err := json.Unmarshal(raw, &c); err != nil {
		return err.Error(), false
	}
	var vs []viol
	switch c.Kind {
	case "small":
		vs, _, _ = RunSmall(c)
	case "sized":
		vs, _, _, _ = RunSized(c)
	case "paging":
		vs, _, _ = RunPaging(c)
	case "sweep":
		vs, _ = RunSweep(c)
	case "many":
		vs, _ = RunMany(c)
	}
	var sb strings.Builder
	seen := map[string]bool{}
	for _, v := range vs {
		if !seen[v.sig] {
			fmt.Fprintf(&sb, "%s: %s\n", v.sig, v.detail)
			seen[v.sig] = true
		}
	}
	return sb.String(), len(vs) == 0
}

// ---------------------------------------------------------------------------------------------
// API level: the same reads through the real KVServer (Range and IterateRange with a recording
// stream) over a real storage.Engine, so that the request mapping in table.go, the response mapping in
// engine.go (kvs, count, more) and the Pull loop of IterateRange are inside the checked path.

type recKV struct {
	grpc.ServerStream
	ctx  context.Context
	msgs []*regattapb.RangeResponse
}

func (s *recKV) Context() context.Context { return s.ctx }
func (s *recKV) Send(m *regattapb.RangeResponse) error {
	s.msgs = append(s.msgs, m)
	return nil
}

func runAPI(r *evid.Run) {
	eng, err := engx.Start(engx.Opts{})
	if err != nil {
		r.Inconcl.Add(1)
		r.Extra("api_level", "engine did not start: "+err.Error())
		return
	}
	defer eng.Close()
	srv := &regattaserver.KVServer{Storage: eng.Engine}
	type content struct {
		name string
		kvs  []*regattapb.KeyValue
	}
	var contents []content
	for _, mask := range []int{0, 0b000001, 0b101101, 0b111111} {
		var kvs []*regattapb.KeyValue
		for i, k := range keys6 {
			if mask&(1<<i) != 0 {
				kvs = append(kvs, &regattapb.KeyValue{Key: B(k), Value: B(fmt.Sprintf("v%d", i%3))})
			}
		}
		contents = append(contents, content{fmt.Sprintf("small%d", mask), kvs})
	}
	for _, sizes := range [][]int{{2 << 20, 2 << 20, 1024}, {1 << 20, 1 << 20, 1 << 20, 1 << 20, 1024}, {2<<20 - 1024, 2<<20 - 1024}} {
		contents = append(contents, content{fmt.Sprint("sized", sizes), sizedContent(sizes)})
	}
	ctx := context.Background()
	for ci, c := range contents {
		name := fmt.Sprintf("api%d", ci)
		if _, err := eng.CreateTable(name); err != nil || eng.WaitTable(name, 20*time.Second) != nil {
			r.Inconcl.Add(1)
			continue
		}
		m := refkv.New()
		for _, kv := range c.kvs {
			c2, cancel := context.WithTimeout(ctx, 20*time.Second)
			_, err := eng.Put(c2, &regattapb.PutRequest{Table: []byte(name), Key: kv.Key, Value: kv.Value})
			cancel()
			if err != nil {
				r.Inconcl.Add(1)
			}
			m.KV[string(kv.Key)] = kv.Value
		}
		n := len(c.kvs)
		bnds := bounds
		if strings.HasPrefix(c.name, "sized") {
			bnds = []string{"\x00", "k", "k1", "k9"}
		}
		for _, lo := range bnds {
			for _, hi := range bnds {
				for limit := 0; limit <= n+1; limit++ {
					for f := 0; f < 3; f++ {
						for _, lin := range []bool{false, true} {
							req := &regattapb.RangeRequest{Table: []byte(name), Key: B(lo), RangeEnd: B(hi), Limit: int64(limit), KeysOnly: f == 1, CountOnly: f == 2, Linearizable: lin}
							want := m.Range(&regattapb.RequestOp_Range{Key: req.Key, RangeEnd: req.RangeEnd, Limit: req.Limit, KeysOnly: req.KeysOnly, CountOnly: req.CountOnly})
							desc := fmt.Sprintf("content %s Range{key=%q end=%q limit=%d keys_only=%v count_only=%v linearizable=%v}", c.name, lo, hi, limit, req.KeysOnly, req.CountOnly, lin)
							cs := map[string]any{"kind": "api", "request": desc}
							// streamed
							st := &recKV{ctx: ctx}
							if err := srv.IterateRange(req, st); err != nil {
								r.Violate("api/IterateRange-error", desc+": "+err.Error(), cs)
								continue
							}
							var all []*regattapb.KeyValue
							var cnt int64
							for i, msg := range st.msgs {
								all = append(all, msg.Kvs...)
								cnt += msg.Count
								last := i == len(st.msgs)-1
								if !last && !msg.More {
									r.Violate("api/stream-more-missing-on-inner-message", desc, cs)
								}
								if last && msg.More != want.More {
									r.Violate("api/stream-last-more-flag", fmt.Sprintf("%s: more=%v want %v", desc, msg.More, want.More), cs)
								}
								if msg.Header == nil || msg.Header.ShardId == 0 {
									r.Violate("api/stream-message-without-header", desc, cs)
								}
								if sz := msg.SizeVT(); sz >= grpcLimit {
									r.Violate("api/stream-message-too-large", fmt.Sprintf("%s: %d bytes", desc, sz), cs)
								}
							}
							if len(st.msgs) == 0 {
								r.Violate("api/stream-no-message", desc, cs)
							}
							if !fsmx.EqualKVs(all, want.Kvs) {
								r.Violate("api/stream-content", fmt.Sprintf("%s: got %s want %s", desc, fsmx.KVs(all), fsmx.KVs(want.Kvs)), cs)
							}
							if cnt != want.Count {
								r.Violate("api/stream-total-count", fmt.Sprintf("%s: %d want %d", desc, cnt, want.Count), cs)
							}
							// unary
							resp, err := srv.Range(ctx, req)
							if err != nil {
								r.Violate("api/Range-error", desc+": "+err.Error(), cs)
								continue
							}
							k := len(resp.Kvs)
							if req.CountOnly {
								if resp.Count != want.Count || resp.More != want.More || k != 0 {
									r.Violate("api/unary-count-only", fmt.Sprintf("%s: count=%d more=%v kvs=%d want %d %v", desc, resp.Count, resp.More, k, want.Count, want.More), cs)
								}
							} else {
								if k > len(want.Kvs) || !fsmx.EqualKVs(resp.Kvs, want.Kvs[:k]) || (k == 0 && len(want.Kvs) > 0) {
									r.Violate("api/unary-content", fmt.Sprintf("%s: got %s want a non-empty prefix of %s", desc, fsmx.KVs(resp.Kvs), fsmx.KVs(want.Kvs)), cs)
								} else {
									if remain := k < len(want.Kvs) || want.More; resp.More != remain {
										r.Violate("api/unary-more-flag", fmt.Sprintf("%s: returned %d of %d, more=%v", desc, k, len(want.Kvs), resp.More), cs)
									}
									if resp.Count != int64(k) {
										r.Violate("api/unary-count", fmt.Sprintf("%s: count=%d returned %d", desc, resp.Count, k), cs)
									}
								}
							}
							r.Outcome("api"+desc+fmt.Sprint(len(st.msgs), cnt, k), cnt > 0)
							r.AddExtra("api_level_requests", 2)
						}
					}
				}
			}
		}
		_ = eng.DeleteTable(name)
	}
}
