// Package c19: the gossiped shard view converges and never regresses to an older leader.
package c19

import (
	"encoding/json"
	"fmt"
	"reflect"
	"sort"
	"strings"

	"github.com/jamf/regatta/storage/cluster"
	"github.com/lni/dragonboat/v4"

	"verif/harness/evid"
	"verif/harness/par"
)

const shard = 7

// ground truth: at most one leader per term; one membership per configuration index (the last one removes a node that led an earlier term).
var leaderOf = map[uint64]uint64{1: 1, 2: 2, 3: 1}
var membership = map[uint64]map[uint64]string{
	0: nil,
	1: {1: "a"},
	2: {1: "a", 2: "b"},
	3: {1: "a", 3: "c"}, // node 2 (a former leader) removed
}

type upd struct {
	Term   uint64
	Leader uint64
	CCI    uint64
}

func (u upd) String() string {
	l := "no-leader"
	if u.Leader != 0 {
		l = fmt.Sprintf("leader=%d", u.Leader)
	}
	return fmt.Sprintf("(term=%d %s cci=%d)", u.Term, l, u.CCI)
}

func (u upd) view() dragonboat.ShardView {
	return dragonboat.ShardView{ShardID: shard, Replicas: membership[u.CCI], ConfigChangeIndex: u.CCI, LeaderID: u.Leader, Term: u.Term}
}

func (u upd) info() dragonboat.ShardInfo {
	return dragonboat.ShardInfo{ShardID: shard, Replicas: membership[u.CCI], ConfigChangeIndex: u.CCI, LeaderID: u.Leader, Term: u.Term}
}

func alphabet() []upd {
	out := []upd{{0, 0, 0}}
	for t := uint64(1); t <= 3; t++ {
		for _, l := range []uint64{leaderOf[t], 0} {
			for c := uint64(1); c <= 3; c++ {
				out = append(out, upd{t, l, c})
			}
		}
	}
	return out
}

// expected view as a function of the SET of delivered updates.
func expected(set map[upd]bool) (leader, term, cci uint64, reps map[uint64]string) {
	for u := range set {
		if u.Leader != 0 && u.Term > term {
			term, leader = u.Term, u.Leader
		}
		if u.CCI > cci {
			cci = u.CCI
		}
	}
	return leader, term, cci, membership[cci]
}

type Case struct {
	Kind   string   `json:"kind"`
	Seq    []int    `json:"seq,omitempty"`
	Events []string `json:"events,omitempty"`
	Desc   []string `json:"desc,omitempty"`
}

type viol struct{ sig, detail string }

func checkView(v dragonboat.ShardView, set map[upd]bool, tag string) []viol {
	l, t, c, reps := expected(set)
	var vs []viol
	if v.LeaderID != l || v.Term != t {
		vs = append(vs, viol{tag + "leader-not-highest-term", fmt.Sprintf("view leader=%d term=%d, want leader=%d term=%d", v.LeaderID, v.Term, l, t)})
	}
	if v.ConfigChangeIndex != c || !(len(v.Replicas) == 0 && len(reps) == 0 || reflect.DeepEqual(v.Replicas, reps)) {
		vs = append(vs, viol{tag + "membership-not-highest-config-index", fmt.Sprintf("view cci=%d replicas=%v, want cci=%d %v", v.ConfigChangeIndex, v.Replicas, c, reps)})
	}
	return vs
}

func regress(prev, cur dragonboat.ShardView, tag string) []viol {
	var vs []viol
	if cur.Term < prev.Term {
		vs = append(vs, viol{tag + "term-moved-backwards", fmt.Sprintf("%d -> %d", prev.Term, cur.Term)})
	}
	if prev.LeaderID != 0 && cur.LeaderID == 0 {
		vs = append(vs, viol{tag + "leader-replaced-by-no-leader", fmt.Sprintf("leader %d term %d -> none", prev.LeaderID, prev.Term)})
	}
	if cur.ConfigChangeIndex < prev.ConfigChangeIndex {
		vs = append(vs, viol{tag + "config-index-moved-backwards", fmt.Sprintf("%d -> %d", prev.ConfigChangeIndex, cur.ConfigChangeIndex)})
	}
	return vs
}

// runSingle: one node, a sequence of updates, one per call and all in one call.
func runSingle(alpha []upd, seq []int) (vs []viol, outcome string) {
	n := cluster.NewVerifNode()
	other := dragonboat.ShardView{ShardID: 99, Replicas: map[uint64]string{9: "x"}, ConfigChangeIndex: 5, LeaderID: 9, Term: 9}
	n.UpdateView([]dragonboat.ShardView{other})
	set := map[upd]bool{}
	var prev dragonboat.ShardView
	var all []dragonboat.ShardView
	for _, i := range seq {
		u := alpha[i]
		n.UpdateView([]dragonboat.ShardView{u.view()})
		all = append(all, u.view())
		set[u] = true
		cur := n.ShardInfo(shard)
		vs = append(vs, regress(prev, cur, "single/")...)
		vs = append(vs, checkView(cur, set, "single/")...)
		prev = cur
	}
	final := n.ShardInfo(shard)
	if !reflect.DeepEqual(n.ShardInfo(99), other) {
		vs = append(vs, viol{"single/other-shard-changed", fmt.Sprint(n.ShardInfo(99))})
	}
	n2 := cluster.NewVerifNode()
	n2.UpdateView(all)
	if len(seq) > 0 && !reflect.DeepEqual(n2.ShardInfo(shard), final) {
		vs = append(vs, viol{"single/one-call-differs-from-separate-calls", fmt.Sprintf("%v vs %v", n2.ShardInfo(shard), final)})
	}
	return vs, fmt.Sprintf("%d/%d/%d", final.LeaderID, final.Term, final.ConfigChangeIndex)
}

// cluster BFS -----------------------------------------------------------------------------------

type event struct {
	Kind string // "obs" | "gossip"
	I, J int
	U    int
}

func (e event) String(alpha []upd) string {
	if e.Kind == "obs" {
		return fmt.Sprintf("node%d observes %s", e.I, alpha[e.U])
	}
	return fmt.Sprintf("node%d gossips to node%d", e.I, e.J)
}

type world struct {
	nodes []*cluster.VerifNode
	sets  []map[upd]bool // updates that causally reached each node
	local []int          // index of the node's current local observation, -1 none
}

func newWorld(n int) *world {
	w := &world{}
	for i := 0; i < n; i++ {
		w.nodes = append(w.nodes, cluster.NewVerifNode())
		w.sets = append(w.sets, map[upd]bool{})
		w.local = append(w.local, -1)
	}
	return w
}

func (w *world) apply(alpha []upd, e event) {
	if e.Kind == "obs" {
		w.nodes[e.I].SetLocal([]dragonboat.ShardInfo{alpha[e.U].info()})
		w.nodes[e.I].Notify()
		w.sets[e.I][alpha[e.U]] = true
		w.local[e.I] = e.U
		return
	}
	// LocalState merges the sender's local info first (as the real delegate does)
	if w.local[e.I] >= 0 {
		w.sets[e.I][alpha[w.local[e.I]]] = true
	}
	b := w.nodes[e.I].LocalState()
	w.nodes[e.J].MergeRemoteState(b)
	for u := range w.sets[e.I] {
		w.sets[e.J][u] = true
	}
}

func viewKey(v dragonboat.ShardView) string {
	ks := make([]uint64, 0, len(v.Replicas))
	for k := range v.Replicas {
		ks = append(ks, k)
	}
	sort.Slice(ks, func(a, b int) bool { return ks[a] < ks[b] })
	return fmt.Sprintf("%d/%d/%d/%v", v.LeaderID, v.Term, v.ConfigChangeIndex, ks)
}

func (w *world) key() string {
	var sb strings.Builder
	for i, n := range w.nodes {
		fmt.Fprintf(&sb, "%s|%d;", viewKey(n.ShardInfo(shard)), w.local[i])
	}
	return sb.String()
}

func build(alpha []upd, n int, path []event) *world {
	w := newWorld(n)
	for _, e := range path {
		w.apply(alpha, e)
	}
	return w
}

func runCluster(r *evid.Run, alpha []upd, nNodes, depth int, localAlpha []int) {
	var events []event
	for i := 0; i < nNodes; i++ {
		for _, u := range localAlpha {
			events = append(events, event{"obs", i, 0, u})
		}
		for j := 0; j < nNodes; j++ {
			if i != j {
				events = append(events, event{"gossip", i, j, 0})
			}
		}
	}
	type node struct{ path []event }
	seen := map[string]bool{build(alpha, nNodes, nil).key(): true}
	frontier := []node{{nil}}
	states, transitions := int64(1), int64(0)
	maxDepth := 0
	for d := 0; d < depth && len(frontier) > 0; d++ {
		var next []node
		for _, nd := range frontier {
			for _, e := range events {
				w := build(alpha, nNodes, nd.path)
				prev := make([]dragonboat.ShardView, nNodes)
				for i := range w.nodes {
					prev[i] = w.nodes[i].ShardInfo(shard)
				}
				w.apply(alpha, e)
				transitions++
				var vs []viol
				for i := range w.nodes {
					cur := w.nodes[i].ShardInfo(shard)
					vs = append(vs, regress(prev[i], cur, "cluster/")...)
					vs = append(vs, checkView(cur, w.sets[i], "cluster/")...)
				}
				path := append(append([]event(nil), nd.path...), e)
				if len(vs) > 0 {
					var ev []string
					for _, x := range path {
						ev = append(ev, x.String(alpha))
					}
					for _, v := range vs {
						r.Violate(v.sig, v.detail, Case{Kind: "cluster", Events: ev})
					}
				}
				k := w.key()
				if !seen[k] {
					seen[k] = true
					states++
					next = append(next, node{path})
					if len(path) > maxDepth {
						maxDepth = len(path)
					}
					// convergence: after two rounds of all-pairs gossip all nodes agree
					for round := 0; round < 2; round++ {
						for i := 0; i < nNodes; i++ {
							for j := 0; j < nNodes; j++ {
								if i != j {
									w.apply(alpha, event{"gossip", i, j, 0})
								}
							}
						}
					}
					first := viewKey(w.nodes[0].ShardInfo(shard))
					for i := 1; i < nNodes; i++ {
						if viewKey(w.nodes[i].ShardInfo(shard)) != first {
							var ev []string
							for _, x := range path {
								ev = append(ev, x.String(alpha))
							}
							r.Violate("cluster/no-agreement-after-all-pairs-gossip", fmt.Sprintf("node0 %s node%d %s", first, i, viewKey(w.nodes[i].ShardInfo(shard))), Case{Kind: "cluster", Events: ev})
						}
					}
				}
			}
		}
		frontier = next
	}
	r.States.Add(states)
	r.Transitions.Add(transitions)
	r.Validated.Add(transitions)
	r.Part(map[string]any{"scenario": fmt.Sprintf("cluster of %d nodes, %d events, BFS depth %d", nNodes, len(events), depth), "states": states, "transitions": transitions, "max_depth_with_new_state": maxDepth, "frontier_left": len(frontier)})
	if len(frontier) > 0 {
		r.Extra(fmt.Sprintf("cluster%d_frontier_at_depth_bound", nNodes), len(frontier))
	}
}

func Run(r *evid.Run) {
	r.Check = "c19"
	alpha := alphabet()
	depth := 4
	if r.Thorough() {
		depth = 5
	}
	r.Rule(fmt.Sprintf("(a) single node: every sequence (with repetition) of length 0..%d over %d updates consistent with a ground truth of terms 1..3 (one leader per term) and config indices 1..3 incl. no-leader and empty updates, fed to the real shardView one per call and all in one call; after every step the view must equal (leader of the highest leader-bearing term, membership of the highest config index) of the SET of updates delivered - hence order- and repetition-independent - and term/leader/config index never regress. (b) cluster: BFS over {node i observes a local Raft update (through the real toShardViewList/Notify), node i gossips to node j (real delegate LocalState -> JSON -> MergeRemoteState)} with a visited set on the tuple of complete views + local observations; same invariants per node against the set of causally delivered updates; agreement after all-pairs gossip from every new state. Non-trivial: sequence contains a leader-bearing update; distinct = distinct final views", depth, len(alpha)))
	total := par.SeqCount(len(alpha), depth)
	par.For(total, r.Expired, func(i int64) {
		seq := par.SeqAt(len(alpha), depth, i)
		vs, outcome := runSingle(alpha, seq)
		nt := false
		for _, s := range seq {
			if alpha[s].Leader != 0 {
				nt = true
			}
		}
		r.Outcome(outcome, nt)
		r.Transitions.Add(int64(len(seq)))
		for _, v := range vs {
			var d []string
			for _, s := range seq {
				d = append(d, alpha[s].String())
			}
			r.Violate(v.sig, v.detail, Case{Kind: "single", Seq: seq, Desc: d})
		}
	})
	r.Extra("single_node_sequences", total)
	// local alphabet for the cluster part: a representative subset (indices into alpha)
	var localAlpha []int
	for i, u := range alpha {
		if (u.Term == 1 && u.CCI == 1) || (u.Term == 2 && u.CCI == 2) || (u.Term == 3 && u.CCI == 3) || (u.Term == 3 && u.Leader == 0 && u.CCI == 1) {
			localAlpha = append(localAlpha, i)
		}
	}
	if r.Thorough() {
		runCluster(r, alpha, 2, 7, localAlpha)
		runCluster(r, alpha, 3, 5, localAlpha)
	} else {
		runCluster(r, alpha, 2, 5, localAlpha)
		runCluster(r, alpha, 3, 4, localAlpha)
	}
	r.Sample(map[string]any{"single": []string{alpha[7].String(), alpha[1].String(), alpha[16].String()}, "cluster": []string{"node0 observes " + alpha[localAlpha[0]].String(), "node0 gossips to node1", "node1 observes " + alpha[localAlpha[3]].String()}})
	r.Assume("ground truth has at most one leader per term (Raft) and one membership per configuration-change index; updates contradicting that are outside the property")
	r.Assume("states = distinct tuples of complete per-node views (+ local observation); every transition executes the real update/merge code, so all traces are implementation traces")
}

func Replay(raw json.RawMessage) (string, bool) {
	var c Case
	if err := json.Unmarshal(raw, &c); err != nil {
		return err.Error(), false
	}
	if c.Kind == "single" {
		vs, _ := runSingle(alphabet(), c.Seq)
		var sb strings.Builder
		for _, v := range vs {
			fmt.Fprintf(&sb, "%s: %s\n", v.sig, v.detail)
		}
		return sb.String(), len(vs) == 0
	}
	return "cluster traces are replayed by re-running the BFS (deterministic); events: " + strings.Join(c.Events, "; ") + "\n", false
}
