// Package c19: the gossiped shard view converges and never regresses to an older leader.
package c19

import (
	"bytes"
	"context"
	"encoding/json"
	"fmt"
	"github.com/jamf/regatta/regattapb"
	"iter"
	"reflect"
	"runtime"
	"sort"
	"strings"
	"time"
	"verif/harness/engx"

	"github.com/jamf/regatta/storage/cluster"
	"github.com/jamf/regatta/verifvp/vp"
	"github.com/jamf/regatta/verifvp/vsync"
	"github.com/lni/dragonboat/v4"

	"verif/harness/evid"
	"verif/harness/par"
	"verif/harness/sched"
)

const shard = 7

// ground truth: at most one leader per term; one membership per configuration index (the last one removes a node that led an earlier term).
var leaderOf = map[uint64]uint64{1: 1, 2: 2, 3: 1}
var membership = map[uint64]map[uint64]string{
	0: nil,
	1: {1: "a"},
	2: {1: "a", 2: "b"},
	3: {1: "a", 3: "c"}, // node 2 (a former leader) removed
}

type upd struct {
	Term   uint64
	Leader uint64
	CCI    uint64
}

func (u upd) String() string {
	l := "no-leader"
	if u.Leader != 0 {
		l = fmt.Sprintf("leader=%d", u.Leader)
	}
	return fmt.Sprintf("(term=%d %s cci=%d)", u.Term, l, u.CCI)
}

func (u upd) view() dragonboat.ShardView {
	return dragonboat.ShardView{ShardID: shard, Replicas: membership[u.CCI], ConfigChangeIndex: u.CCI, LeaderID: u.Leader, Term: u.Term}
}

func (u upd) info() dragonboat.ShardInfo {
	return dragonboat.ShardInfo{ShardID: shard, Replicas: membership[u.CCI], ConfigChangeIndex: u.CCI, LeaderID: u.Leader, Term: u.Term}
}

func alphabet() []upd {
	out := []upd{{0, 0, 0}}
	for t := uint64(1); t <= 3; t++ {
		for _, l := range []uint64{leaderOf[t], 0} {
			for c := uint64(1); c <= 3; c++ {
				out = append(out, upd{t, l, c})
			}
		}
	}
	return out
}

// expected view as a function of the SET of delivered updates.
func expected(set map[upd]bool) (leader, term, cci uint64, reps map[uint64]string) {
	for u := range set {
		if u.Leader != 0 && u.Term > term {
			term, leader = u.Term, u.Leader
		}
		if u.CCI > cci {
			cci = u.CCI
		}
	}
	return leader, term, cci, membership[cci]
}

type Case struct {
	Kind   string   `json:"kind"`
	Seq    []int    `json:"seq,omitempty"`
	Events []string `json:"events,omitempty"`
	Desc   []string `json:"desc,omitempty"`
	// concurrent part
	Pre     int   `json:"pre,omitempty"`
	Writers []int `json:"writers,omitempty"`
	Choices []int `json:"choices,omitempty"`
}

type viol struct{ sig, detail string }

func checkView(v dragonboat.ShardView, set map[upd]bool, tag string) []viol {
	l, t, c, reps := expected(set)
	var vs []viol
	if v.LeaderID != l || v.Term != t {
		vs = append(vs, viol{tag + "leader-not-highest-term", fmt.Sprintf("view leader=%d term=%d, want leader=%d term=%d", v.LeaderID, v.Term, l, t)})
	}
	if v.ConfigChangeIndex != c || !(len(v.Replicas) == 0 && len(reps) == 0 || reflect.DeepEqual(v.Replicas, reps)) {
		vs = append(vs, viol{tag + "membership-not-highest-config-index", fmt.Sprintf("view cci=%d replicas=%v, want cci=%d %v", v.ConfigChangeIndex, v.Replicas, c, reps)})
	}
	return vs
}

func regress(prev, cur dragonboat.ShardView, tag string) []viol {
	var vs []viol
	if cur.Term < prev.Term {
		vs = append(vs, viol{tag + "term-moved-backwards", fmt.Sprintf("%d -> %d", prev.Term, cur.Term)})
	}
	if prev.LeaderID != 0 && cur.LeaderID == 0 {
		vs = append(vs, viol{tag + "leader-replaced-by-no-leader", fmt.Sprintf("leader %d term %d -> none", prev.LeaderID, prev.Term)})
	}
	if cur.ConfigChangeIndex < prev.ConfigChangeIndex {
		vs = append(vs, viol{tag + "config-index-moved-backwards", fmt.Sprintf("%d -> %d", prev.ConfigChangeIndex, cur.ConfigChangeIndex)})
	}
	return vs
}

// runSingle: one node, a sequence of updates, one per call and all in one call.
func runSingle(alpha []upd, seq []int) (vs []viol, outcome string) {
	n := cluster.NewVerifNode()
	other := dragonboat.ShardView{ShardID: 99, Replicas: map[uint64]string{9: "x"}, ConfigChangeIndex: 5, LeaderID: 9, Term: 9}
	n.UpdateView([]dragonboat.ShardView{other})
	set := map[upd]bool{}
	var prev dragonboat.ShardView
	var all []dragonboat.ShardView
	for _, i := range seq {
		u := alpha[i]
		n.UpdateView([]dragonboat.ShardView{u.view()})
		all = append(all, u.view())
		set[u] = true
		cur := n.ShardInfo(shard)
		vs = append(vs, regress(prev, cur, "single/")...)
		vs = append(vs, checkView(cur, set, "single/")...)
		prev = cur
	}
	final := n.ShardInfo(shard)
	if !reflect.DeepEqual(n.ShardInfo(99), other) {
		vs = append(vs, viol{"single/other-shard-changed", fmt.Sprint(n.ShardInfo(99))})
	}
	n2 := cluster.NewVerifNode()
	n2.UpdateView(all)
	if len(seq) > 0 && !reflect.DeepEqual(n2.ShardInfo(shard), final) {
		vs = append(vs, viol{"single/one-call-differs-from-separate-calls", fmt.Sprintf("%v vs %v", n2.ShardInfo(shard), final)})
	}
	return vs, fmt.Sprintf("%d/%d/%d", final.LeaderID, final.Term, final.ConfigChangeIndex)
}

// cluster BFS -----------------------------------------------------------------------------------

type event struct {
	Kind string // "obs" | "gossip" | "leave" | "join" | "update" (memberlist events about member J, delivered to node I)
	I, J int
	U    int
}

func (e event) String(alpha []upd) string {
	if e.Kind == "obs" {
		return fmt.Sprintf("node%d observes %s", e.I, alpha[e.U])
	}
	if e.Kind == "unload" {
		return fmt.Sprintf("node%d's Raft host stops listing the shard (unloaded, a lifecycle event fires Notify)", e.I)
	}
	if e.Kind != "gossip" {
		return fmt.Sprintf("node%d is told by memberlist: member with node id %d %s", e.I, e.J, e.Kind)
	}
	return fmt.Sprintf("node%d gossips to node%d", e.I, e.J)
}

type world struct {
	nodes []*cluster.VerifNode
	sets  []map[upd]bool // updates that causally reached each node
	local []int          // index of the node's current local observation, -1 none
}

func newWorld(n int) *world {
	w := &world{}
	for i := 0; i < n; i++ {
		w.nodes = append(w.nodes, cluster.NewVerifNode())
		w.sets = append(w.sets, map[upd]bool{})
		w.local = append(w.local, -1)
	}
	return w
}

func (w *world) apply(alpha []upd, e event) {
	if e.Kind == "obs" {
		w.nodes[e.I].SetLocal([]dragonboat.ShardInfo{alpha[e.U].info()})
		w.nodes[e.I].Notify()
		w.sets[e.I][alpha[e.U]] = true
		w.local[e.I] = e.U
		return
	}
	if e.Kind == "unload" {
		// the node's own Raft host no longer lists the shard (stopped by the table manager, not yet
		// started) and a Raft lifecycle event calls Notify: what the node knows must stay
		w.nodes[e.I].SetLocal(nil)
		w.nodes[e.I].Notify()
		w.local[e.I] = -1
		return
	}
	if e.Kind != "gossip" {
		// a membership event carries no shard information: the view must not change (the real
		// handlers re-merge the node's own local observation, which the node already has)
		w.nodes[e.I].MemberEvent(e.Kind, uint64(e.J))
		return
	}
	// LocalState merges the sender's local info first (as the real delegate does)
	if w.local[e.I] >= 0 {
		w.sets[e.I][alpha[w.local[e.I]]] = true
	}
	b := w.nodes[e.I].LocalState()
	w.nodes[e.J].MergeRemoteState(b)
	for u := range w.sets[e.I] {
		w.sets[e.J][u] = true
	}
}

func viewKey(v dragonboat.ShardView) string {
	ks := make([]uint64, 0, len(v.Replicas))
	for k := range v.Replicas {
		ks = append(ks, k)
	}
	sort.Slice(ks, func(a, b int) bool { return ks[a] < ks[b] })
	return fmt.Sprintf("%d/%d/%d/%v", v.LeaderID, v.Term, v.ConfigChangeIndex, ks)
}

func (w *world) key() string {
	var sb strings.Builder
	for i, n := range w.nodes {
		fmt.Fprintf(&sb, "%s|%d;", viewKey(n.ShardInfo(shard)), w.local[i])
	}
	return sb.String()
}

func build(alpha []upd, n int, path []event) *world {
	w := newWorld(n)
	for _, e := range path {
		w.apply(alpha, e)
	}
	return w
}

func runCluster(r *evid.Run, alpha []upd, nNodes, depth int, localAlpha []int) {
	var events []event
	for i := 0; i < nNodes; i++ {
		for _, u := range localAlpha {
			events = append(events, event{"obs", i, 0, u})
		}
		for j := 0; j < nNodes; j++ {
			if i != j {
				events = append(events, event{"gossip", i, j, 0})
			}
		}
		events = append(events, event{"unload", i, 0, 0})
		// memberlist events about the members that lead some term of the ground truth
		for _, kind := range []string{"leave", "join", "update"} {
			for _, id := range []int{1, 2} {
				events = append(events, event{kind, i, id, 0})
			}
		}
	}
	type node struct{ path []event }
	seen := map[string]bool{build(alpha, nNodes, nil).key(): true}
	frontier := []node{{nil}}
	states, transitions := int64(1), int64(0)
	maxDepth := 0
	for d := 0; d < depth && len(frontier) > 0; d++ {
		var next []node
		for _, nd := range frontier {
			for _, e := range events {
				w := build(alpha, nNodes, nd.path)
				prev := make([]dragonboat.ShardView, nNodes)
				for i := range w.nodes {
					prev[i] = w.nodes[i].ShardInfo(shard)
				}
				w.apply(alpha, e)
				transitions++
				var vs []viol
				for i := range w.nodes {
					cur := w.nodes[i].ShardInfo(shard)
					vs = append(vs, regress(prev[i], cur, "cluster/")...)
					vs = append(vs, checkView(cur, w.sets[i], "cluster/")...)
				}
				path := append(append([]event(nil), nd.path...), e)
				if len(vs) > 0 {
					var ev []string
					for _, x := range path {
						ev = append(ev, x.String(alpha))
					}
					for _, v := range vs {
						r.Violate(v.sig, v.detail, Case{Kind: "cluster", Events: ev})
					}
				}
				k := w.key()
				if !seen[k] {
					seen[k] = true
					states++
					next = append(next, node{path})
					if len(path) > maxDepth {
						maxDepth = len(path)
					}
					// convergence: after two rounds of all-pairs gossip all nodes agree
					for round := 0; round < 2; round++ {
						for i := 0; i < nNodes; i++ {
							for j := 0; j < nNodes; j++ {
								if i != j {
									w.apply(alpha, event{"gossip", i, j, 0})
								}
							}
						}
					}
					first := viewKey(w.nodes[0].ShardInfo(shard))
					for i := 1; i < nNodes; i++ {
						if viewKey(w.nodes[i].ShardInfo(shard)) != first {
							var ev []string
							for _, x := range path {
								ev = append(ev, x.String(alpha))
							}
							r.Violate("cluster/no-agreement-after-all-pairs-gossip", fmt.Sprintf("node0 %s node%d %s", first, i, viewKey(w.nodes[i].ShardInfo(shard))), Case{Kind: "cluster", Events: ev})
						}
					}
				}
			}
		}
		frontier = next
	}
	r.States.Add(states)
	r.Transitions.Add(transitions)
	r.Validated.Add(transitions)
	r.Part(map[string]any{"scenario": fmt.Sprintf("cluster of %d nodes, %d events, BFS depth %d", nNodes, len(events), depth), "states": states, "transitions": transitions, "max_depth_with_new_state": maxDepth, "frontier_left": len(frontier)})
	if len(frontier) > 0 {
		r.Extra(fmt.Sprintf("cluster%d_frontier_at_depth_bound", nNodes), len(frontier))
	}
}

// (c) concurrent callers --------------------------------------------------------------------------

func concIdx(alpha []upd) []int {
	var idx []int
	for i, u := range alpha {
		if (u.Term == 1 && u.CCI == 1) || (u.Term == 2 && u.CCI == 2) || (u.Term == 3 && u.CCI == 3) || (u.Term == 3 && u.Leader == 0 && u.CCI == 1) {
			idx = append(idx, i)
		}
	}
	return idx[:5]
}

func concHooks() func() {
	vp.Hook = func(label string) {
		if t := sched.Cur(); t != nil {
			t.Point(label)
		}
	}
	vsync.AwaitHook = func(label string, ready func() bool) {
		if t := sched.Cur(); t != nil {
			t.Await(label, ready)
			return
		}
		for !ready() { // not under the explorer: cannot happen in this part
			runtime.Gosched()
		}
	}
	return func() { vp.Hook, vsync.AwaitHook = nil, nil }
}

func concScenario(alpha []upd, idx []int, pre int, ws []int, obs *[]dragonboat.ShardView) (sched.Scenario, *cluster.VerifNode, dragonboat.ShardView) {
	node := cluster.NewVerifNode()
	*obs = nil
	if pre >= 0 {
		node.UpdateView([]dragonboat.ShardView{alpha[idx[pre]].view()})
	}
	start := node.ShardInfo(shard)
	var sc sched.Scenario
	for _, w := range ws {
		u := alpha[idx[w]].view()
		sc.Threads = append(sc.Threads, func(t *sched.T) {
			t.Point("call-update")
			node.UpdateView([]dragonboat.ShardView{u})
		})
	}
	sc.Threads = append(sc.Threads, func(t *sched.T) {
		for k := 0; k < 2; k++ {
			t.Point("call-read")
			*obs = append(*obs, node.ShardInfo(shard))
		}
	})
	return sc, node, start
}

// runConcurrent: writers calling the real shardView.update at the same time as a reader, every
// interleaving at statement granularity (the view's RWMutex is cooperative under the explorer).
func runConcurrent(r *evid.Run, alpha []upd, idx []int) {
	defer concHooks()()
	bound := 2
	writers := 2
	if r.Thorough() {
		bound = 4
	}
	// the writers' updates: a representative subset (lower/higher term, with/without leader, lower/higher config index)
	idx = concIdx(alpha)
	type prog struct {
		pre  int   // index into idx, -1 = empty view
		w    []int // one update list per writer: index into idx; a negative value -k-1 pairs idx[k] with the first update in one list
		list bool
	}
	var progs []prog
	for pre := -1; pre < len(idx); pre += 2 {
		for a := 0; a < len(idx); a++ {
			for b := a; b < len(idx); b++ {
				progs = append(progs, prog{pre: pre, w: []int{a, b}})
				if r.Thorough() {
					for c := b; c < len(idx); c++ {
						progs = append(progs, prog{pre: pre, w: []int{a, b, c}})
					}
				}
			}
		}
	}
	_ = writers
	var execs, points int64
	exhausted := true
	for _, pg := range progs {
		if r.Expired() {
			r.Cap("deadline during the concurrent-callers part")
			break
		}
		var node *cluster.VerifNode
		var obs []dragonboat.ShardView
		var start dragonboat.ShardView
		all := map[upd]bool{}
		var desc []string
		if pg.pre >= 0 {
			all[alpha[idx[pg.pre]]] = true
			desc = append(desc, "view holds "+alpha[idx[pg.pre]].String())
		}
		for _, w := range pg.w {
			all[alpha[idx[w]]] = true
			desc = append(desc, "writer: update "+alpha[idx[w]].String())
		}
		mk := func() sched.Scenario {
			var sc sched.Scenario
			sc, node, start = concScenario(alpha, idx, pg.pre, pg.w, &obs)
			return sc
		}
		ex := &sched.Explorer{Mk: mk, MaxBound: bound, Stop: r.Expired,
			Check: func(x sched.Exec, _ *sched.Scenario) string {
				cs := Case{Kind: "concurrent", Desc: desc, Events: x.Trace, Pre: pg.pre, Writers: pg.w, Choices: x.Choices}
				if x.Diverged != "" {
					r.Cap("concurrent callers: a replayed prefix diverged: " + x.Diverged)
					return "diverged"
				}
				if x.Deadlock || x.Livelock || x.Panic != "" {
					r.Violate("concurrent/execution-abnormal", fmt.Sprintf("deadlock=%v livelock=%v panic=%s | %s", x.Deadlock, x.Livelock, x.Panic, sched.TraceStr(x)), cs)
					return "abnormal"
				}
				final := node.ShardInfo(shard)
				for _, v := range checkView(final, all, "concurrent/final-") {
					r.Violate(v.sig, v.detail+" | "+strings.Join(desc, "; ")+" | trace "+sched.TraceStr(x), cs)
				}
				prev := start
				for _, o := range append(append([]dragonboat.ShardView{}, obs...), final) {
					for _, v := range regress(prev, o, "concurrent/reader-sees-") {
						r.Violate(v.sig, v.detail+" | "+strings.Join(desc, "; ")+" | trace "+sched.TraceStr(x), cs)
					}
					prev = o
				}
				out := fmt.Sprint(viewKey(final), len(obs))
				for _, o := range obs {
					out += "|" + viewKey(o)
				}
				r.Outcome(fmt.Sprint(pg)+out, len(all) > 1)
				return out
			}}
		res := ex.Run()
		execs += res.Executions
		points += res.Points
		if !res.Exhausted {
			exhausted = false
		}
	}
	r.Transitions.Add(points)
	r.Extra("concurrent_scenarios", len(progs))
	r.Extra("concurrent_executions", execs)
	r.Extra("concurrent_preemption_bound", bound)
	r.Extra("concurrent_space_exhausted_within_bound", exhausted)
}

// (d) response headers ---------------------------------------------------------------------------

// runHeaders: a real engine; a fixed client program over one table (reads, writes, a streamed read
// pulled message by message with other calls in between); the node's view learns a newer leader at
// every position of the program in turn. The terms in the headers the node hands out, in the order it
// hands them out, never decrease.
func runHeaders(r *evid.Run) {
	eng, err := engx.Start(engx.Opts{})
	if err != nil {
		r.Inconcl.Add(1)
		return
	}
	defer eng.Close()
	tb, err := eng.CreateTable("hdr")
	if err != nil || eng.WaitTable("hdr", 20*time.Second) != nil {
		r.Inconcl.Add(1)
		return
	}
	ctx := context.Background()
	big := bytes.Repeat([]byte("h"), 1<<20)
	for i := 0; i < 10; i++ {
		c2, cancel := context.WithTimeout(ctx, 20*time.Second)
		_, err := eng.Put(c2, &regattapb.PutRequest{Table: []byte("hdr"), Key: []byte(fmt.Sprintf("k%02d", i)), Value: big})
		cancel()
		if err != nil {
			r.Inconcl.Add(1)
			return
		}
	}
	steps := []string{"range", "put", "stream:message-1", "range", "stream:message-2", "txn", "stream:message-3", "delete", "range"}
	term := uint64(1000)
	for pos := 0; pos <= len(steps); pos++ {
		// a fresh, higher pair of terms for every run on this engine
		term += 10
		lo, hi := term, term+5
		eng.Cluster.VerifUpdateView([]dragonboat.ShardView{{ShardID: tb.ClusterID, Replicas: map[uint64]string{1: "a", 3: "c"}, ConfigChangeIndex: term, LeaderID: 1, Term: lo}})
		var next func() (*regattapb.RangeResponse, bool)
		var stop func()
		var last uint64
		var lastWhat string
		see := func(what string, h *regattapb.ResponseHeader) {
			if h == nil {
				return
			}
			r.Outcome(fmt.Sprint("hdr", pos, what, h.RaftTerm-term), true)
			if h.RaftTerm < last {
				r.Violate("headers/term-moved-backwards", fmt.Sprintf("the node learned leader 3 at term %d before step %d of %v; %s reported term %d leader %d after %s had reported term %d", hi, pos, steps, what, h.RaftTerm, h.RaftLeaderId, lastWhat, last), map[string]any{"kind": "headers", "position": pos})
			}
			if h.RaftTerm >= last {
				last, lastWhat = h.RaftTerm, what
			}
		}
		for i, st := range steps {
			if i == pos {
				eng.Cluster.VerifUpdateView([]dragonboat.ShardView{{ShardID: tb.ClusterID, LeaderID: 3, Term: hi}})
			}
			c2, cancel := context.WithTimeout(ctx, 20*time.Second)
			switch {
			case st == "range":
				if rr, err := eng.Range(c2, &regattapb.RangeRequest{Table: []byte("hdr"), Key: []byte("k00")}); err == nil {
					see(st, rr.Header)
				}
			case st == "put":
				if rr, err := eng.Put(c2, &regattapb.PutRequest{Table: []byte("hdr"), Key: []byte("small"), Value: []byte("v")}); err == nil {
					see(st, rr.Header)
				}
			case st == "txn":
				if rr, err := eng.Txn(c2, &regattapb.TxnRequest{Table: []byte("hdr"), Success: []*regattapb.RequestOp{{Request: &regattapb.RequestOp_RequestRange{RequestRange: &regattapb.RequestOp_Range{Key: []byte("small")}}}}}); err == nil {
					see(st, rr.Header)
				}
			case st == "delete":
				if rr, err := eng.Delete(c2, &regattapb.DeleteRangeRequest{Table: []byte("hdr"), Key: []byte("small")}); err == nil {
					see(st, rr.Header)
				}
			case strings.HasPrefix(st, "stream:"):
				if next == nil {
					seq, err := eng.IterateRange(ctx, &regattapb.RangeRequest{Table: []byte("hdr"), Key: []byte("k"), RangeEnd: []byte("l")})
					if err != nil {
						cancel()
						continue
					}
					next, stop = iter.Pull((iter.Seq[*regattapb.RangeResponse])(seq))
				}
				if m, ok := next(); ok {
					see(st, m.Header)
				}
			}
			cancel()
		}
		if pos == len(steps) {
			eng.Cluster.VerifUpdateView([]dragonboat.ShardView{{ShardID: tb.ClusterID, LeaderID: 3, Term: hi}})
		}
		if stop != nil {
			stop()
		}
		r.AddExtra("header_programs", 1)
	}
}

func Run(r *evid.Run) {
	r.Check = "c19"
	alpha := alphabet()
	depth := 4
	if r.Thorough() {
		depth = 5
	}
	r.Rule(fmt.Sprintf("(a) single node: every sequence (with repetition) of length 0..%d over %d updates consistent with a ground truth of terms 1..3 (one leader per term) and config indices 1..3 incl. no-leader and empty updates, fed to the real shardView one per call and all in one call; after every step the view must equal (leader of the highest leader-bearing term, membership of the highest config index) of the SET of updates delivered - hence order- and repetition-independent - and term/leader/config index never regress. (b) cluster: BFS over {node i observes a local Raft update (through the real toShardViewList/Cluster.Notify), node i gossips to node j (real delegate LocalState -> JSON -> MergeRemoteState), memberlist tells node i that a member left / joined / was updated (real Cluster.NotifyLeave/NotifyJoin/NotifyUpdate), node i's own Raft host stops listing the shard while a lifecycle event calls Notify} with a visited set on the tuple of complete views + local observations; same invariants per node against the set of causally delivered updates; agreement after all-pairs gossip from every new state. (c) concurrent callers: a view holding nothing or one update, two (thorough: also three) writers each calling the real update() with one update of a 5-update subset (all unordered combinations) next to a reader that looks twice: every interleaving at statement granularity (points before every statement of update and shardInfo) up to 2 preemptions (thorough: 4), the view's RWMutex made cooperative by the build overlay; the final view must be the expected one of the set and the reader never sees term/leader/config index regress. (d) response headers of a real engine: a fixed client program (range, put, streamed read of three messages pulled with other calls in between, transaction, delete) while the node's view learns a newer leader before every step in turn: the terms in the headers, in the order they are handed out, never decrease. Non-trivial: sequence contains a leader-bearing update; distinct = distinct final views", depth, len(alpha)))
	total := par.SeqCount(len(alpha), depth)
	par.For(total, r.Expired, func(i int64) {
		seq := par.SeqAt(len(alpha), depth, i)
		vs, outcome := runSingle(alpha, seq)
		nt := false
		for _, s := range seq {
			if alpha[s].Leader != 0 {
				nt = true
			}
		}
		r.Outcome(outcome, nt)
		r.Transitions.Add(int64(len(seq)))
		for _, v := range vs {
			var d []string
			for _, s := range seq {
				d = append(d, alpha[s].String())
			}
			r.Violate(v.sig, v.detail, Case{Kind: "single", Seq: seq, Desc: d})
		}
	})
	r.Extra("single_node_sequences", total)
	// local alphabet for the cluster part: a representative subset (indices into alpha)
	var localAlpha []int
	for i, u := range alpha {
		if (u.Term == 1 && u.CCI == 1) || (u.Term == 2 && u.CCI == 2) || (u.Term == 3 && u.CCI == 3) || (u.Term == 3 && u.Leader == 0 && u.CCI == 1) {
			localAlpha = append(localAlpha, i)
		}
	}
	if r.Thorough() {
		runCluster(r, alpha, 2, 7, localAlpha)
		runCluster(r, alpha, 3, 5, localAlpha)
	} else {
		runCluster(r, alpha, 2, 5, localAlpha)
		runCluster(r, alpha, 3, 4, localAlpha)
	}
	runConcurrent(r, alpha, localAlpha)
	runHeaders(r)
	r.Sample(map[string]any{"single": []string{alpha[7].String(), alpha[1].String(), alpha[16].String()}, "cluster": []string{"node0 observes " + alpha[localAlpha[0]].String(), "node0 gossips to node1", "node1 observes " + alpha[localAlpha[3]].String()}})
	r.Assume("ground truth has at most one leader per term (Raft) and one membership per configuration-change index; updates contradicting that are outside the property")
	r.Assume("states = distinct tuples of complete per-node views (+ local observation); every transition executes the real update/merge code, so all traces are implementation traces")
}

func Replay(raw json.RawMessage) (string, bool) {
	var c Case
	if err := json.Unmarshal(raw, &c); err != nil {
		return err.Error(), false
	}
	if c.Kind == "single" {
		vs, _ := runSingle(alphabet(), c.Seq)
		var sb strings.Builder
		for _, v := range vs {
			fmt.Fprintf(&sb, "%s: %s\n", v.sig, v.detail)
		}
		return sb.String(), len(vs) == 0
	}
	if c.Kind == "concurrent" {
		defer concHooks()()
		alpha := alphabet()
		idx := concIdx(alpha)
		var obs []dragonboat.ShardView
		var node *cluster.VerifNode
		var start dragonboat.ShardView
		all := map[upd]bool{}
		if c.Pre >= 0 {
			all[alpha[idx[c.Pre]]] = true
		}
		for _, w := range c.Writers {
			all[alpha[idx[w]]] = true
		}
		x, _ := sched.Replay(func() sched.Scenario {
			var sc sched.Scenario
			sc, node, start = concScenario(alpha, idx, c.Pre, c.Writers, &obs)
			return sc
		}, c.Choices, 10000)
		var sb strings.Builder
		fmt.Fprintf(&sb, "%s\ntrace: %s\n", strings.Join(c.Desc, "; "), sched.TraceStr(x))
		ok := x.Diverged == "" && !x.Deadlock && !x.Livelock && x.Panic == ""
		final := node.ShardInfo(shard)
		for _, v := range checkView(final, all, "concurrent/final-") {
			fmt.Fprintf(&sb, "%s: %s\n", v.sig, v.detail)
			ok = false
		}
		prev := start
		for _, o := range append(append([]dragonboat.ShardView{}, obs...), final) {
			for _, v := range regress(prev, o, "concurrent/reader-sees-") {
				fmt.Fprintf(&sb, "%s: %s\n", v.sig, v.detail)
				ok = false
			}
			prev = o
		}
		return sb.String(), ok
	}
	return "cluster traces are replayed by re-running the BFS (deterministic); events: " + strings.Join(c.Events, "; ") + "\n", false
}
