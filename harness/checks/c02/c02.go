// Package c02: transactions are atomic if/then/else - one branch, in order, all or nothing.
package c02

import (
	"encoding/json"
	"fmt"
	"sort"
	"strings"
	"time"

	"github.com/jamf/regatta/regattapb"
	"github.com/jamf/regatta/storage/table/fsm"
	sm "github.com/lni/dragonboat/v4/statemachine"

	"github.com/jamf/regatta/verifvp/vp"

	c01pkg "verif/harness/checks/c01"
	. "verif/harness/cmdx"
	"verif/harness/evid"
	"verif/harness/fsmx"
	"verif/harness/par"
	"verif/harness/refkv"
	"verif/harness/sched"
)

var wild = []byte{0}

func Predicates() []*regattapb.Compare {
	E, NE, G, L := regattapb.Compare_EQUAL, regattapb.Compare_NOT_EQUAL, regattapb.Compare_GREATER, regattapb.Compare_LESS
	return []*regattapb.Compare{
		Exists("a", nil), Exists("b", nil), Exists("m", nil),
		Cmp("a", nil, E, "1"), Cmp("a", nil, NE, "1"), Cmp("a", nil, G, "1"), Cmp("a", nil, L, "1"),
		Cmp("b", nil, E, ""), Cmp("b", nil, G, ""), Cmp("b", nil, L, ""), Cmp("b", nil, NE, ""),
		Cmp("m", nil, NE, "1"),
		Exists("a", B("b")), Exists("a", wild), Exists("c", B("d")),
		Cmp("a", wild, E, "1"), Cmp("a", wild, G, ""), Cmp("a", B("b"), L, "2"), Cmp("a", wild, NE, "1"), Cmp("c", B("d"), NE, "x"),
	}
}

func Operations() []*regattapb.RequestOp {
	return []*regattapb.RequestOp{
		OpGet("a", nil, 0, false, false),
		OpGet("a", wild, 0, false, false),
		OpGet("a", wild, 1, false, false),
		OpGet("a", wild, 0, false, true),
		OpPut("a", "1", false),
		OpPut("a", "2", true),
		OpPut("ab", "", true),
		OpPut("b", "1", false),
		OpDel("a", nil, false, false),
		OpDel("a", nil, true, true),
		OpDel("a", wild, false, true),
		OpDel("a", B("b"), true, false),
	}
}

var preStates = []map[string]string{
	{},
	{"a": "1"},
	{"a": "2", "b": ""},
	{"a": "1", "ab": "1", "b": "1"},
	{"a": "", "b": "2"},
	{"ab": "1"},
	{"a": "1", "b": ""},
	{"a": "0", "ab": "2", "b": "1", "c": "3"},
}

// Case is one transaction at one embedding position on one pre-state.
type Case struct {
	Pre  int      `json:"pre"`
	Pos  int      `json:"pos"` // 0 alone, 1 after put, 2 after range delete, 3 followed by put
	Cmp  []int    `json:"cmp"`
	Succ []int    `json:"succ"`
	Fail []int    `json:"fail"`
	Desc string   `json:"desc,omitempty"`
	Note []string `json:"note,omitempty"`
}

func (c Case) txn(preds []*regattapb.Compare, ops []*regattapb.RequestOp) *regattapb.Command {
	var cm []*regattapb.Compare
	var s, f []*regattapb.RequestOp
	for _, i := range c.Cmp {
		cm = append(cm, preds[i])
	}
	for _, i := range c.Succ {
		s = append(s, ops[i])
	}
	for _, i := range c.Fail {
		f = append(f, ops[i])
	}
	return Txn(cm, s, f)
}

type viol struct{ sig, detail string }

// session is a live FSM used for a segment of chained transactions.
type session struct {
	inst *fsmx.Inst
	m    *refkv.Model
	idx  uint64
	n    int
}

func newSession() (*session, error) {
	env := fsmx.NewEnv()
	inst, _, err := env.Open("t", 10001, fsm.RecoveryTypeSnapshot)
	if err != nil {
		return nil, err
	}
	return &session{inst: inst, m: refkv.New()}, nil
}

func (s *session) close() { s.inst.Close() }

func (s *session) apply(cmds ...*regattapb.Command) ([]sm.Entry, error) {
	var ents []sm.Entry
	for _, c := range cmds {
		s.idx++
		ents = append(ents, fsmx.Entry(s.idx, c))
	}
	return s.inst.Update(ents)
}

func stateStr(m map[string][]byte) string {
	ks := make([]string, 0, len(m))
	for k := range m {
		ks = append(ks, k)
	}
	sort.Strings(ks)
	var sb strings.Builder
	for _, k := range ks {
		fmt.Fprintf(&sb, "%q=%q ", k, m[k])
	}
	return sb.String()
}

// reset brings FSM and model to the pre-state with a real batch.
func (s *session) reset(pre map[string]string) error {
	same := len(pre) == len(s.m.KV)
	if same {
		for k, v := range pre {
			if mv, ok := s.m.KV[k]; !ok || string(mv) != v {
				same = false
				break
			}
		}
	}
	if same {
		return nil
	}
	cmds := []*regattapb.Command{Del("\x00", wild, false, false)}
	ks := make([]string, 0, len(pre))
	for k := range pre {
		ks = append(ks, k)
	}
	sort.Strings(ks)
	for _, k := range ks {
		cmds = append(cmds, Put(k, pre[k], false))
	}
	seq := Seq(cmds...)
	if _, err := s.apply(seq); err != nil {
		return err
	}
	s.m.Apply(s.idx, fsmx.Wire(seq))
	return nil
}

func predKind(c *regattapb.Compare) string {
	k := "single"
	if c.RangeEnd != nil {
		k = "range"
	}
	if c.TargetUnion == nil {
		return k + "-exists"
	}
	return k + "-" + c.Result.String()
}

func opKind(o *regattapb.RequestOp) string {
	switch x := o.Request.(type) {
	case *regattapb.RequestOp_RequestRange:
		if x.RequestRange.RangeEnd != nil {
			return "get-range"
		}
		return "get"
	case *regattapb.RequestOp_RequestPut:
		if x.RequestPut.PrevKv {
			return "put+prev"
		}
		return "put"
	case *regattapb.RequestOp_RequestDeleteRange:
		k := "del"
		if x.RequestDeleteRange.RangeEnd != nil {
			k = "del-range"
		}
		if x.RequestDeleteRange.PrevKv {
			k += "+prev"
		}
		if x.RequestDeleteRange.Count {
			k += "+count"
		}
		return k
	}
	return "empty"
}

var posName = []string{"alone", "after-put-in-same-call", "after-range-delete-in-same-call", "followed-by-put"}

// exec runs one case on the session (which must be in the pre-state) and compares with the model.
func (s *session) exec(c Case, preds []*regattapb.Compare, ops []*regattapb.RequestOp) (vs []viol, outcome string, nontrivial bool) {
	txn := c.txn(preds, ops)
	var cmds []*regattapb.Command
	ti := 0
	switch c.Pos {
	case 0:
		cmds = []*regattapb.Command{txn}
	case 1:
		cmds = []*regattapb.Command{Put("a", "1", false), txn}
		ti = 1
	case 2:
		cmds = []*regattapb.Command{Del("a", B("b"), false, false), txn}
		ti = 1
	case 3:
		cmds = []*regattapb.Command{txn, Put("b", "7", true)}
	}
	// Read-only path first (state before the call), only meaningful when alone.
	wireTxn := fsmx.Wire(txn)
	readonly := (&regattapb.TxnRequest{Success: wireTxn.Txn.Success, Failure: wireTxn.Txn.Failure}).IsReadonly()
	var lookupStr string
	if readonly && c.Pos == 0 {
		res, err := s.inst.Lookup(&regattapb.TxnRequest{Table: Table, Compare: wireTxn.Txn.Compare, Success: wireTxn.Txn.Success, Failure: wireTxn.Txn.Failure})
		if err != nil {
			vs = append(vs, viol{"lookup-path-error", err.Error()})
		} else {
			tr := res.(*regattapb.TxnResponse)
			lookupStr = fmt.Sprintf("succeeded=%v %s", tr.Succeeded, fsmx.RespsStr(tr.Responses))
		}
	}
	out, err := s.apply(cmds...)
	if err != nil {
		e := err.Error()
		if len(e) > 60 {
			e = e[:60]
		}
		return append(vs, viol{"update-error/" + e, err.Error()}), "", true
	}
	base := s.idx - uint64(len(cmds))
	var sb strings.Builder
	for i, cmd := range cmds {
		before := stateStr(s.m.KV)
		v, cr := s.m.Apply(base+uint64(i)+1, fsmx.Wire(cmd))
		want, got := fsmx.ExpectStr(v, cr), fsmx.NormalizeObserved(out[i])
		if i == ti {
			taken := wireTxn.Txn.Failure
			if v == 1 {
				taken = wireTxn.Txn.Success
			}
			if got != want {
				sig := "txn/responses"
				if out[i].Result.Value != v {
					var pk []string
					for _, p := range wireTxn.Txn.Compare {
						pk = append(pk, predKind(p))
					}
					sig = "txn/succeeded-flag/" + strings.Join(pk, "&")
				} else {
					var ok []string
					for _, o := range taken {
						ok = append(ok, opKind(o))
					}
					sig += "/" + strings.Join(ok, ",")
				}
				vs = append(vs, viol{sig + "@" + posName[c.Pos], fmt.Sprintf("pre={%s} %s: got %s want %s", before, fsmx.CmdStr(wireTxn), got, want)})
			}
			if readonly && c.Pos == 0 && lookupStr != "" {
				wantL := fmt.Sprintf("succeeded=%v %s", v == 1, fsmx.RespsStr(cr.Responses))
				if lookupStr != wantL {
					vs = append(vs, viol{"txn/readonly-lookup-path-differs", fmt.Sprintf("pre={%s} %s: Lookup gave %s want %s", before, fsmx.CmdStr(wireTxn), lookupStr, wantL)})
				}
			}
			if len(cr.Responses) > 0 || before != stateStr(s.m.KV) {
				nontrivial = true
			}
			sb.WriteString(got)
		} else if got != want {
			vs = append(vs, viol{"neighbour-result/" + posName[c.Pos], fmt.Sprintf("%s: got %s want %s", fsmx.CmdStr(cmd), got, want)})
		}
	}
	kvs, err := s.inst.All()
	if err != nil {
		vs = append(vs, viol{"read-error", err.Error()})
	} else {
		want := s.m.Range(&regattapb.RequestOp_Range{Key: wild, RangeEnd: wild})
		if g, w := fsmx.KVs(kvs), fsmx.KVs(want.Kvs); g != w {
			vs = append(vs, viol{"txn/state-after@" + posName[c.Pos], fmt.Sprintf("%s: state %s want %s", fsmx.CmdStr(wireTxn), g, w)})
		}
		sb.WriteString(fsmx.KVs(kvs))
	}
	if li, _ := s.inst.LocalIndex(); li != s.m.Applied {
		vs = append(vs, viol{"applied-index", fmt.Sprintf("%d want %d", li, s.m.Applied)})
	}
	return vs, sb.String(), nontrivial
}

// RunAlone runs a case on a fresh FSM (minimal artefact form).
func RunAlone(c Case) []viol {
	s, err := newSession()
	if err != nil {
		return []viol{{"open-error", err.Error()}}
	}
	defer s.close()
	if err := s.reset(preStates[c.Pre]); err != nil {
		return []viol{{"reset-error", err.Error()}}
	}
	vs, _, _ := s.exec(c, Predicates(), Operations())
	return vs
}

type lists struct {
	cmps  [][]int
	pairs [][2][]int
}

func idxLists(n, maxLen int) [][]int {
	out := [][]int{{}}
	var rec func(cur []int)
	rec = func(cur []int) {
		if len(cur) == maxLen {
			return
		}
		for i := 0; i < n; i++ {
			nx := append(append([]int(nil), cur...), i)
			out = append(out, nx)
			rec(nx)
		}
	}
	rec(nil)
	return out
}

func Run(r *evid.Run) {
	r.Check = "c02"
	preds, ops := Predicates(), Operations()
	// work units: (predicate list, branch pair) groups; each unit runs all pre-states x positions.
	type unit struct {
		cmp        []int
		succ, fail []int
	}
	var units []unit
	opLists := idxLists(len(ops), 2)
	add := func(cmpLists [][]int, maxOps int) {
		for _, cl := range cmpLists {
			for _, s := range opLists {
				for _, f := range opLists {
					if len(s)+len(f) > maxOps {
						continue
					}
					units = append(units, unit{cl, s, f})
				}
			}
		}
	}
	c01 := idxLists(len(preds), 1)
	if r.Thorough() {
		add(c01, 3)
		var c2 [][]int
		for _, l := range idxLists(len(preds), 2) {
			if len(l) == 2 {
				c2 = append(c2, l)
			}
		}
		add(c2, 2)
	} else {
		add(c01, 2)
		// pairs of predicates with at most one operation per run
		var c2 [][]int
		for _, l := range idxLists(len(preds), 2) {
			if len(l) == 2 {
				c2 = append(c2, l)
			}
		}
		add(c2, 1)
	}
	// branches of exactly three operations (a read, a write and a read again is the shortest list in
	// which an operation must observe an effect staged after an earlier read of the same branch): every
	// 3-list as the success branch of a transaction without predicates, and as the failure branch of a
	// transaction whose predicate is false on every pre-state
	threeFrom := len(units)
	{
		falsePred := -1
		for i, p := range preds {
			if predKind(p) == "single-exists" && string(p.Key) == "m" {
				falsePred = i
			}
		}
		for _, l := range idxLists(len(ops), 3) {
			if len(l) != 3 {
				continue
			}
			units = append(units, unit{nil, l, nil})
			if falsePred >= 0 {
				units = append(units, unit{[]int{falsePred}, nil, l})
			}
		}
	}
	r.Extra("three_operation_branch_units", len(units)-threeFrom)
	r.Rule(fmt.Sprintf("transactions = predicate lists (0..2 of %d predicates: existence / EQUAL / NOT_EQUAL / GREATER / LESS on present, missing, empty-valued keys and on non-empty and empty ranges) x success/failure lists (<= 2 operations per branch from %d operations: single and range reads with limit/count, puts with and without prev_kv, single and range deletes with flags; quick: <= 2 operations in total, thorough: <= 3; plus every list of exactly 3 operations as the success branch of a transaction without predicates and as the failure branch of a transaction with a false predicate) x %d pre-states x 4 embedding positions in an apply call {alone, after a put, after a range delete, followed by a put}; executed chained on live real FSMs (state restored by a real batch) and compared with the model: succeeded flag, n-th response for n-th op, state afterwards, applied index; read-only transactions additionally through FSM.Lookup(TxnRequest). A failing case is re-run alone on a fresh FSM. Range predicates (EQUAL / NOT_EQUAL) over six 1 MiB pairs - more than one response message carries - with the odd value at every position, through the log and the read-only path. Atomic visibility: an updater applying a transaction (alone / after a put in the same call / with range delete + put) against a reader doing two full-range lookups, scheduling point before every statement, all interleavings up to the preemption bound. Non-trivial: the transaction returned a response or changed state; distinct = distinct (responses, state-after) renderings", len(preds), len(ops), len(preStates)))
	r.Extra("units", len(units))
	const chunk = 8
	nchunks := int64((len(units) + chunk - 1) / chunk)
	done := par.For(nchunks, r.Expired, func(ci int64) {
		s, err := newSession()
		if err != nil {
			r.Violate("open-error", err.Error(), nil)
			return
		}
		defer func() { s.close() }()
		lo, hi := int(ci)*chunk, int(ci+1)*chunk
		if hi > len(units) {
			hi = len(units)
		}
		for _, u := range units[lo:hi] {
			for pre := range preStates {
				for pos := 0; pos < 4; pos++ {
					c := Case{Pre: pre, Pos: pos, Cmp: u.cmp, Succ: u.succ, Fail: u.fail}
					if err := s.reset(preStates[pre]); err != nil {
						r.Violate("reset-error", err.Error(), c)
						s.close()
						s, _ = newSession()
						continue
					}
					vs, outcome, nt := s.exec(c, preds, ops)
					r.Outcome(outcome, nt)
					if len(vs) > 0 {
						c.Desc = fsmx.CmdStr(c.txn(preds, ops))
						alone := RunAlone(c)
						if len(alone) > 0 {
							for _, v := range alone {
								r.Violate(v.sig, v.detail, c)
							}
						} else {
							for _, v := range vs {
								r.Violate("chained-only/"+v.sig, v.detail, c)
							}
						}
						// state may be off: start a new session
						s.close()
						s, _ = newSession()
					}
				}
			}
		}
	})
	if done < nchunks {
		r.Cap(fmt.Sprintf("deadline: %d of %d unit chunks", done, nchunks))
	}
	last := units[len(units)-1]
	lc := Case{Pre: 3, Pos: 1, Cmp: last.cmp, Succ: last.succ, Fail: last.fail}
	lc.Desc = fsmx.CmdStr(lc.txn(preds, ops))
	r.Sample(lc)
	mid := units[len(units)/2]
	mc := Case{Pre: 7, Pos: 2, Cmp: mid.cmp, Succ: mid.succ, Fail: mid.fail}
	mc.Desc = fsmx.CmdStr(mc.txn(preds, ops))
	r.Sample(mc)
	runVisibility(r)
	runHugeCall(r)
	runLargeRange(r)
	// transactions over pending writes of the same apply call, for every pair of key lengths 1..20
	// (the sweep lives in C01: plain puts, then a transaction with a range predicate and reads, counted
	// deletes ... in ONE call); only the transaction results are C02's
	const maxLen = 20
	par.For(int64(maxLen*maxLen*2), r.Expired, func(i int64) {
		c := c01pkg.Case{Kind: "lengths", Lo: int(i%maxLen) + 1, Hi: int(i/maxLen%maxLen) + 1, Flags: int(i / maxLen / maxLen)}
		sigs, details := c01pkg.RunLengthsExt(c)
		r.Outcome(fmt.Sprint("lengths", c.Lo, c.Hi, c.Flags, len(sigs)), true)
		for k, sg := range sigs {
			if strings.HasSuffix(sg, "/TXN") {
				r.Violate("txn/"+sg, details[k], map[string]any{"kind": "lengths", "l1": c.Lo, "l2": c.Hi, "order": c.Flags})
			}
		}
	})
	r.Assume("durable atomicity of a transaction under crashes is decided by C04; visibility to concurrent readers is explored at statement granularity of regatta's code (scheduling point before every statement of Update/handleTxn/handleTxnOps/EnsureIndexed/Commit and of the read path, up to the preemption bound in visibility_preemption_bound); pebble's own batch commit runs atomically between two points")
}

func Replay(raw json.RawMessage) (string, bool) {
	var probe struct {
		Kind    string `json:"kind"`
		Variant string `json:"variant"`
		L1      int    `json:"l1"`
		L2      int    `json:"l2"`
		Order   int    `json:"order"`
	}
	_ = json.Unmarshal(raw, &probe)
	switch probe.Kind {
	case "visibility":
		rr := evid.NewRun("C02", "exploration")
		runVisibilityOnly(rr, probe.Variant)
		sigs := rr.ViolationSignatures()
		return "re-explored variant " + probe.Variant + ": " + strings.Join(sigs, "; ") + "\n", len(sigs) == 0
	case "huge-call":
		rr := evid.NewRun("C02", "exploration")
		runHugeCall(rr)
		sigs := rr.ViolationSignatures()
		return strings.Join(sigs, "; ") + "\n", len(sigs) == 0
	case "large-range":
		rr := evid.NewRun("C02", "exploration")
		runLargeRange(rr)
		sigs := rr.ViolationSignatures()
		return strings.Join(sigs, "; ") + "\n", len(sigs) == 0
	case "lengths":
		sigs, details := c01pkg.RunLengthsExt(c01pkg.Case{Kind: "lengths", Lo: probe.L1, Hi: probe.L2, Flags: probe.Order})
		var sb strings.Builder
		bad := false
		for k, sg := range sigs {
			if strings.HasSuffix(sg, "/TXN") {
				fmt.Fprintf(&sb, "txn/%s: %s\n", sg, details[k])
				bad = true
			}
		}
		return sb.String(), !bad
	}
	var c Case
	if err := json.Unmarshal(raw, &c); err != nil {
		return err.Error(), false
	}
	vs := RunAlone(c)
	var sb strings.Builder
	for _, v := range vs {
		fmt.Fprintf(&sb, "%s: %s\n", v.sig, v.detail)
	}
	return sb.String(), len(vs) == 0
}

// ---------------------------------------------------------------------------------------------
// Atomic visibility at statement granularity: one updater applies a two-put transaction (alone, and
// preceded by a plain put in the same apply call), one reader performs two full-range lookups; a
// scheduling point before every statement of Update, handleTxn, handleTxnOps, EnsureIndexed, Commit
// and of the read path (build overlay); all interleavings up to a preemption bound. Every read must
// equal the state at an entry boundary of the call (in log order) - never part of a transaction.

// runHugeCall: an apply call that writes more than 16 MiB before and inside a transaction, and whose
// LAST entry is malformed, so that the call fails as a whole (dragonboat would stop the replica). What
// a reader - or a restart - finds afterwards must not contain part of the transaction: whatever the
// implementation does to bound the size of its write batch, a transaction's effects go together.
func runHugeCall(r *evid.Run) {
	for _, plain := range []int{6, 7, 8} { // 12, 14, 16 MiB of plain puts before the transaction
		env := fsmx.NewEnv()
		inst, _, err := env.Open("t", 10001, fsm.RecoveryTypeSnapshot)
		if err != nil {
			r.Inconcl.Add(1)
			return
		}
		v2 := strings.Repeat("H", 2<<20)
		var ents []sm.Entry
		idx := uint64(0)
		for i := 0; i < plain; i++ {
			idx++
			ents = append(ents, fsmx.Entry(idx, Put(fmt.Sprintf("huge-%d", i), v2, false)))
		}
		idx++
		txnIdx := idx
		ents = append(ents, fsmx.Entry(idx, Txn(nil, Ops(OpPut("txn-a", v2, false), OpPut("txn-b", v2, false), OpPut("txn-c", "c", false)), nil)))
		ents = append(ents, sm.Entry{Index: idx + 1, Cmd: []byte{0xff, 0xff, 0xff}}) // not a command
		_, uerr := inst.F.Update(ents)
		kvs, rerr := inst.All()
		li, _ := inst.LocalIndex()
		inst.Close()
		if rerr != nil {
			r.Inconcl.Add(1)
			continue
		}
		seen := map[string]bool{}
		for _, kv := range kvs {
			seen[string(kv.Key)] = true
		}
		r.Outcome(fmt.Sprint("huge-call", plain, uerr != nil, len(kvs), li), true)
		n := 0
		for _, k := range []string{"txn-a", "txn-b", "txn-c"} {
			if seen[k] {
				n++
			}
		}
		cs := map[string]any{"kind": "huge-call", "plain_puts": plain}
		if n != 0 && n != 3 {
			r.Violate("huge-call/part-of-a-transaction-visible", fmt.Sprintf("after an apply call of %d x 2MiB puts + a transaction of three puts whose last entry is malformed (Update error: %v) the table holds %d of the 3 pairs of the transaction (%d pairs in all, applied index %d)", plain, uerr, n, len(kvs), li), cs)
		}
		if li >= txnIdx && n != 3 {
			r.Violate("huge-call/transaction-recorded-as-applied-without-its-effects", fmt.Sprintf("%d x 2MiB puts + transaction at index %d: applied index %d but %d of its 3 pairs visible", plain, txnIdx, li, n), cs)
		}
	}
}

// runLargeRange: a range predicate holds only if EVERY key of the range satisfies it - also when the
// range holds more data than one response message carries (4 MiB): six pairs of 1 MiB each, all equal
// or with one odd value at each position in turn; EQUAL / NOT_EQUAL predicates over the whole range
// through the log (a branch marker is written) and through the read-only path.
func runLargeRange(r *evid.Run) {
	const n = 6
	same, odd := strings.Repeat("S", 1<<20), strings.Repeat("S", 1<<20-1)+"X"
	for j := -1; j < n; j++ {
		env := fsmx.NewEnv()
		inst, _, err := env.Open("t", 10001, fsm.RecoveryTypeSnapshot)
		if err != nil {
			r.Inconcl.Add(1)
			return
		}
		idx := uint64(0)
		ok := true
		for i := 0; i < n; i++ {
			v := same
			if i == j {
				v = odd
			}
			idx++
			if _, err := inst.F.Update([]sm.Entry{fsmx.Entry(idx, Put(fmt.Sprintf("r%d", i), v, false))}); err != nil {
				ok = false
			}
		}
		if !ok {
			inst.Close()
			r.Inconcl.Add(1)
			continue
		}
		for _, pc := range []struct {
			name string
			cmp  *regattapb.Compare
			want bool
		}{
			{"all-EQUAL", Cmp("r", wild, regattapb.Compare_EQUAL, same), j < 0},
			{"all-NOT_EQUAL-odd", Cmp("r", wild, regattapb.Compare_NOT_EQUAL, odd), j < 0},
		} {
			cs := map[string]any{"kind": "large-range", "odd_at": j, "predicate": pc.name}
			wire := fsmx.Wire(Txn(Cmps(pc.cmp), Ops(OpGet("r0", nil, 0, true, false)), Ops(OpGet("r1", nil, 0, true, false))))
			res, lerr := inst.Lookup(&regattapb.TxnRequest{Table: Table, Compare: wire.Txn.Compare, Success: wire.Txn.Success, Failure: wire.Txn.Failure})
			if lerr != nil {
				r.Violate("large-range/read-only-path-error", lerr.Error(), cs)
			} else if got := res.(*regattapb.TxnResponse).Succeeded; got != pc.want {
				r.Violate("large-range/predicate-over-a-range-larger-than-one-message/read-only", fmt.Sprintf("%s over six 1 MiB pairs, odd value at %d: succeeded=%v", pc.name, j, got), cs)
			}
			idx++
			if _, err := inst.F.Update([]sm.Entry{fsmx.Entry(idx, Txn(Cmps(pc.cmp), Ops(OpPut("marker", "then", false)), Ops(OpPut("marker", "else", false))))}); err != nil {
				r.Violate("large-range/update-error", err.Error(), cs)
				continue
			}
			kvs, _ := inst.All()
			marker := ""
			for _, kv := range kvs {
				if string(kv.Key) == "marker" {
					marker = string(kv.Value)
				}
			}
			want := "else"
			if pc.want {
				want = "then"
			}
			r.Outcome(fmt.Sprint("large-range", j, pc.name, marker), true)
			r.AddExtra("large_range_predicate_cases", 1)
			if marker != want {
				r.Violate("large-range/predicate-over-a-range-larger-than-one-message/write", fmt.Sprintf("%s over six 1 MiB pairs, odd value at %d: the %q branch ran", pc.name, j, marker), cs)
			}
		}
		inst.Close()
	}
}

func runVisibility(r *evid.Run) { runVisibilityOnly(r, "") }

// runVisibilityOnly explores one variant only (replay of a visibility artefact: the bounded
// exploration of a variant is deterministic and takes seconds) or all of them (only == "").
func runVisibilityOnly(r *evid.Run, only string) {
	t0 := time.Now()
	bound := 2
	if r.Thorough() {
		bound = 3
	}
	vp.Hook = func(label string) {
		if t := sched.Cur(); t != nil {
			t.Point(label)
		}
	}
	defer func() { vp.Hook = nil }()
	for _, variant := range []string{"txn-alone", "put-then-txn-in-one-call", "txn-with-delete-and-put", "txn-alone/reader=readonly-txn-without-predicates", "txn-alone/reader=readonly-txn-with-predicate"} {
		if only != "" && variant != only {
			continue
		}
		var inst *fsmx.Inst
		var reads []string
		var updErr string
		pre, post := "", ""
		var allowed []string // states at entry boundaries, in log order (entries are separate commands: a reader may see a prefix of the call's entries, never part of a transaction)
		var base uint64
		mk := func() sched.Scenario {
			// an instance serves 64 executions, emptied and re-seeded at fresh indices before each
			// (an instance left in an unknown state by an abnormal execution is replaced)
			if inst != nil && base >= 640 { // bound the pile of range tombstones the resets leave behind
				inst.Close()
				inst = nil
			}
			if inst == nil {
				env := fsmx.NewEnv()
				var err error
				inst, _, err = env.Open("t", 10001, fsm.RecoveryTypeSnapshot)
				if err != nil {
					panic(err)
				}
				base = 0
			}
			base += 10
			_, _ = inst.Update([]sm.Entry{fsmx.Entry(base, Del("\x00", wild, false, false)), fsmx.Entry(base+1, PutBatch("k", "old", "z", "old"))})
			reads, updErr = nil, ""
			var ents []sm.Entry
			switch strings.SplitN(variant, "/", 2)[0] {
			case "txn-alone":
				ents = []sm.Entry{fsmx.Entry(base+2, Txn(nil, Ops(OpPut("x", "1", false), OpPut("y", "1", false)), nil))}
				pre, post = `["k"="old" "z"="old"]`, `["k"="old" "x"="1" "y"="1" "z"="old"]`
				allowed = []string{pre, post}
			case "put-then-txn-in-one-call":
				ents = []sm.Entry{fsmx.Entry(base+2, Put("w", "1", false)), fsmx.Entry(base+3, Txn(Cmps(Exists("w", nil)), Ops(OpPut("x", "1", true), OpPut("y", "1", false)), nil))}
				pre, post = `["k"="old" "z"="old"]`, `["k"="old" "w"="1" "x"="1" "y"="1" "z"="old"]`
				allowed = []string{pre, `["k"="old" "w"="1" "z"="old"]`, post}
			case "txn-with-delete-and-put":
				ents = []sm.Entry{fsmx.Entry(base+2, Txn(Cmps(Exists("k", nil)), Ops(OpDel("k", wild, false, true), OpPut("k", "new", false)), nil))}
				pre, post = `["k"="old" "z"="old"]`, `["k"="new"]`
				allowed = []string{pre, post}
			}
			return sched.Scenario{Key: func() string { return fmt.Sprint(reads, updErr) }, Threads: []func(*sched.T){
				func(t *sched.T) {
					if _, err := inst.F.Update(ents); err != nil {
						updErr = err.Error()
					}
				},
				func(t *sched.T) {
					if strings.Contains(variant, "reader=readonly-txn") {
						// one read-only transaction with two reads: both must be answered from ONE state
						req := &regattapb.TxnRequest{Table: Table, Success: Ops(OpGet("x", nil, 0, false, false), OpGet("y", nil, 0, false, false)), Failure: Ops(OpGet("x", nil, 0, false, false), OpGet("y", nil, 0, false, false))}
						if strings.HasSuffix(variant, "with-predicate") {
							req.Compare = Cmps(Exists("k", nil))
						}
						res, err := inst.F.Lookup(req)
						if err != nil {
							reads = append(reads, "error: "+err.Error())
							return
						}
						rs := res.(*regattapb.TxnResponse).Responses
						x, y := len(rs[0].GetResponseRange().GetKvs()), len(rs[1].GetResponseRange().GetKvs())
						switch {
						case x == 0 && y == 0:
							reads = append(reads, pre)
						case x == 1 && y == 1:
							reads = append(reads, post)
						default:
							reads = append(reads, fmt.Sprintf("x present=%d y present=%d within one read-only transaction", x, y))
						}
						return
					}
					for i := 0; i < 2; i++ {
						res, err := inst.F.Lookup(&regattapb.RequestOp_Range{Key: wild, RangeEnd: wild})
						if err != nil {
							reads = append(reads, "error: "+err.Error())
							continue
						}
						reads = append(reads, fsmx.KVs(res.(*regattapb.ResponseOp_Range).Kvs))
					}
				},
			}}
		}
		states := sched.StateSet{}
		ex := &sched.Explorer{Mk: mk, MaxBound: bound, Stop: r.Expired, Horizon: 100000, States: states,
			Check: func(x sched.Exec, _ *sched.Scenario) string {
				cs := map[string]any{"kind": "visibility", "variant": variant, "choices": x.Choices}
				if x.Diverged != "" {
					r.Cap("visibility: a replayed prefix diverged: " + x.Diverged)
					return "diverged"
				}
				if x.Deadlock || x.Livelock || x.Panic != "" || updErr != "" {
					r.Violate("visibility/execution-abnormal/"+variant, fmt.Sprintf("deadlock=%v livelock=%v panic=%s update error=%s", x.Deadlock, x.Livelock, x.Panic, updErr), cs)
					inst = nil // state unknown (and Close could hang on a lock held by an aborted thread)
					return "abnormal"
				}
				last := 0
				for i, rd := range reads {
					at := -1
					for k, a := range allowed {
						if a == rd {
							at = k
						}
					}
					switch {
					case at < 0:
						r.Violate("visibility/read-sees-part-of-a-transaction/"+variant, fmt.Sprintf("read %d = %s; states at entry boundaries %v | trace %s", i, rd, allowed, sched.TraceStr(x)), cs)
					case at < last:
						r.Violate("visibility/read-goes-back-in-log-order/"+variant, fmt.Sprintf("reads %v | trace %s", reads, sched.TraceStr(x)), cs)
					default:
						last = at
					}
				}
				r.Outcome(variant+fmt.Sprint(reads), true)
				return fmt.Sprint(reads)
			}}
		res := ex.Run()
		if inst != nil {
			inst.Close()
			inst = nil
		}
		r.AddExtra("visibility_executions", res.Executions)
		r.AddExtra("visibility_scheduling_decisions", res.Points)
		r.Part(map[string]any{"scenario": "statement-level visibility: " + variant, "executions": res.Executions, "preemption_bound_completed": res.Bound, "distinct_read_outcomes": len(res.Outcomes), "distinct_states": len(states)})
	}
	r.Extra("visibility_preemption_bound", bound)
	r.Extra("visibility_seconds", int(time.Since(t0).Seconds()))
}
