// Package c08: in-cluster snapshots are faithful, point-in-time and installed atomically.
package c08

import (
	"bytes"
	"encoding/json"
	"errors"
	"fmt"
	"io"
	"strings"

	"github.com/jamf/regatta/regattapb"
	"github.com/jamf/regatta/storage/table/fsm"
	"github.com/jamf/regatta/util/iter"
	sm "github.com/lni/dragonboat/v4/statemachine"

	"github.com/jamf/regatta/verifvp/vp"
	"verif/harness/checks/c03"
	"verif/harness/checks/c04"

	. "verif/harness/cmdx"
	"verif/harness/evid"
	"verif/harness/fsmx"
	"verif/harness/par"
	"verif/harness/sched"
)

var wild = []byte{0}

type Case struct {
	Kind     string `json:"kind"` // fidelity | insave | stop-recover | stop-save | overlap
	Log      []int  `json:"log,omitempty"`
	Saver    string `json:"saver,omitempty"`    // s|c
	Receiver string `json:"receiver,omitempty"` // s|c
	Prior    string `json:"prior,omitempty"`    // fresh|other
	Between  bool   `json:"between,omitempty"`
	// BetweenFlush: the write between prepare and save is followed by a Sync (memtable flush), as
	// dragonboat's periodic Sync of an on-disk state machine can land there
	BetweenFlush bool `json:"between_flush,omitempty"`
	// WriteErr (stop-save): the interruption is an error of the output writer at its J-th write (the
	// receiving end went away) instead of the stop signal
	WriteErr bool     `json:"write_error,omitempty"`
	J        int      `json:"j,omitempty"`
	Desc     []string `json:"desc,omitempty"`
	// Big > 0 (fidelity): instead of Log the saver holds Big pairs of 2 MiB incompressible values
	// followed by Tail small pairs (every command carries a leader index): the SST stream of the
	// snapshot format rolls over to a new SST at 16 MiB, so the tail sits behind the last rollover
	Big  int `json:"big,omitempty"`
	Tail int `json:"tail,omitempty"`
}

func incompressible(n int, seed uint32) string {
	b := make([]byte, n)
	x := 2463534242 ^ seed
	for i := range b {
		x ^= x << 13
		x ^= x >> 17
		x ^= x << 5
		b[i] = byte(x)
	}
	return string(b)
}

func buildBigSaver(c Case) (*fsmx.Inst, error) {
	env := fsmx.NewEnv()
	inst, _, err := env.Open("t", 10001, srt(c.Saver))
	if err != nil {
		return nil, err
	}
	n := 0
	put := func(k, v string) error {
		n++
		_, err := inst.Update([]sm.Entry{fsmx.Entry(idx(n), WithLeader(Put(k, v, false), uint64(1000+n)))})
		return err
	}
	for i := 0; i < c.Big; i++ {
		if err := put(fmt.Sprintf("big/%02d", i), incompressible(2<<20, uint32(i+1))); err != nil {
			inst.Close()
			return nil, err
		}
	}
	for i := 0; i < c.Tail; i++ {
		if err := put(fmt.Sprintf("small/%d", i), "s"); err != nil {
			inst.Close()
			return nil, err
		}
	}
	return inst, nil
}

type viol struct{ sig, detail string }

func srt(s string) fsm.SnapshotRecoveryType {
	if s == "c" {
		return fsm.RecoveryTypeCheckpoint
	}
	return fsm.RecoveryTypeSnapshot
}

type state struct {
	content string
	applied uint64
	leader  uint64
	hash    uint64
}

func (s state) String() string {
	return fmt.Sprintf("content=%s applied=%d leader=%d", s.content, s.applied, s.leader)
}

func capture(inst *fsmx.Inst) (state, error) {
	kvs, err := inst.All()
	if err != nil {
		return state{}, err
	}
	var s state
	s.content = fsmx.KVs(kvs)
	s.applied, _ = inst.LocalIndex()
	s.leader, _ = inst.LeaderIndex()
	s.hash, _ = inst.F.GetHash()
	return s, nil
}

func idx(i int) uint64 { return uint64(2*i + 3) }

func buildSaver(alpha []*regattapb.Command, log []int, t string) (*fsmx.Inst, error) {
	env := fsmx.NewEnv()
	inst, _, err := env.Open("t", 10001, srt(t))
	if err != nil {
		return nil, err
	}
	for i, ci := range log {
		if _, err := inst.Update([]sm.Entry{fsmx.Entry(idx(i), alpha[ci])}); err != nil {
			inst.Close()
			return nil, err
		}
	}
	return inst, nil
}

func buildReceiver(t, prior string) (*fsmx.Inst, *fsmx.Env, error) {
	env := fsmx.NewEnv()
	inst, _, err := env.Open("t", 10001, srt(t))
	if err != nil {
		return nil, nil, err
	}
	if prior == "other" || prior == "other+own-snapshot" {
		ents := []sm.Entry{
			fsmx.Entry(40, Put("a", "old", false)),
			fsmx.Entry(50, WithLeader(Put("zz", "old", false), 99)),
		}
		if _, err := inst.Update(ents); err != nil {
			inst.Close()
			return nil, nil, err
		}
	}
	if prior == "other+own-snapshot" {
		// the receiver has produced a snapshot of its own, in its own configured format, before
		// (dragonboat snapshots every replica periodically)
		if err := inst.SaveSnapshot(nil, io.Discard, nil); err != nil {
			inst.Close()
			return nil, nil, err
		}
	}
	return inst, env, nil
}

var extraWrite = func(i uint64) sm.Entry {
	return fsmx.Entry(i, WithLeader(Seq(Put("a", "late", false), Put("late", "1", false), Del("b", nil, false, false)), 77))
}

// countingWriter calls hook after the j-th Write call.
type countingWriter struct {
	w        io.Writer
	n        int
	at       int
	hook     func()
	failFrom int // > 0: the failFrom-th write and all later ones fail
}

func (c *countingWriter) Write(p []byte) (int, error) {
	if c.failFrom > 0 && c.n+1 >= c.failFrom {
		c.n++
		return 0, errors.New("verif: the receiving end of the snapshot stream went away")
	}
	n, err := c.w.Write(p)
	c.n++
	if c.n == c.at && c.hook != nil {
		c.hook()
	}
	return n, err
}

type countingReader struct {
	r    io.Reader
	n    int
	at   int
	hook func()
}

func (c *countingReader) Read(p []byte) (int, error) {
	c.n++
	if c.n == c.at && c.hook != nil {
		c.hook()
	}
	return c.r.Read(p)
}

// useAndReopen checks that the receiver is usable and that a reopen gives the same state.
func useAndReopen(recv *fsmx.Inst, env *fsmx.Env, t string, want state, tag string) (vs []viol) {
	got, err := capture(recv)
	if err != nil {
		return []viol{{tag + "/read-error-after", err.Error()}}
	}
	if got.content != want.content || got.applied != want.applied || got.leader != want.leader {
		what := "content"
		if got.content == want.content {
			what = "indices"
		}
		vs = append(vs, viol{tag + "/" + what, fmt.Sprintf("got %s want %s", got, want)})
	}
	if err := recv.Close(); err != nil {
		vs = append(vs, viol{tag + "/close-error", err.Error()})
		return
	}
	re, i, err := env.Open("t", 10001, srt(t))
	if err != nil {
		vs = append(vs, viol{tag + "/reopen-error", err.Error()})
		return
	}
	defer re.Close()
	g2, err := capture(re)
	if err != nil {
		return append(vs, viol{tag + "/read-error-after-reopen", err.Error()})
	}
	if i != want.applied || g2.content != want.content || g2.applied != want.applied || g2.leader != want.leader {
		vs = append(vs, viol{tag + "/after-reopen", fmt.Sprintf("reopen index %d state %s want %s", i, g2, want)})
	}
	// still usable: one more entry
	if _, err := re.Update([]sm.Entry{fsmx.Entry(want.applied+100, Put("after", "1", true))}); err != nil {
		vs = append(vs, viol{tag + "/unusable-after", err.Error()})
	}
	return vs
}

// RunFidelity: save on saver (optionally with a write between prepare and save), recover on receiver.
func RunFidelity(c Case) (vs []viol, outcome string) {
	alpha := c03.Alphabet()
	var saver *fsmx.Inst
	var err error
	if c.Big > 0 {
		saver, err = buildBigSaver(c)
	} else {
		saver, err = buildSaver(alpha, c.Log, c.Saver)
	}
	if err != nil {
		return []viol{{"setup-error", err.Error()}}, ""
	}
	defer saver.Close()
	want, err := capture(saver)
	if err != nil {
		return []viol{{"setup-error", err.Error()}}, ""
	}
	var buf bytes.Buffer
	var between func()
	if c.Between {
		between = func() {
			if _, err := saver.Update([]sm.Entry{extraWrite(want.applied + 10)}); err != nil {
				vs = append(vs, viol{"write-between-prepare-and-save-failed", err.Error()})
			}
			if c.BetweenFlush {
				if err := saver.Sync(); err != nil {
					vs = append(vs, viol{"sync-between-prepare-and-save-failed", err.Error()})
				}
			}
		}
	}
	var w io.Writer = &buf
	if c.Kind == "insave" {
		w = &countingWriter{w: &buf, at: c.J, hook: func() {
			if _, err := saver.Update([]sm.Entry{extraWrite(want.applied + 10)}); err != nil {
				vs = append(vs, viol{"write-during-save-failed", err.Error()})
			}
		}}
	}
	if err := saver.SaveSnapshot(between, w, nil); err != nil {
		return append(vs, viol{"save-error/" + c.Saver, err.Error()}), ""
	}
	recv, renv, err := buildReceiver(c.Receiver, c.Prior)
	if err != nil {
		return append(vs, viol{"setup-error", err.Error()}), ""
	}
	if err := recv.Recover(bytes.NewReader(buf.Bytes()), nil); err != nil {
		recv.Close()
		return append(vs, viol{"recover-error/" + c.Saver + "->" + c.Receiver, err.Error()}), ""
	}
	got, err := capture(recv)
	if err != nil {
		recv.Close()
		return append(vs, viol{"read-error-after-recover", err.Error()}), ""
	}
	tag := "fidelity"
	if c.Between {
		tag = "point-in-time/write-between-prepare-and-save"
	}
	if c.BetweenFlush {
		tag = "point-in-time/write-and-flush-between-prepare-and-save"
	}
	if c.Kind == "insave" {
		tag = "point-in-time/write-during-save"
	}
	tag += "(" + c.Saver + "->" + c.Receiver + "," + c.Prior + ")"
	if got.content != want.content {
		vs = append(vs, viol{tag + "/content", fmt.Sprintf("receiver %s; saver at prepare %s", got, want)})
	} else if got.applied != want.applied {
		vs = append(vs, viol{tag + "/applied-index", fmt.Sprintf("receiver %s; saver at prepare %s", got, want)})
	} else if got.leader != want.leader {
		vs = append(vs, viol{tag + "/leader-index", fmt.Sprintf("receiver %s; saver at prepare %s", got, want)})
	} else if got.hash != want.hash {
		vs = append(vs, viol{tag + "/hash", fmt.Sprintf("receiver hash %x saver %x", got.hash, want.hash)})
	}
	vs = append(vs, useAndReopen(recv, renv, c.Receiver, want, tag)...)
	return vs, got.String()
}

func snapshotOf(alpha []*regattapb.Command, log []int, t string) ([]byte, state, error) {
	saver, err := buildSaver(alpha, log, t)
	if err != nil {
		return nil, state{}, err
	}
	defer saver.Close()
	st, err := capture(saver)
	if err != nil {
		return nil, st, err
	}
	var buf bytes.Buffer
	if err := saver.SaveSnapshot(nil, &buf, nil); err != nil {
		return nil, st, err
	}
	return buf.Bytes(), st, nil
}

// RunStopRecover: stop signal raised at the J-th read of recover. Returns number of reads.
func RunStopRecover(c Case) (vs []viol, outcome string, reads int) {
	alpha := c03.Alphabet()
	snap, newState, err := snapshotOf(alpha, c.Log, c.Saver)
	if err != nil {
		return []viol{{"setup-error", err.Error()}}, "", 0
	}
	recv, renv, err := buildReceiver(c.Receiver, c.Prior)
	if err != nil {
		return []viol{{"setup-error", err.Error()}}, "", 0
	}
	old, _ := capture(recv)
	stopc := make(chan struct{})
	cr := &countingReader{r: bytes.NewReader(snap), at: c.J, hook: func() { close(stopc) }}
	rerr := recv.Recover(cr, stopc)
	tag := "stop-during-recover(" + c.Saver + "," + c.Prior + ")"
	want := old
	res := "kept-old"
	if rerr == nil {
		want = newState
		res = "installed"
	} else if strings.HasPrefix(rerr.Error(), "PANIC") {
		recv.Close()
		return []viol{{tag + "/panic", rerr.Error()}}, "", cr.n
	}
	vs = append(vs, useAndReopen(recv, renv, c.Receiver, want, tag+"/"+res)...)
	return vs, res, cr.n
}

// RunStopSave: stop signal raised at the J-th write of save; the saver must be unaffected.
func RunStopSave(c Case) (vs []viol, outcome string, writes int) {
	alpha := c03.Alphabet()
	saver, err := buildSaver(alpha, c.Log, c.Saver)
	if err != nil {
		return []viol{{"setup-error", err.Error()}}, "", 0
	}
	defer saver.Close()
	want, _ := capture(saver)
	stopc := make(chan struct{})
	var buf bytes.Buffer
	cw := &countingWriter{w: &buf, at: c.J, hook: func() { close(stopc) }}
	tag := "stop-during-save(" + c.Saver + ")"
	if c.WriteErr {
		cw = &countingWriter{w: &buf, at: c.J, failFrom: c.J}
		tag = "writer-error-during-save(" + c.Saver + ")"
	}
	serr := saver.SaveSnapshot(nil, cw, stopc)
	if serr != nil && strings.HasPrefix(serr.Error(), "PANIC") {
		return []viol{{tag + "/panic", serr.Error()}}, "", cw.n
	}
	got, err := capture(saver)
	if err != nil || got != want {
		vs = append(vs, viol{tag + "/saver-changed", fmt.Sprintf("got %s err %v want %s", got, err, want)})
	}
	// a second, complete snapshot - of a state that has moved on - still works and is faithful
	// (whatever the interrupted save left behind in shared or pooled state must not leak into it)
	if _, err := saver.Update([]sm.Entry{extraWrite(want.applied + 10)}); err != nil {
		vs = append(vs, viol{tag + "/saver-unusable", err.Error()})
		return vs, "", cw.n
	}
	want, _ = capture(saver)
	var buf2 bytes.Buffer
	if err := saver.SaveSnapshot(nil, &buf2, nil); err != nil {
		vs = append(vs, viol{tag + "/second-save-fails", err.Error()})
		return vs, "", cw.n
	}
	recv, _, _ := buildReceiver("s", "fresh")
	defer recv.Close()
	if err := recv.Recover(&buf2, nil); err != nil {
		vs = append(vs, viol{tag + "/second-snapshot-unusable", err.Error()})
	} else if g, _ := capture(recv); g.content != want.content || g.applied != want.applied {
		vs = append(vs, viol{tag + "/second-snapshot-differs", fmt.Sprintf("%s want %s", g, want)})
	}
	return vs, fmt.Sprint(serr == nil), cw.n
}

// RunOverlap: a reader program interleaved with one install at API granularity.
// Reader steps: 0 = unary full read; 1 = obtain lazy sequence; 2.. = pull chunk k. The install
// happens before reader step J.
func RunOverlap(c Case) (vs []viol, outcome string, steps int) {
	// receiver with > 4 MiB so that the stream has several messages
	renv := fsmx.NewEnv()
	recv, _, err := renv.Open("t", 10001, srt(c.Receiver))
	if err != nil {
		return []viol{{"setup-error", err.Error()}}, "", 0
	}
	defer recv.Close()
	big := bytes.Repeat([]byte("o"), 2<<20-1024)
	for i := 0; i < 3; i++ {
		cmd := &regattapb.Command{Table: Table, Type: regattapb.Command_PUT, Kv: &regattapb.KeyValue{Key: B(fmt.Sprintf("k%d", i)), Value: big}}
		if _, err := recv.Update([]sm.Entry{fsmx.Entry(uint64(i+1), cmd)}); err != nil {
			return []viol{{"setup-error", err.Error()}}, "", 0
		}
	}
	oldKeys := "k0,k1,k2"
	// donor: different content, also several messages
	denv := fsmx.NewEnv()
	donor, _, _ := denv.Open("t", 10001, srt(c.Saver))
	defer donor.Close()
	nbig := bytes.Repeat([]byte("n"), 2<<20-1024)
	for i := 0; i < 3; i++ {
		cmd := &regattapb.Command{Table: Table, Type: regattapb.Command_PUT, Kv: &regattapb.KeyValue{Key: B(fmt.Sprintf("n%d", i)), Value: nbig}}
		if _, err := donor.Update([]sm.Entry{fsmx.Entry(uint64(i+10), cmd)}); err != nil {
			return []viol{{"setup-error", err.Error()}}, "", 0
		}
	}
	newKeys := "n0,n1,n2"
	var snap bytes.Buffer
	if err := donor.SaveSnapshot(nil, &snap, nil); err != nil {
		return []viol{{"setup-error", err.Error()}}, "", 0
	}
	installed := false
	install := func() {
		if installed {
			return
		}
		installed = true
		if err := recv.Recover(bytes.NewReader(snap.Bytes()), nil); err != nil {
			vs = append(vs, viol{"overlap/install-error", err.Error()})
		}
	}
	keysOf := func(kvs []*regattapb.KeyValue) string {
		var ks []string
		for _, kv := range kvs {
			ks = append(ks, string(kv.Key))
		}
		return strings.Join(ks, ",")
	}
	classify := func(what, got string, err error) {
		tag := fmt.Sprintf("overlap(%s)/%s", c.Saver, what)
		if err != nil {
			if strings.HasPrefix(err.Error(), "PANIC") {
				e := err.Error()
				if i := strings.Index(e, ": "); i > 0 {
					e = e[i+2:]
				}
				if len(e) > 40 {
					e = e[:40]
				}
				vs = append(vs, viol{tag + "/panic(" + e + ")", fmt.Sprintf("install before reader step %d: %v", c.J, err)})
			}
			outcome += what + "=error;"
			return
		}
		switch got {
		case oldKeys:
			outcome += what + "=old;"
		case newKeys:
			outcome += what + "=new;"
		default:
			vs = append(vs, viol{tag + "/mixed-or-partial-state", fmt.Sprintf("install before reader step %d: read keys %q (old %q new %q)", c.J, got, oldKeys, newKeys)})
		}
	}
	step := 0
	at := func() {
		if step == c.J {
			install()
		}
		step++
	}
	// step 0: unary read (first message only: k0,k1 of the old state or n0,n1 of the new)
	at()
	if r, err := recv.Range(&regattapb.RequestOp_Range{Key: wild, RangeEnd: wild, KeysOnly: true}); err != nil {
		classify("unary-read", "", err)
	} else {
		classify("unary-read", keysOf(r.Kvs), nil)
	}
	// step 1: obtain the lazy sequence
	at()
	res, err := recv.Lookup(fsm.IteratorRequest{RangeOp: &regattapb.RequestOp_Range{Key: wild, RangeEnd: wild}})
	if err != nil {
		classify("stream-open", "", err)
		return vs, outcome, step
	}
	seq := res.(iter.Seq[*regattapb.ResponseOp_Range])
	var all []*regattapb.KeyValue
	var perr error
	func() {
		defer func() {
			if r := recover(); r != nil {
				perr = fmt.Errorf("PANIC in stream pull: %v", r)
			}
		}()
		at() // before the first pull
		seq(func(ch *regattapb.ResponseOp_Range) bool {
			all = append(all, ch.Kvs...)
			at() // before the next pull
			return true
		})
	}()
	classify("stream", keysOf(all), perr)
	// a fresh read after everything
	at()
	install()
	r2, err := recv.Range(&regattapb.RequestOp_Range{Key: wild, RangeEnd: wild, KeysOnly: true})
	if err != nil {
		classify("read-after-install", "", err)
	} else if keysOf(r2.Kvs) != newKeys {
		vs = append(vs, viol{"overlap/state-after-install", keysOf(r2.Kvs)})
	}
	return vs, outcome, step
}

func describe(log []int) []string {
	alpha := c03.Alphabet()
	var d []string
	for _, i := range log {
		d = append(d, fsmx.CmdStr(alpha[i]))
	}
	return d
}

func Run(r *evid.Run) {
	r.Check = "c08"
	alpha := c03.Alphabet()
	depth := 2
	if r.Thorough() {
		depth = 3
	}
	r.Rule(fmt.Sprintf("(1) fidelity: every history of length 0..%d over the 16-entry C03 alphabet x saver format {snapshot,checkpoint} x receiver format x receiver prior state {fresh, other content at a higher index, the same after having saved a snapshot of its own in its own format} x {no write, a write between prepare and save, a write followed by a memtable flush (Sync) between prepare and save}; plus a write applied from inside save after its j-th output write, every j; receiver must equal the saver at prepare time (content, applied, leader index, hash), stay usable and reopen to the same; plus savers holding 8 or 9 pairs of 2 MiB incompressible values and 0..3 small pairs behind them (the SST stream rolls over at 16 MiB), all four format pairs. (2) stop signal at the j-th input read of recover / j-th output write of save (and, for save, an error of the output writer at its j-th write), every j: receiver entirely old or entirely new, usable, same after reopen; saver unchanged. (3) crash at every FS operation boundary of histories containing snapshot installs (C04 machinery). (4) reads overlapping an install at API granularity: unary read, lazy stream obtained and pulled message by message, install placed before every reader step, both formats. (5) the same overlap at statement granularity under the cooperative scheduler: one reader thread (unary / streamed) and one installer thread (both formats), a scheduling point before every statement of the read path and of recover, all interleavings up to the preemption bound. Non-trivial: all cases; distinct = distinct (case, observed state) renderings", depth))
	total := par.SeqCount(len(alpha), depth)
	types := []string{"s", "c"}
	// (1)
	done := par.For(total, r.Expired, func(i int64) {
		log := par.SeqAt(len(alpha), depth, i)
		for _, sv := range types {
			for _, rc := range types {
				for _, prior := range []string{"fresh", "other", "other+own-snapshot"} {
					for btw := 0; btw < 3; btw++ {
						if btw == 2 && prior != "fresh" {
							continue // the flush variant concerns the saver only
						}
						c := Case{Kind: "fidelity", Log: log, Saver: sv, Receiver: rc, Prior: prior, Between: btw > 0, BetweenFlush: btw == 2}
						vs, outcome := RunFidelity(c)
						r.Outcome(fmt.Sprint(log, sv, rc, prior, btw, outcome), true)
						for _, v := range vs {
							c.Desc = describe(log)
							r.Violate(v.sig, v.detail, c)
						}
					}
				}
			}
		}
		if len(log) <= 2 {
			for _, sv := range types {
				// count writes
				cw := &countingWriter{w: io.Discard}
				if s, err := buildSaver(alpha, log, sv); err == nil {
					_ = s.SaveSnapshot(nil, cw, nil)
					s.Close()
				}
				for j := 1; j <= cw.n; j++ {
					c := Case{Kind: "insave", Log: log, Saver: sv, Receiver: "s", Prior: "fresh", J: j}
					vs, outcome := RunFidelity(c)
					r.Outcome(fmt.Sprint("insave", log, sv, j, outcome), true)
					r.AddExtra("write_during_save_cases", 1)
					for _, v := range vs {
						c.Desc = describe(log)
						r.Violate(v.sig, v.detail, c)
					}
				}
			}
		}
		if i == total-1 {
			r.Sample(Case{Kind: "fidelity", Log: log, Saver: "c", Receiver: "s", Prior: "other", Between: true, Desc: describe(log)})
		}
	})
	// large savers: the tail behind the last 16 MiB rollover of the SST stream
	bigCases := []Case{}
	for _, bt := range [][2]int{{8, 0}, {8, 3}, {9, 2}} {
		for _, sv := range types {
			for _, rc := range types {
				bigCases = append(bigCases, Case{Kind: "fidelity", Saver: sv, Receiver: rc, Prior: "fresh", Big: bt[0], Tail: bt[1]})
			}
		}
	}
	par.For(int64(len(bigCases)), r.Expired, func(i int64) {
		c := bigCases[i]
		vs, outcome := RunFidelity(c)
		r.Outcome(fmt.Sprint("big", c.Big, c.Tail, c.Saver, c.Receiver, outcome), true)
		r.AddExtra("large_saver_cases", 1)
		for _, v := range vs {
			r.Violate("large/"+v.sig, v.detail, c)
		}
	})
	if done < total {
		r.Cap(fmt.Sprintf("deadline: %d of %d histories", done, total))
	}
	// (2)
	stopLogs := [][]int{{}, {0}, {0, 1}, {6, 3}, {1, 7, 11}}
	var scases []Case
	for _, log := range stopLogs {
		for _, sv := range types {
			for _, prior := range []string{"fresh", "other"} {
				scases = append(scases, Case{Kind: "stop-recover", Log: log, Saver: sv, Receiver: "s", Prior: prior})
			}
			scases = append(scases, Case{Kind: "stop-save", Log: log, Saver: sv}, Case{Kind: "stop-save", Log: log, Saver: sv, WriteErr: true})
		}
	}
	par.For(int64(len(scases)), r.Expired, func(i int64) {
		c := scases[i]
		for j := 1; ; j++ {
			c.J = j
			var vs []viol
			var outcome string
			var n int
			if c.Kind == "stop-recover" {
				vs, outcome, n = RunStopRecover(c)
			} else {
				vs, outcome, n = RunStopSave(c)
			}
			r.Outcome(fmt.Sprint(c.Kind, c.Log, c.Saver, c.Prior, j, outcome), true)
			r.AddExtra("stop_signal_cases", 1)
			for _, v := range vs {
				c.Desc = describe(c.Log)
				r.Violate(v.sig, v.detail, c)
			}
			if j > n || j > 400 {
				break
			}
		}
	})
	// (3) crash enumeration over histories with installs (steps indices per c04: 8..11 controls)
	for _, steps := range c04.InstallHistories() {
		c04.RunHistoryExt(r, steps, "crash/")
		r.AddExtra("crash_histories", 1)
	}
	// (4)
	for _, sv := range types {
		for j := 0; j < 8; j++ {
			c := Case{Kind: "overlap", Saver: sv, Receiver: "s", J: j}
			vs, outcome, steps := RunOverlap(c)
			r.Outcome(fmt.Sprint("overlap", sv, j, outcome), true)
			r.AddExtra("overlap_cases", 1)
			for _, v := range vs {
				r.Violate(v.sig, v.detail, c)
			}
			if j == 2 {
				r.Sample(map[string]any{"case": c, "outcome": outcome})
			}
			if j >= steps {
				break
			}
		}
	}
	runStmtOverlap(r)
	r.Assume("part (4) interleaves at API granularity with multi-message streams; part (5) interleaves at statement granularity (scheduling point before every statement of Lookup, lookup, rangeLookup, singleLookup, iteratorLookup, iterate and both recover implementations, inserted by the build overlay) with single-message reads, up to the preemption bound in stmt_overlap_preemption_bound; code inside pebble runs atomically between two points")
}

func Replay(raw json.RawMessage) (string, bool) {
	var c Case
	if err := json.Unmarshal(raw, &c); err != nil {
		return err.Error(), false
	}
	var vs []viol
	switch c.Kind {
	case "fidelity", "insave":
		vs, _ = RunFidelity(c)
	case "stop-recover":
		vs, _, _ = RunStopRecover(c)
	case "stop-save":
		vs, _, _ = RunStopSave(c)
	case "overlap":
		vs, _, _ = RunOverlap(c)
	default:
		return c04.Replay(raw)
	}
	var sb strings.Builder
	for _, v := range vs {
		fmt.Fprintf(&sb, "%s: %s\n", v.sig, v.detail)
	}
	return sb.String(), len(vs) == 0
}

// ---------------------------------------------------------------------------------------------
// (5) reads overlapping an install at STATEMENT granularity. Lookup, lookup, rangeLookup, iterate,
// iteratorLookup and both recover implementations are built with a scheduling point before every
// statement (build overlay, see cmd/mkoverlay); one reader thread and one installer thread; all
// interleavings up to a preemption bound. A read must return the old state, the new state or an
// error; a panic escaping the read is "brings the process down".

type stmtCase struct {
	Format  string `json:"format"` // s | c
	Reader  string `json:"reader"` // unary | stream
	Choices []int  `json:"choices,omitempty"`
	Trace   string `json:"trace,omitempty"`
}

func runStmtOverlap(r *evid.Run) {
	bound := 2
	if r.Thorough() {
		bound = 3
	}
	vp.Hook = func(label string) {
		if t := sched.Cur(); t != nil {
			t.Point(label)
		}
	}
	defer func() { vp.Hook = nil }()
	// donor snapshots (new state n0,n1), one per format
	snaps := map[string][]byte{}
	for _, f := range []string{"s", "c"} {
		denv := fsmx.NewEnv()
		d, _, err := denv.Open("t", 10001, srt(f))
		if err != nil {
			r.Violate("setup-error", err.Error(), nil)
			return
		}
		_, _ = d.Update([]sm.Entry{fsmx.Entry(10, PutBatch("n0", "new", "n1", "new"))})
		var buf bytes.Buffer
		if err := d.SaveSnapshot(nil, &buf, nil); err != nil {
			r.Violate("setup-error", err.Error(), nil)
			return
		}
		d.Close()
		snaps[f] = buf.Bytes()
	}
	const oldKeys, newKeys = "o0,o1", "n0,n1"
	for _, f := range []string{"s", "c"} {
		for _, reader := range []string{"unary", "stream"} {
			var recv *fsmx.Inst
			var readRes, instRes string
			mk := func() sched.Scenario {
				if recv != nil {
					recv.Close()
				}
				renv := fsmx.NewEnv()
				var err error
				recv, _, err = renv.Open("t", 10001, srt("s"))
				if err != nil {
					panic(err)
				}
				_, _ = recv.Update([]sm.Entry{fsmx.Entry(1, PutBatch("o0", "old", "o1", "old"))})
				readRes, instRes = "", ""
				keysOf := func(kvs []*regattapb.KeyValue) string {
					var ks []string
					for _, kv := range kvs {
						ks = append(ks, string(kv.Key))
					}
					return strings.Join(ks, ",")
				}
				return sched.Scenario{Key: func() string { return readRes + "|" + instRes }, Threads: []func(*sched.T){
					func(t *sched.T) { // reader
						defer func() {
							if p := recover(); p != nil {
								if fmt.Sprint(p) == "sched: execution aborted" {
									panic(p)
								}
								readRes = fmt.Sprintf("PANIC: %v", p)
							}
						}()
						req := &regattapb.RequestOp_Range{Key: wild, RangeEnd: wild, KeysOnly: true}
						if reader == "unary" {
							res, err := recv.F.Lookup(req)
							if err != nil {
								readRes = "error"
								return
							}
							readRes = keysOf(res.(*regattapb.ResponseOp_Range).Kvs)
							return
						}
						res, err := recv.F.Lookup(fsm.IteratorRequest{RangeOp: req})
						if err != nil {
							readRes = "error"
							return
						}
						var all []*regattapb.KeyValue
						res.(iter.Seq[*regattapb.ResponseOp_Range])(func(c *regattapb.ResponseOp_Range) bool {
							all = append(all, c.Kvs...)
							return true
						})
						readRes = keysOf(all)
					},
					func(t *sched.T) { // installer
						if err := recv.Recover(bytes.NewReader(snaps[f]), nil); err != nil {
							instRes = "error: " + err.Error()
						} else {
							instRes = "installed"
						}
					},
				}}
			}
			states := sched.StateSet{}
			ex := &sched.Explorer{Mk: mk, MaxBound: bound, Stop: r.Expired, Horizon: 100000, States: states,
				Check: func(x sched.Exec, _ *sched.Scenario) string {
					c := stmtCase{Format: f, Reader: reader, Choices: x.Choices}
					if x.Diverged != "" {
						r.AddExtra("stmt_overlap_diverged_executions", 1)
						r.Cap("statement-level overlap: a replayed prefix diverged: " + x.Diverged)
						return "diverged"
					}
					if x.Deadlock || x.Livelock || x.Panic != "" {
						r.Violate(fmt.Sprintf("stmt-overlap(%s)/%s/execution-abnormal", f, reader), fmt.Sprintf("deadlock=%v livelock=%v panic=%s", x.Deadlock, x.Livelock, x.Panic), c)
						return "abnormal"
					}
					r.Outcome(fmt.Sprint(f, reader, readRes, instRes), true)
					switch {
					case strings.HasPrefix(readRes, "PANIC"):
						e := strings.TrimPrefix(readRes, "PANIC: ")
						if len(e) > 40 {
							e = e[:40]
						}
						// where was the reader when the installer ran? (last reader label before the first installer step)
						c.Trace = sched.TraceStr(x)
						r.Violate(fmt.Sprintf("stmt-overlap(%s)/%s/panic(%s)", f, reader, e), fmt.Sprintf("%s read panicked: %s | trace %s", reader, readRes, c.Trace), c)
					case readRes == oldKeys, readRes == newKeys, readRes == "error":
					default:
						c.Trace = sched.TraceStr(x)
						r.Violate(fmt.Sprintf("stmt-overlap(%s)/%s/mixed-or-partial-state", f, reader), fmt.Sprintf("read keys %q (old %q new %q) | trace %s", readRes, oldKeys, newKeys, c.Trace), c)
					}
					if instRes != "installed" {
						r.Violate(fmt.Sprintf("stmt-overlap(%s)/install-failed", f), instRes, c)
					}
					return readRes
				}}
			res := ex.Run()
			if recv != nil {
				recv.Close()
				recv = nil
			}
			r.States.Add(int64(len(states)))
			r.Transitions.Add(res.Points)
			r.Validated.Add(res.Executions)
			r.AddExtra("stmt_overlap_executions", res.Executions)
			r.AddExtra("stmt_overlap_scheduling_decisions", res.Points)
			r.Part(map[string]any{"scenario": fmt.Sprintf("statement-level overlap: %s read vs install(%s)", reader, f), "executions": res.Executions, "preemption_bound_completed": res.Bound, "distinct_read_outcomes": len(res.Outcomes), "longest_execution_steps": res.MaxLen})
		}
	}
	r.Extra("stmt_overlap_preemption_bound", bound)
}
