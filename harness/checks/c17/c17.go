// Package c17: protected endpoints reject callers lacking the right token or certificate.
// Tokens: the real `regatta leader` / `regatta follower` binaries (built from the working tree) on
// unix sockets, every method of the protected services x crafted authorization metadata.
// TLS: real security.TLSInfo.ServerConfig() handshakes over in-memory pipes for every client
// certificate kind x option combination.
package c17

import (
	"context"
	"crypto/ecdsa"
	"crypto/elliptic"
	"crypto/rand"
	"crypto/tls"
	"crypto/x509"
	"crypto/x509/pkix"
	"encoding/json"
	"encoding/pem"
	"fmt"
	regattacmd "github.com/jamf/regatta/cmd"
	"github.com/jamf/regatta/verifvp/vp"
	"io"
	"math/big"
	"net"
	"os"
	"os/exec"
	"path/filepath"
	"strings"
	"time"
	"verif/harness/sched"

	"github.com/jamf/regatta/regattapb"
	_ "github.com/jamf/regatta/regattaserver/encoding/proto"
	"github.com/jamf/regatta/security"
	"google.golang.org/grpc"
	"google.golang.org/grpc/codes"
	"google.golang.org/grpc/credentials"
	"google.golang.org/grpc/credentials/insecure"
	"google.golang.org/grpc/metadata"
	"google.golang.org/grpc/status"

	"verif/harness/evid"
)

const rightTables = "Tables-S3cret"
const rightMaint = "Maint-S3cret"

type authVariant struct {
	name  string
	value func(right string) (string, bool) // header value, present
	right bool                              // carries exactly the right token as bearer token
}

func variants() []authVariant {
	return []authVariant{
		{"absent", func(string) (string, bool) { return "", false }, false},
		{"empty-header", func(string) (string, bool) { return "", true }, false},
		{"right(Bearer)", func(r string) (string, bool) { return "Bearer " + r, true }, true},
		{"right(bearer)", func(r string) (string, bool) { return "bearer " + r, true }, true},
		{"right(BEARER)", func(r string) (string, bool) { return "BEARER " + r, true }, true},
		{"prefix-of-right", func(r string) (string, bool) { return "Bearer " + r[:len(r)-1], true }, false},
		{"right-plus-suffix", func(r string) (string, bool) { return "Bearer " + r + "x", true }, false},
		{"case-changed-token", func(r string) (string, bool) { return "Bearer " + strings.ToLower(r), true }, false},
		{"right-with-trailing-space", func(r string) (string, bool) { return "Bearer " + r + " ", true }, false},
		{"right-with-leading-space", func(r string) (string, bool) { return "Bearer  " + r, true }, false},
		{"basic-scheme", func(r string) (string, bool) { return "Basic " + r, true }, false},
		{"scheme-only", func(string) (string, bool) { return "Bearer", true }, false},
		{"token-only", func(r string) (string, bool) { return r, true }, false},
		{"other-services-token", func(r string) (string, bool) {
			if r == rightTables {
				return "Bearer " + rightMaint, true
			}
			return "Bearer " + rightTables, true
		}, false},
	}
}

type proc struct {
	cmd  *exec.Cmd
	conn *grpc.ClientConn
	dir  string
	log  string
}

func freePort() int {
	l, err := net.Listen("tcp", "127.0.0.1:0")
	if err != nil {
		panic(err)
	}
	defer l.Close()
	return l.Addr().(*net.TCPAddr).Port
}

func startNode(bin, role, dir, tablesTok, maintTok, leaderRepl string) (*proc, string, error) {
	api := filepath.Join(dir, role+"-api.sock")
	repl := filepath.Join(dir, role+"-repl.sock")
	raft := fmt.Sprintf("127.0.0.1:%d", freePort())
	args := []string{role,
		"--api.address", "unix://" + api,
		"--rest.address", fmt.Sprintf("http://127.0.0.1:%d", freePort()),
		"--raft.address", raft, "--raft.initial-members", "1=" + raft,
		"--raft.node-host-dir", filepath.Join(dir, role+"-nh"), "--raft.state-machine-dir", filepath.Join(dir, role+"-sm"),
		"--raft.rtt", "5ms", "--raft.election-rtt", "10",
		"--memberlist.address", fmt.Sprintf("127.0.0.1:%d", freePort()),
		"--log-level", "ERROR",
	}
	if tablesTok != "" {
		args = append(args, "--tables.token", tablesTok)
	}
	if maintTok != "" {
		args = append(args, "--maintenance.token", maintTok)
	}
	if role == "leader" {
		args = append(args, "--replication.address", "unix://"+repl)
	} else {
		args = append(args, "--replication.leader-address", "unix://"+leaderRepl, "--replication.poll-interval", "200ms", "--replication.reconcile-interval", "1s", "--replication.lease-interval", "500ms")
	}
	cmd := exec.Command(bin, args...)
	logf := filepath.Join(dir, role+".log")
	f, _ := os.Create(logf)
	cmd.Stdout, cmd.Stderr = f, f
	cmd.Dir = dir
	if err := cmd.Start(); err != nil {
		return nil, "", err
	}
	conn, err := grpc.NewClient("unix://"+api, grpc.WithTransportCredentials(insecure.NewCredentials()))
	if err != nil {
		_ = cmd.Process.Kill()
		return nil, "", err
	}
	p := &proc{cmd: cmd, conn: conn, dir: dir, log: logf}
	// ready when the cluster service answers and the process is alive
	deadline := time.Now().Add(60 * time.Second)
	for time.Now().Before(deadline) {
		ctx, cancel := context.WithTimeout(context.Background(), time.Second)
		_, err := regattapb.NewClusterClient(conn).Status(ctx, &regattapb.StatusRequest{})
		cancel()
		if err == nil {
			return p, repl, nil
		}
		time.Sleep(50 * time.Millisecond)
	}
	b, _ := os.ReadFile(logf)
	p.stop()
	return nil, "", fmt.Errorf("%s did not become ready: %s", role, tail(string(b)))
}

func tail(s string) string {
	if len(s) > 600 {
		return s[len(s)-600:]
	}
	return s
}

func (p *proc) stop() {
	_ = p.conn.Close()
	_ = p.cmd.Process.Signal(os.Interrupt)
	done := make(chan struct{})
	go func() { _ = p.cmd.Wait(); close(done) }()
	select {
	case <-done:
	case <-time.After(10 * time.Second):
		_ = p.cmd.Process.Kill()
		<-done
	}
}

func withAuth(v authVariant, right string) context.Context {
	ctx := context.Background()
	if val, present := v.value(right); present {
		ctx = metadata.AppendToOutgoingContext(ctx, "authorization", val)
	}
	return ctx
}

type method struct {
	service string // tables | maintenance | kv | cluster
	name    string
	call    func(ctx context.Context, conn *grpc.ClientConn) error
}

func methods(role string) []method {
	ms := []method{
		{"tables", "Tables.Create", func(ctx context.Context, c *grpc.ClientConn) error {
			_, err := regattapb.NewTablesClient(c).Create(ctx, &regattapb.CreateTableRequest{Name: "intruder"})
			return err
		}},
		{"tables", "Tables.Delete", func(ctx context.Context, c *grpc.ClientConn) error {
			_, err := regattapb.NewTablesClient(c).Delete(ctx, &regattapb.DeleteTableRequest{Name: "probe"})
			return err
		}},
		{"tables", "Tables.List", func(ctx context.Context, c *grpc.ClientConn) error {
			_, err := regattapb.NewTablesClient(c).List(ctx, &regattapb.ListTablesRequest{})
			return err
		}},
		{"maintenance", "Maintenance.Backup(stream)", func(ctx context.Context, c *grpc.ClientConn) error {
			st, err := regattapb.NewMaintenanceClient(c).Backup(ctx, &regattapb.BackupRequest{Table: []byte("probe")})
			if err != nil {
				return err
			}
			for {
				if _, err := st.Recv(); err != nil {
					if err == io.EOF {
						return nil
					}
					return err
				}
			}
		}},
		{"maintenance", "Maintenance.Restore(stream)", func(ctx context.Context, c *grpc.ClientConn) error {
			st, err := regattapb.NewMaintenanceClient(c).Restore(ctx)
			if err != nil {
				return err
			}
			_ = st.Send(&regattapb.RestoreMessage{Data: &regattapb.RestoreMessage_Info{Info: &regattapb.RestoreInfo{Table: []byte("intruder-restore")}}})
			_, err = st.CloseAndRecv()
			return err
		}},
		{"maintenance", "Maintenance.Reset", func(ctx context.Context, c *grpc.ClientConn) error {
			_, err := regattapb.NewMaintenanceClient(c).Reset(ctx, &regattapb.ResetRequest{Table: []byte("probe")})
			return err
		}},
		{"kv", "KV.Range", func(ctx context.Context, c *grpc.ClientConn) error {
			_, err := regattapb.NewKVClient(c).Range(ctx, &regattapb.RangeRequest{Table: []byte("probe"), Key: []byte("k")})
			return err
		}},
		{"cluster", "Cluster.Status", func(ctx context.Context, c *grpc.ClientConn) error {
			_, err := regattapb.NewClusterClient(c).Status(ctx, &regattapb.StatusRequest{})
			return err
		}},
	}
	_ = role
	return ms
}

func listTables(conn *grpc.ClientConn, tablesTok string) (string, error) {
	ctx := context.Background()
	if tablesTok != "" {
		ctx = metadata.AppendToOutgoingContext(ctx, "authorization", "Bearer "+tablesTok)
	}
	ctx, cancel := context.WithTimeout(ctx, 5*time.Second)
	defer cancel()
	r, err := regattapb.NewTablesClient(conn).List(ctx, &regattapb.ListTablesRequest{})
	if err != nil {
		return "", err
	}
	var names []string
	for _, t := range r.Tables {
		names = append(names, t.Name)
	}
	return strings.Join(names, ","), nil
}

func probeContent(conn *grpc.ClientConn) string {
	ctx, cancel := context.WithTimeout(context.Background(), 5*time.Second)
	defer cancel()
	r, err := regattapb.NewKVClient(conn).Range(ctx, &regattapb.RangeRequest{Table: []byte("probe"), Key: []byte{0}, RangeEnd: []byte{0}, Linearizable: true})
	if err != nil {
		return "error:" + status.Code(err).String()
	}
	var sb strings.Builder
	for _, kv := range r.Kvs {
		fmt.Fprintf(&sb, "%s=%s;", kv.Key, kv.Value)
	}
	return sb.String()
}

func runTokens(r *evid.Run, bin string) {
	configs := []struct{ tables, maint string }{{"", rightMaint}, {rightTables, ""}, {rightTables, rightMaint}, {"", ""}}
	for ci, cfg := range configs {
		dir, err := os.MkdirTemp("", "verif-c17-")
		if err != nil {
			r.Inconcl.Add(1)
			continue
		}
		func() {
			defer os.RemoveAll(dir)
			leader, repl, err := startNode(bin, "leader", dir, cfg.tables, cfg.maint, "")
			if err != nil {
				fmt.Println("INFRA: cannot start leader:", err)
				r.Inconcl.Add(1)
				r.Extra("last_inconclusive", err.Error())
				return
			}
			defer leader.stop()
			follower, _, err := startNode(bin, "follower", dir, cfg.tables, cfg.maint, repl)
			if err != nil {
				fmt.Println("INFRA: cannot start follower:", err)
				r.Inconcl.Add(1)
				r.Extra("last_inconclusive", err.Error())
				return
			}
			defer follower.stop()
			// a probe table with one pair, created with the right token
			ctx := context.Background()
			if cfg.tables != "" {
				ctx = metadata.AppendToOutgoingContext(ctx, "authorization", "Bearer "+cfg.tables)
			}
			if _, err := regattapb.NewTablesClient(leader.conn).Create(ctx, &regattapb.CreateTableRequest{Name: "probe"}); err != nil {
				r.Inconcl.Add(1)
				r.Extra("last_inconclusive", "create probe: "+err.Error())
				return
			}
			for i := 0; i < 200; i++ {
				c2, cancel := context.WithTimeout(context.Background(), time.Second)
				_, err = regattapb.NewKVClient(leader.conn).Put(c2, &regattapb.PutRequest{Table: []byte("probe"), Key: []byte("k"), Value: []byte("v")})
				cancel()
				if err == nil {
					break
				}
				time.Sleep(20 * time.Millisecond)
			}
			// wait until the follower replicated the table and the pair
			for i := 0; i < 400; i++ {
				if probeContent(follower.conn) == "k=v;" {
					break
				}
				time.Sleep(25 * time.Millisecond)
			}
			for _, node := range []struct {
				role string
				p    *proc
			}{{"leader", leader}, {"follower", follower}} {
				baseTables, err := listTables(node.p.conn, cfg.tables)
				if err != nil {
					r.Inconcl.Add(1)
					r.Extra("last_inconclusive", "list: "+err.Error())
					continue
				}
				baseContent := probeContent(node.p.conn)
				for _, m := range methods(node.role) {
					tok := ""
					switch m.service {
					case "tables":
						tok = cfg.tables
					case "maintenance":
						tok = cfg.maint
					}
					right := tok
					if right == "" {
						right = "unconfigured-token"
					}
					for _, v := range variants() {
						if (v.right || tok == "") && (m.name == "Tables.Create" || m.name == "Tables.Delete" || strings.HasPrefix(m.name, "Maintenance.Re")) {
							// mutating calls with the right token would change the fixture; their
							// authentication path is the same interceptor as List / Backup
							continue
						}
						c2, cancel := context.WithTimeout(withAuth(v, right), 10*time.Second)
						err := m.call(c2, node.p.conn)
						cancel()
						code := status.Code(err)
						desc := fmt.Sprintf("config{tables-token=%v maintenance-token=%v} %s %s authorization=%s", cfg.tables != "", cfg.maint != "", node.role, m.name, v.name)
						r.Outcome(desc+code.String(), true)
						cs := map[string]any{"kind": "token", "config": ci, "node": node.role, "method": m.name, "authorization": v.name}
						switch {
						case tok != "" && !v.right:
							if code != codes.Unauthenticated {
								r.Violate(fmt.Sprintf("token/protected-method-reachable-without-the-token/%s@%s/%s", m.name, node.role, v.name), fmt.Sprintf("%s: status %s (%v), required Unauthenticated", desc, code, err), cs)
							}
						case tok != "" && v.right:
							if code == codes.Unauthenticated {
								r.Violate(fmt.Sprintf("token/right-token-rejected/%s@%s/%s", m.name, node.role, v.name), fmt.Sprintf("%s: %v", desc, err), cs)
							}
						default: // no token configured for this service, or an unprotected service
							if code == codes.Unauthenticated {
								r.Violate(fmt.Sprintf("token/unprotected-service-affected/%s@%s", m.name, node.role), fmt.Sprintf("%s: %v", desc, err), cs)
							}
						}
						if tok != "" && !v.right {
							// no effect
							if lt, err := listTables(node.p.conn, cfg.tables); err == nil && lt != baseTables {
								r.Violate("token/unauthenticated-call-had-an-effect/"+m.name, fmt.Sprintf("%s: tables %q -> %q", desc, baseTables, lt), cs)
								baseTables = lt
							}
						}
					}
					if pc := probeContent(node.p.conn); pc != baseContent && cfg.tables != "" && cfg.maint != "" {
						r.Violate("token/unauthenticated-call-had-an-effect/content", fmt.Sprintf("%s %s: content %q -> %q", node.role, m.name, baseContent, pc), map[string]any{"kind": "token", "config": ci})
						baseContent = pc
					}
				}
			}
			r.AddExtra("token_configurations_run", 1)
		}()
	}
}

// ---------------------------------------------------------------------------------------------
// TLS

type ca struct {
	cert *x509.Certificate
	key  *ecdsa.PrivateKey
	pem  []byte
}

func newCA(name string) *ca {
	key, _ := ecdsa.GenerateKey(elliptic.P256(), rand.Reader)
	tmpl := &x509.Certificate{SerialNumber: big.NewInt(time.Now().UnixNano()), Subject: pkix.Name{CommonName: name}, NotBefore: time.Now().Add(-time.Hour), NotAfter: time.Now().Add(24 * time.Hour), IsCA: true, KeyUsage: x509.KeyUsageCertSign | x509.KeyUsageDigitalSignature, BasicConstraintsValid: true}
	der, _ := x509.CreateCertificate(rand.Reader, tmpl, tmpl, &key.PublicKey, key)
	cert, _ := x509.ParseCertificate(der)
	return &ca{cert, key, pem.EncodeToMemory(&pem.Block{Type: "CERTIFICATE", Bytes: der})}
}

type leaf struct {
	name     string
	cert     tls.Certificate
	x        *x509.Certificate
	chainsTo string // "right" | "wrong" | "self"
}

func newLeaf(name string, signer *ca, chainsTo, cn string, dns []string, ips []net.IP, server bool) leaf {
	key, _ := ecdsa.GenerateKey(elliptic.P256(), rand.Reader)
	tmpl := &x509.Certificate{SerialNumber: big.NewInt(time.Now().UnixNano()), Subject: pkix.Name{CommonName: cn}, NotBefore: time.Now().Add(-time.Hour), NotAfter: time.Now().Add(24 * time.Hour),
		KeyUsage: x509.KeyUsageDigitalSignature, ExtKeyUsage: []x509.ExtKeyUsage{x509.ExtKeyUsageClientAuth, x509.ExtKeyUsageServerAuth}, DNSNames: dns, IPAddresses: ips}
	parent, pkey := tmpl, key
	if signer != nil {
		parent, pkey = signer.cert, signer.key
	}
	der, err := x509.CreateCertificate(rand.Reader, tmpl, parent, &key.PublicKey, pkey)
	if err != nil {
		panic(err)
	}
	x, _ := x509.ParseCertificate(der)
	return leaf{name: name, cert: tls.Certificate{Certificate: [][]byte{der}, PrivateKey: key}, x: x, chainsTo: chainsTo}
}

func writeKeyPair(dir, name string, l leaf) (string, string) {
	cf, kf := filepath.Join(dir, name+".crt"), filepath.Join(dir, name+".key")
	_ = os.WriteFile(cf, pem.EncodeToMemory(&pem.Block{Type: "CERTIFICATE", Bytes: l.cert.Certificate[0]}), 0o600)
	kb, _ := x509.MarshalECPrivateKey(l.cert.PrivateKey.(*ecdsa.PrivateKey))
	_ = os.WriteFile(kf, pem.EncodeToMemory(&pem.Block{Type: "EC PRIVATE KEY", Bytes: kb}), 0o600)
	return cf, kf
}

func handshake(scfg *tls.Config, client *leaf, serverCA *ca) (accepted bool, serverErr error) {
	return handshakeCache(scfg, client, serverCA, nil)
}

// handshakeCache is handshake with a client-side session cache: a session ticket obtained from one
// server configuration is offered to the next one (same server name).
func handshakeCache(scfg *tls.Config, client *leaf, serverCA *ca, cache tls.ClientSessionCache) (accepted bool, serverErr error) {
	cc, sc := net.Pipe()
	defer cc.Close()
	defer sc.Close()
	ccfg := &tls.Config{ServerName: "server.test", RootCAs: x509.NewCertPool(), MinVersion: tls.VersionTLS12, ClientSessionCache: cache}
	ccfg.RootCAs.AddCert(serverCA.cert)
	if client != nil {
		c := client.cert
		ccfg.GetClientCertificate = func(*tls.CertificateRequestInfo) (*tls.Certificate, error) { return &c, nil }
	}
	errc := make(chan error, 1)
	go func() {
		s := tls.Server(sc, scfg)
		_ = s.SetDeadline(time.Now().Add(10 * time.Second))
		err := s.Handshake()
		if err == nil {
			// make sure the client sees the verdict (TLS 1.3 reports client-cert failures late)
			_, err = s.Write([]byte("ok"))
		}
		errc <- err
	}()
	c := tls.Client(cc, ccfg)
	_ = c.SetDeadline(time.Now().Add(10 * time.Second))
	cerr := c.Handshake()
	if cerr == nil {
		buf := make([]byte, 2)
		_, cerr = io.ReadFull(c, buf)
	}
	serverErr = <-errc
	return serverErr == nil && cerr == nil, serverErr
}

const cn, host = "allowed-client", "client.allowed.test"

// hostCA stands for a CA of the host's default trust store (a public CA): it is NOT among the CAs a
// configuration names, so certificates it issued are foreign however well they match the allowed CN
// or hostname. setupHostTrust makes it the whole default trust store of this process and of every
// binary started from it (SSL_CERT_FILE / SSL_CERT_DIR are what crypto/x509 reads on Linux).
var hostCA *ca

func setupHostTrust() (cleanup func()) {
	dir, err := os.MkdirTemp("", "verif-c17-hosttrust-")
	if err != nil {
		return func() {}
	}
	c := newCA("host-trust-store-ca")
	file, empty := filepath.Join(dir, "host-ca.pem"), filepath.Join(dir, "empty")
	if os.WriteFile(file, c.pem, 0o644) != nil || os.Mkdir(empty, 0o755) != nil {
		os.RemoveAll(dir)
		return func() {}
	}
	os.Setenv("SSL_CERT_FILE", file)
	os.Setenv("SSL_CERT_DIR", empty)
	hostCA = c
	return func() { os.RemoveAll(dir) }
}

// tlsLeaves: the client certificates every TLS configuration is probed with (nil = none presented).
func tlsLeaves(right, wrong *ca) []*leaf {
	leaves := []*leaf{nil}
	add := func(l leaf) { leaves = append(leaves, &l) }
	add(newLeaf("rightCA/rightCN", right, "right", cn, nil, nil, false))
	add(newLeaf("rightCA/wrongCN", right, "right", "someone-else", nil, nil, false))
	add(newLeaf("rightCA/emptyCN", right, "right", "", nil, nil, false))
	add(newLeaf("rightCA/CN-as-prefix", right, "right", cn+"-x", nil, nil, false))
	add(newLeaf("rightCA/CN-case-changed", right, "right", strings.ToUpper(cn), nil, nil, false))
	add(newLeaf("wrongCA/rightCN", wrong, "wrong", cn, []string{host}, nil, false))
	add(newLeaf("self-signed/rightCN", nil, "self", cn, []string{host}, nil, false))
	add(newLeaf("rightCA/CN-only-in-SAN", right, "right", "other", []string{cn}, nil, false))
	add(newLeaf("rightCA/hostname-in-SAN", right, "right", "whatever", []string{host}, nil, false))
	add(newLeaf("rightCA/hostname-only-in-CN", right, "right", host, nil, nil, false))
	add(newLeaf("rightCA/wildcard-SAN", right, "right", "w", []string{"*.allowed.test"}, nil, false))
	add(newLeaf("rightCA/other-hostname-SAN", right, "right", "w", []string{"client.denied.test"}, nil, false))
	add(newLeaf("rightCA/IP-SAN", right, "right", "w", nil, []net.IP{net.ParseIP("10.1.2.3")}, false))
	if hostCA != nil {
		add(newLeaf("host-trust-store-CA/rightCN+hostname+IP", hostCA, "host", cn, []string{host}, []net.IP{net.ParseIP("10.1.2.3")}, false))
	}
	return leaves
}

// runTLSBinaries: the same question asked of the real `regatta leader` process, on both of its TLS
// endpoints (client API and replication), configured the way an operator does it (flags resp.
// config file): trusted CA + allowed CN / allowed hostname, with client-cert-auth left at its
// default and set. Every client certificate makes one real gRPC call over TLS.
func runTLSBinaries(r *evid.Run, bin string) {
	right, wrong := newCA("right-ca"), newCA("wrong-ca")
	leaves := tlsLeaves(right, wrong)
	srv := newLeaf("server", right, "right", "server.test", []string{"server.test"}, nil, true)
	for _, scheme := range []string{"https", "unixs"} {
		for _, mode := range []string{"cn", "hostname"} {
			for _, cca := range []bool{false, true} {
				if scheme == "unixs" && (mode != "cn" || cca) {
					continue // TLS over unix sockets: one configuration
				}
				dir, err := os.MkdirTemp("", "verif-c17-tlsbin-")
				if err != nil {
					r.Inconcl.Add(1)
					return
				}
				func() {
					defer os.RemoveAll(dir)
					caFile := filepath.Join(dir, "ca.crt")
					_ = os.WriteFile(caFile, right.pem, 0o600)
					scf, skf := writeKeyPair(dir, "server", srv)
					apiPort, replPort := freePort(), freePort()
					raft := fmt.Sprintf("127.0.0.1:%d", freePort())
					allowKey, allowVal := "allowed-cn", cn
					if mode == "hostname" {
						allowKey, allowVal = "allowed-hostname", host
					}
					// the replication endpoint's allowed-cn / allowed-hostname have no flag: config file
					cfg := fmt.Sprintf("replication:\n  %s: %q\n", allowKey, allowVal)
					_ = os.WriteFile(filepath.Join(dir, "config.yaml"), []byte(cfg), 0o600)
					apiAddr, replAddr := fmt.Sprintf("https://127.0.0.1:%d", apiPort), fmt.Sprintf("https://127.0.0.1:%d", replPort)
					target := func(port int) string { return fmt.Sprintf("127.0.0.1:%d", port) }
					if scheme == "unixs" {
						apiAddr, replAddr = "unixs://"+filepath.Join(dir, "api.sock"), "unixs://"+filepath.Join(dir, "repl.sock")
						target = func(port int) string {
							if port == apiPort {
								return "unix://" + filepath.Join(dir, "api.sock")
							}
							return "unix://" + filepath.Join(dir, "repl.sock")
						}
					}
					args := []string{"leader",
						"--api.address", apiAddr,
						"--api.cert-filename", scf, "--api.key-filename", skf, "--api.ca-filename", caFile, "--api." + allowKey, allowVal,
						"--replication.address", replAddr,
						"--replication.cert-filename", scf, "--replication.key-filename", skf, "--replication.ca-filename", caFile,
						"--rest.address", fmt.Sprintf("http://127.0.0.1:%d", freePort()),
						"--raft.address", raft, "--raft.initial-members", "1=" + raft,
						"--raft.node-host-dir", filepath.Join(dir, "nh"), "--raft.state-machine-dir", filepath.Join(dir, "sm"),
						"--raft.rtt", "5ms", "--raft.election-rtt", "10",
						"--memberlist.address", fmt.Sprintf("127.0.0.1:%d", freePort()),
						"--log-level", "ERROR",
					}
					if cca {
						args = append(args, "--api.client-cert-auth", "--replication.client-cert-auth")
					}
					cmd := exec.Command(bin, args...)
					logf := filepath.Join(dir, "leader.log")
					f, _ := os.Create(logf)
					cmd.Stdout, cmd.Stderr = f, f
					cmd.Dir = dir
					if err := cmd.Start(); err != nil {
						r.Inconcl.Add(1)
						return
					}
					defer func() {
						_ = cmd.Process.Signal(os.Interrupt)
						done := make(chan struct{})
						go func() { _ = cmd.Wait(); close(done) }()
						select {
						case <-done:
						case <-time.After(10 * time.Second):
							_ = cmd.Process.Kill()
							<-done
						}
					}()
					call := func(port int, l *leaf, replication bool) (accepted bool, err error) {
						ccfg := &tls.Config{ServerName: "server.test", RootCAs: x509.NewCertPool(), MinVersion: tls.VersionTLS12}
						ccfg.RootCAs.AddCert(right.cert)
						if l != nil && l != plaintext {
							c := l.cert
							ccfg.GetClientCertificate = func(*tls.CertificateRequestInfo) (*tls.Certificate, error) { return &c, nil }
						}
						creds := credentials.NewTLS(ccfg)
						if l == plaintext {
							creds = insecure.NewCredentials() // a client that does not speak TLS at all
						}
						conn, err := grpc.NewClient(target(port), grpc.WithTransportCredentials(creds))
						if err != nil {
							return false, err
						}
						defer conn.Close()
						ctx, cancel := context.WithTimeout(context.Background(), 5*time.Second)
						defer cancel()
						if replication {
							_, err = regattapb.NewMetadataClient(conn).Get(ctx, &regattapb.MetadataRequest{})
						} else {
							_, err = regattapb.NewClusterClient(conn).Status(ctx, &regattapb.StatusRequest{})
						}
						// a refused certificate surfaces as a transport failure; any answer of a handler
						// (OK or an application status) means the connection was accepted
						if c := status.Code(err); c == codes.Unavailable || c == codes.DeadlineExceeded {
							return false, err
						}
						return true, err
					}
					// ready when the right client gets an answer on both endpoints
					var good *leaf
					for _, l := range leaves {
						if l != nil && ((mode == "cn" && l.name == "rightCA/rightCN") || (mode == "hostname" && l.name == "rightCA/hostname-in-SAN")) {
							good = l
						}
					}
					ready := false
					for deadline := time.Now().Add(60 * time.Second); time.Now().Before(deadline); time.Sleep(100 * time.Millisecond) {
						a, _ := call(apiPort, good, false)
						b, _ := call(replPort, good, true)
						if a && b {
							ready = true
							break
						}
					}
					desc := fmt.Sprintf("regatta leader {%s, ca-filename, %s, client-cert-auth=%v}", scheme, allowKey, cca)
					if !ready {
						b, _ := os.ReadFile(logf)
						r.Violate("tlsbin/right-client-never-accepted/"+mode, desc+": "+tail(string(b)), map[string]any{"kind": "tlsbin", "config": desc})
						return
					}
					for _, ep := range []string{"api", "replication"} {
						port := apiPort
						if ep == "replication" {
							port = replPort
						}
						for _, l := range append(append([]*leaf{}, leaves...), plaintext) {
							name := "no-certificate"
							if l != nil {
								name = l.name
							}
							accepted, cerr := call(port, l, ep == "replication")
							should := l != nil && l.chainsTo == "right"
							if should {
								if mode == "cn" {
									should = l.x.Subject.CommonName == cn
								} else {
									should = l.x.VerifyHostname(host) == nil
								}
							}
							r.Outcome(fmt.Sprint(desc, ep, name, accepted), true)
							r.AddExtra("tls_calls_to_real_binaries", 1)
							cs := map[string]any{"kind": "tlsbin", "config": desc, "endpoint": ep, "client": name}
							if accepted && !should {
								r.Violate(fmt.Sprintf("tlsbin/%s-endpoint-accepts-wrong-client/%s/allow=%s", ep, name, mode), fmt.Sprintf("%s: %s endpoint answered client %s (%v)", desc, ep, name, cerr), cs)
							}
							if !accepted && should {
								r.Violate(fmt.Sprintf("tlsbin/%s-endpoint-rejects-right-client/%s/allow=%s", ep, name, mode), fmt.Sprintf("%s: %s endpoint refused client %s: %v", desc, ep, name, cerr), cs)
							}
						}
					}
				}()
			}
		}
	}
}

// plaintext stands for a client that connects without TLS.
var plaintext = &leaf{name: "plaintext-client-without-TLS", chainsTo: "none"}

// runResumption: every ordered pair (A, B) of the server configurations built from the SAME
// certificate and key (as the endpoints of one node are, or one endpoint before and after its
// trust settings were tightened) x every client certificate: the client first visits A with a
// session cache, then B with the same cache. B's verdict must be its verdict for a fresh
// handshake: a session obtained elsewhere must not carry a client past B's CA / CN / hostname rules.
type builtCfg struct {
	desc string
	cfg  *tls.Config
	// should: whether a fresh handshake of the leaf must be accepted (nil = the property is silent)
	should func(l *leaf) *bool
}

// runTLSResumeBinary: one real leader whose two TLS endpoints use the same certificate and key but
// different rules - replication: trusted CA only; client API: trusted CA + allowed CN. A client the
// API must refuse first talks to the replication endpoint (accepted there) and then, with the same
// TLS session cache, to the API.
func runTLSResumeBinary(r *evid.Run, bin string) {
	right, wrong := newCA("right-ca"), newCA("wrong-ca")
	leaves := tlsLeaves(right, wrong)
	srv := newLeaf("server", right, "right", "server.test", []string{"server.test"}, nil, true)
	dir, err := os.MkdirTemp("", "verif-c17-tlsres-")
	if err != nil {
		r.Inconcl.Add(1)
		return
	}
	defer os.RemoveAll(dir)
	caFile := filepath.Join(dir, "ca.crt")
	_ = os.WriteFile(caFile, right.pem, 0o600)
	scf, skf := writeKeyPair(dir, "server", srv)
	apiPort, replPort := freePort(), freePort()
	raft := fmt.Sprintf("127.0.0.1:%d", freePort())
	args := []string{"leader",
		"--api.address", fmt.Sprintf("https://127.0.0.1:%d", apiPort),
		"--api.cert-filename", scf, "--api.key-filename", skf, "--api.ca-filename", caFile, "--api.allowed-cn", cn,
		"--replication.address", fmt.Sprintf("https://127.0.0.1:%d", replPort),
		"--replication.cert-filename", scf, "--replication.key-filename", skf, "--replication.ca-filename", caFile,
		"--rest.address", fmt.Sprintf("http://127.0.0.1:%d", freePort()),
		"--raft.address", raft, "--raft.initial-members", "1=" + raft,
		"--raft.node-host-dir", filepath.Join(dir, "nh"), "--raft.state-machine-dir", filepath.Join(dir, "sm"),
		"--raft.rtt", "5ms", "--raft.election-rtt", "10",
		"--memberlist.address", fmt.Sprintf("127.0.0.1:%d", freePort()),
		"--log-level", "ERROR",
	}
	cmd := exec.Command(bin, args...)
	logf := filepath.Join(dir, "leader.log")
	f, _ := os.Create(logf)
	cmd.Stdout, cmd.Stderr = f, f
	cmd.Dir = dir
	if err := cmd.Start(); err != nil {
		r.Inconcl.Add(1)
		return
	}
	defer func() {
		_ = cmd.Process.Signal(os.Interrupt)
		done := make(chan struct{})
		go func() { _ = cmd.Wait(); close(done) }()
		select {
		case <-done:
		case <-time.After(10 * time.Second):
			_ = cmd.Process.Kill()
			<-done
		}
	}()
	call := func(port int, l *leaf, replication bool, cache tls.ClientSessionCache) bool {
		ccfg := &tls.Config{ServerName: "server.test", RootCAs: x509.NewCertPool(), MinVersion: tls.VersionTLS12, ClientSessionCache: cache}
		ccfg.RootCAs.AddCert(right.cert)
		if l != nil {
			c := l.cert
			ccfg.GetClientCertificate = func(*tls.CertificateRequestInfo) (*tls.Certificate, error) { return &c, nil }
		}
		conn, err := grpc.NewClient(fmt.Sprintf("127.0.0.1:%d", port), grpc.WithTransportCredentials(credentials.NewTLS(ccfg)))
		if err != nil {
			return false
		}
		defer conn.Close()
		ctx, cancel := context.WithTimeout(context.Background(), 5*time.Second)
		defer cancel()
		if replication {
			_, err = regattapb.NewMetadataClient(conn).Get(ctx, &regattapb.MetadataRequest{})
		} else {
			_, err = regattapb.NewClusterClient(conn).Status(ctx, &regattapb.StatusRequest{})
		}
		c := status.Code(err)
		return c != codes.Unavailable && c != codes.DeadlineExceeded
	}
	var good *leaf
	for _, l := range leaves {
		if l != nil && l.name == "rightCA/rightCN" {
			good = l
		}
	}
	ready := false
	for deadline := time.Now().Add(60 * time.Second); time.Now().Before(deadline); time.Sleep(100 * time.Millisecond) {
		if call(apiPort, good, false, nil) && call(replPort, good, true, nil) {
			ready = true
			break
		}
	}
	if !ready {
		r.Inconcl.Add(1)
		return
	}
	for _, l := range leaves {
		if l == nil || l.chainsTo != "right" || l.x.Subject.CommonName == cn {
			continue
		}
		cache := tls.NewLRUClientSessionCache(4)
		// twice: TLS 1.3 tickets arrive after the handshake, the second call certainly has one
		first := call(replPort, l, true, cache) && call(replPort, l, true, cache)
		if !first {
			r.Violate("tlsbin/replication-endpoint-rejects-right-client/"+l.name+"/allow=ca-only", "trusted CA only: client "+l.name+" refused", map[string]any{"kind": "tlsbin", "client": l.name})
			continue
		}
		accepted := call(apiPort, l, false, cache)
		r.Outcome(fmt.Sprint("tlsbin-resume", l.name, accepted), true)
		r.AddExtra("tls_resumption_calls_to_real_binaries", 1)
		if accepted {
			r.Violate("tlsbin/session-from-the-replication-endpoint-bypasses-the-api-endpoint-checks/"+l.name, fmt.Sprintf("regatta leader {api: ca + allowed-cn, replication: ca only, same certificate and key}: client %s, refused by the API on a fresh connection, is answered after visiting the replication endpoint with the same session cache", l.name), map[string]any{"kind": "tlsbin", "client": l.name})
		}
	}
}

// runAuthConcurrent: ONE authorization function instance (as installed on a protected service) called
// by several clients at the same time - one with the right token, one with another token, one with
// none: every interleaving at statement granularity up to 3 preemptions. Each call is decided on its
// own metadata only.
func runAuthConcurrent(r *evid.Run) {
	vp.Hook = func(label string) {
		if t := sched.Cur(); t != nil {
			t.Point(label)
		}
	}
	defer func() { vp.Hook = nil }()
	const right = "s3cret-token"
	mkctx := func(authz string) context.Context {
		if authz == "" {
			return metadata.NewIncomingContext(context.Background(), metadata.MD{})
		}
		return metadata.NewIncomingContext(context.Background(), metadata.Pairs("authorization", authz))
	}
	clients := []struct {
		name  string
		authz string
		ok    bool
	}{{"right-token", "Bearer " + right, true}, {"other-token", "Bearer 0ther-token!", false}, {"no-token", "", false}, {"right-token-again", "Bearer " + right, true}}
	progs := [][]int{{0, 1}, {0, 2}, {1, 2}, {0, 1, 2}, {0, 1, 3}, {1, 0, 1}}
	var execs, points int64
	for _, pg := range progs {
		var f func(context.Context) (context.Context, error)
		var errs []error
		mk := func() sched.Scenario {
			f = regattacmd.VerifAuthFunc(right)
			errs = make([]error, len(pg))
			var sc sched.Scenario
			for i, ci := range pg {
				sc.Threads = append(sc.Threads, func(t *sched.T) {
					t.Point("call-" + clients[ci].name)
					_, errs[i] = f(mkctx(clients[ci].authz))
				})
			}
			return sc
		}
		ex := &sched.Explorer{Mk: mk, MaxBound: 3, Stop: r.Expired,
			Check: func(x sched.Exec, _ *sched.Scenario) string {
				cs := map[string]any{"kind": "auth-concurrent", "program": pg, "choices": x.Choices}
				if x.Deadlock || x.Livelock || x.Panic != "" || x.Diverged != "" {
					r.Violate("token/concurrent/execution-abnormal", fmt.Sprintf("deadlock=%v livelock=%v panic=%s diverged=%s", x.Deadlock, x.Livelock, x.Panic, x.Diverged), cs)
					return "abnormal"
				}
				out := ""
				for i, ci := range pg {
					c := clients[ci]
					got := status.Code(errs[i])
					out += got.String() + ";"
					if c.ok && errs[i] != nil {
						r.Violate("token/concurrent/right-token-refused", fmt.Sprintf("client %s got %v while %d other clients were calling | trace %s", c.name, errs[i], len(pg)-1, sched.TraceStr(x)), cs)
					}
					if !c.ok && got != codes.Unauthenticated {
						r.Violate("token/concurrent/call-without-the-token-accepted/"+c.name, fmt.Sprintf("client %s got %v (code %s) while a client with the right token was calling the same service | trace %s", c.name, errs[i], got, sched.TraceStr(x)), cs)
					}
				}
				r.Outcome(fmt.Sprint("auth-conc", pg, out), true)
				return out
			}}
		res := ex.Run()
		execs += res.Executions
		points += res.Points
	}
	r.Extra("auth_concurrent_programs", len(progs))
	r.Extra("auth_concurrent_executions", execs)
	r.Extra("auth_concurrent_scheduling_decisions", points)
}

func runResumption(r *evid.Run, built []builtCfg, leaves []*leaf, right *ca) {
	for _, a := range built {
		for _, b := range built {
			for _, l := range leaves {
				want := b.should(l)
				if want == nil || *want {
					continue // only clients B must refuse are of interest
				}
				cache := tls.NewLRUClientSessionCache(4)
				first, _ := handshakeCache(a.cfg, l, right, cache)
				if !first {
					continue // no session to bring along
				}
				accepted, _ := handshakeCache(b.cfg, l, right, cache)
				name := "no-certificate"
				if l != nil {
					name = l.name
				}
				r.Outcome(fmt.Sprint("resume", a.desc, b.desc, name, accepted), true)
				r.AddExtra("tls_resumption_pairs", 1)
				if accepted {
					r.Violate("tls/session-from-another-configuration-bypasses-client-checks/"+name, fmt.Sprintf("client %s visited %s first, then %s accepted it although it refuses the same client on a fresh handshake", name, a.desc, b.desc), map[string]any{"kind": "tls", "first": a.desc, "config": b.desc, "client": name})
				}
			}
		}
	}
}

func runTLS(r *evid.Run) {
	dir, err := os.MkdirTemp("", "verif-c17-tls-")
	if err != nil {
		r.Inconcl.Add(1)
		return
	}
	defer os.RemoveAll(dir)
	right, wrong := newCA("right-ca"), newCA("wrong-ca")
	caFile := filepath.Join(dir, "ca.crt")
	_ = os.WriteFile(caFile, right.pem, 0o600)
	srv := newLeaf("server", right, "right", "server.test", []string{"server.test"}, nil, true)
	scf, skf := writeKeyPair(dir, "server", srv)
	leaves := tlsLeaves(right, wrong)
	var built []builtCfg
	defer func() { runResumption(r, built, leaves, right) }()
	for _, trusted := range []bool{false, true} {
		for _, cca := range []bool{false, true} {
			for _, mode := range []string{"none", "cn", "hostname", "ip", "both"} {
				ti := security.TLSInfo{CertFile: scf, KeyFile: skf, ClientCertAuth: cca}
				if trusted {
					ti.TrustedCAFile = caFile
				}
				switch mode {
				case "cn":
					ti.AllowedCN = cn
				case "hostname":
					ti.AllowedHostname = host
				case "ip":
					ti.AllowedHostname = "10.1.2.3"
				case "both":
					ti.AllowedCN, ti.AllowedHostname = cn, host
				}
				desc := fmt.Sprintf("TLSInfo{TrustedCAFile=%v ClientCertAuth=%v allow=%s}", trusted, cca, mode)
				scfg, err := ti.ServerConfig()
				if mode == "both" {
					r.Outcome(desc, true)
					if err == nil {
						r.Violate("tls/mutually-exclusive-options-accepted", desc, map[string]any{"kind": "tls", "config": desc})
					}
					continue
				}
				if err != nil {
					r.Violate("tls/server-config-error", desc+": "+err.Error(), map[string]any{"kind": "tls", "config": desc})
					continue
				}
				{
					trusted, mode := trusted, mode
					built = append(built, builtCfg{desc: desc, cfg: scfg, should: func(l *leaf) *bool {
						if !trusted {
							return nil
						}
						v := l != nil && l.chainsTo == "right"
						if v {
							switch mode {
							case "cn":
								v = l.x.Subject.CommonName == cn
							case "hostname":
								v = l.x.VerifyHostname(host) == nil
							case "ip":
								v = l.x.VerifyHostname("10.1.2.3") == nil
							}
						}
						return &v
					}})
				}
				for _, l := range leaves {
					name := "no-certificate"
					if l != nil {
						name = l.name
					}
					accepted, serr := handshake(scfg, l, right)
					r.Outcome(fmt.Sprint(desc, name, accepted), true)
					cs := map[string]any{"kind": "tls", "config": desc, "client": name}
					// the property speaks where a CA is configured and a CN or hostname is allowed
					if trusted && mode != "none" {
						should := l != nil && l.chainsTo == "right"
						if should {
							switch mode {
							case "cn":
								should = l.x.Subject.CommonName == cn
							case "hostname":
								should = l.x.VerifyHostname(host) == nil
							case "ip":
								should = l.x.VerifyHostname("10.1.2.3") == nil
							}
						}
						if accepted && !should {
							r.Violate(fmt.Sprintf("tls/connection-accepted-from-wrong-client/%s/allow=%s", name, mode), fmt.Sprintf("%s accepted client %s", desc, name), cs)
						}
						if !accepted && should {
							r.Violate(fmt.Sprintf("tls/right-client-rejected/%s/allow=%s", name, mode), fmt.Sprintf("%s rejected client %s: %v", desc, name, serr), cs)
						}
					} else if trusted && mode == "none" {
						// a trusted CA alone: only clients chaining to it
						should := l != nil && l.chainsTo == "right"
						if accepted != should {
							r.Violate(fmt.Sprintf("tls/trusted-ca-not-enforced/%s", name), fmt.Sprintf("%s: client %s accepted=%v", desc, name, accepted), cs)
						}
					}
					r.AddExtra("tls_handshakes", 1)
				}
			}
		}
	}
}

func Run(r *evid.Run) {
	r.Check = "c17"
	r.Rule("tokens, concurrent: one instance of the commands' authorization function called by 2-3 clients at once (right token, another token, no token; 6 programs), every interleaving at statement granularity up to 3 preemptions: each call decided on its own metadata; tokens: for each token configuration {maintenance only, tables only, both, none} the real `regatta leader` and `regatta follower` binaries (built from the working tree) are started on unix sockets; every method of Tables (Create, Delete, List) and Maintenance (Backup stream, Restore stream, Reset) plus KV.Range and Cluster.Status as controls is called on both nodes with 14 authorization variants (absent, empty, right token under 3 scheme spellings, prefix, suffix, case-changed, trailing/leading space, Basic scheme, scheme only, token only, the other service's token): a configured service answers Unauthenticated to everything but the exact token and nothing changes; the right token is never Unauthenticated; unconfigured and other services are unaffected. TLS: real security.TLSInfo.ServerConfig() handshakes over in-memory pipes for 15 client certificates (no certificate, right/wrong CA, self-signed, CN variants, SAN variants, IP SAN, and one issued by a CA that is only in the host's default trust store - SSL_CERT_FILE points this process and the started binaries at a store holding exactly that CA) x {TrustedCAFile} x {ClientCertAuth} x {no restriction, AllowedCN, AllowedHostname, allowed IP, both (must be refused at configuration time)}; reference for hostname validity is x509's VerifyHostname; every ordered pair of those configurations (same certificate and key) x every client: a session obtained from the first must not carry a client past the second one's rules; the same 15 client certificates against the real `regatta leader` process on BOTH its TLS endpoints (client API by flags, replication by flags + config file) for {trusted CA + allowed CN, trusted CA + allowed hostname} x {client-cert-auth default, set}, and once with both endpoints on unix sockets with TLS (unixs://), one real gRPC call each, plus a client that does not speak TLS at all; plus one leader whose endpoints share certificate and key but not the rules (replication: CA only, API: CA + allowed CN): a client the API refuses visits the replication endpoint first and then the API with the same TLS session cache. The binary is built with the repository's own toolchain. Non-trivial: all; distinct = distinct (case, outcome)")
	bin := filepath.Join(evid.VerifDir, ".bin", "regatta-c17")
	args := []string{"build"}
	if ov := os.Getenv("VERIF_BUILD_OVERLAY"); ov != "" {
		args = append(args, "-overlay", ov) // the change under test (if any) applies to the binary too
	}
	args = append(args, "-o", bin, ".")
	// the repository's own toolchain (what a release is built with): the standard library inside the
	// binary - crypto/tls in particular - is part of what is being checked
	build := exec.Command("go", args...)
	build.Dir = "/repo"
	build.Env = append(os.Environ(), "GOFLAGS=-mod=mod", "GOPROXY=off", "GOSUMDB=off", "GOTOOLCHAIN=local")
	if out, err := build.CombinedOutput(); err != nil {
		fmt.Println("INFRA: cannot build the regatta binary:", err, string(out))
		os.Exit(2)
	}
	defer os.Remove(bin)
	defer setupHostTrust()()
	if sp, err := x509.SystemCertPool(); err != nil || hostCA == nil || !sp.Equal(func() *x509.CertPool { p := x509.NewCertPool(); p.AddCert(hostCA.cert); return p }()) {
		// the default trust store could not be replaced: the foreign-but-publicly-trusted client is not probed
		hostCA = nil
		r.Extra("host_trust_store_replaced", false)
	} else {
		r.Extra("host_trust_store_replaced", true)
	}
	runAuthConcurrent(r)
	runTokens(r, bin)
	runTLS(r)
	runTLSBinaries(r, bin)
	runTLSResumeBinary(r, bin)
	r.Sample(map[string]any{"token": "config{tables-token=true maintenance-token=true} follower Maintenance.Reset authorization=prefix-of-right"})
	r.Sample(map[string]any{"tls": "TLSInfo{TrustedCAFile=true ClientCertAuth=false allow=hostname} client rightCA/hostname-only-in-CN"})
	r.Assume("crypto/tls and crypto/x509 are trusted; the probe never sends mutating calls with the right token (they share the interceptor path with List/Backup)")
}

func Replay(raw json.RawMessage) (string, bool) {
	return "C17 cases are deterministic: re-run scripts/check.sh C17 quick; case: " + string(raw) + "\n", false
}
