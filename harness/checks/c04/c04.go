// Package c04: crash recovery exposes exactly a prefix of the log, atomically and only once.
// Fault enumeration: every mutating file-system operation boundary of a history is a crash point.
package c04

import (
	"bytes"
	"encoding/json"
	"fmt"
	"strings"

	"github.com/jamf/regatta/regattapb"
	"github.com/jamf/regatta/storage/table/fsm"
	sm "github.com/lni/dragonboat/v4/statemachine"

	. "verif/harness/cmdx"
	"verif/harness/evid"
	"verif/harness/fsmx"
	"verif/harness/par"
	"verif/harness/refkv"
)

var wild = []byte{0}

// Step kinds: 0..nCmd-1 apply one alphabet item (one apply call, possibly several entries); then
// controls.
type item struct {
	name string
	cmds []*regattapb.Command // entries of one apply call
}

func items() []item {
	return []item{
		{"put", []*regattapb.Command{Put("a", "1", false)}},
		{"overwrite+prev", []*regattapb.Command{Put("a", "2", true)}},
		{"delete", []*regattapb.Command{Del("a", nil, true, true)}},
		{"range-delete", []*regattapb.Command{Del("a", wild, false, true)}},
		{"txn-two-puts", []*regattapb.Command{Txn(nil, Ops(OpPut("x", "t", false), OpPut("y", "t", false)), nil)}},
		{"put-batch", []*regattapb.Command{PutBatch("b", "1", "c", "2")}},
		{"sequence@L", []*regattapb.Command{WithLeader(Seq(Put("a", "3", false), Put("ab", "1", false)), 40)}},
		{"two-entries-one-call", []*regattapb.Command{Put("p", "1", false), WithLeader(Put("q", "1", false), 41)}},
		// apply calls that write no user data: only the bookkeeping moves
		{"dummy@L", []*regattapb.Command{WithLeader(Dummy(), 42)}},
		{"txn-failing-with-empty-branch", []*regattapb.Command{Txn(Cmps(Exists("never", nil)), Ops(OpPut("n", "1", false)), nil)}},
	}
}

const (
	ctlSync = iota
	ctlReopen
	ctlSnapS
	ctlSnapC
	nCtl
)

var ctlName = []string{"Sync", "close+reopen", "install-snapshot(snapshot-format)", "install-snapshot(checkpoint-format)"}

type Case struct {
	Family string `json:"family,omitempty"` // "" = the enumerated histories, "large" = the memtable-filling history
	Steps  []int  `json:"steps"`
	Crash  int    `json:"crash"`            // op number at which syncs stop being effective
	Crash2 int    `json:"crash2,omitempty"` // second crash (op number in recovery phase), -1 none
	// Process: the (first) crash is a crash of the process - nothing the file system was told before
	// the crash point is lost, whether synced or not (the in-process memtable is)
	Process bool     `json:"process_crash,omitempty"`
	Desc    []string `json:"desc,omitempty"`
	Op      string   `json:"op,omitempty"`
}

type logEntry struct {
	index uint64
	cmd   *regattapb.Command
	batch int // id of the apply call / snapshot that delivered it
}

// plan is the deterministic expansion of a history: the log it produces and per-index models.
type plan struct {
	steps  []int
	log    []logEntry
	models map[uint64]*refkv.Model // state after entries 1..i
	res    map[uint64]string       // expected result per index
	final  uint64
}

func stepName(its []item, s int) string {
	if s < len(its) {
		return its[s].name
	}
	return ctlName[s-len(its)]
}

func mkPlan(its []item, steps []int) *plan {
	p := &plan{steps: steps, models: map[uint64]*refkv.Model{0: refkv.New()}, res: map[uint64]string{}}
	m := refkv.New()
	var idx uint64
	batch := 0
	add := func(c *regattapb.Command) {
		idx++
		p.log = append(p.log, logEntry{idx, c, batch})
		v, cr := m.Apply(idx, fsmx.Wire(c))
		p.res[idx] = fsmx.ExpectStr(v, cr)
		p.models[idx] = m.Clone()
	}
	for _, s := range steps {
		batch++
		if s < len(its) {
			for _, c := range its[s].cmds {
				add(c)
			}
		} else if c := s - len(its); c == ctlSnapS || c == ctlSnapC {
			// the donor is one entry ahead
			add(WithLeader(Put("z", fmt.Sprintf("donor%d", batch), false), 90+uint64(batch)))
		}
	}
	p.final = idx
	return p
}

// exec runs the history on env. It returns the op count observed after each step completed, and
// stops silently on errors once the crash point has fired (the process is "dead" by then).
type execResult struct {
	doneAt    []int // CountFS.Count() after step i completed (index 0 = first open)
	syncFloor []uint64
	err       string
}

func exec(its []item, p *plan, env *fsmx.Env) (res execResult) {
	inst, idx, err := env.Open("t", 10001, fsm.RecoveryTypeSnapshot)
	if err != nil || idx != 0 {
		res.err = fmt.Sprintf("first open: idx=%d err=%v", idx, err)
		if inst != nil {
			inst.Close()
		}
		return
	}
	res.doneAt = append(res.doneAt, env.FS.Count())
	res.syncFloor = append(res.syncFloor, 0)
	li := 0 // next log entry
	var applied uint64
	defer func() {
		if inst != nil {
			inst.Close()
		}
	}()
	for _, s := range p.steps {
		floor := res.syncFloor[len(res.syncFloor)-1]
		if s < len(its) {
			var ents []sm.Entry
			for range its[s].cmds {
				ents = append(ents, fsmx.Entry(p.log[li].index, p.log[li].cmd))
				li++
			}
			if _, err := inst.Update(ents); err != nil {
				res.err = "update: " + err.Error()
				return
			}
			applied = ents[len(ents)-1].Index
		} else {
			switch s - len(its) {
			case ctlSync:
				if err := inst.Sync(); err != nil {
					res.err = "sync: " + err.Error()
					return
				}
				floor = applied
			case ctlReopen:
				if err := inst.Close(); err != nil {
					res.err = "close: " + err.Error()
					inst = nil
					return
				}
				inst, idx, err = env.Open("t", 10001, fsm.RecoveryTypeSnapshot)
				if err != nil {
					res.err = "reopen: " + err.Error()
					return
				}
				if !env.FS.Fired() && idx != applied {
					res.err = fmt.Sprintf("clean reopen returned %d want %d", idx, applied)
					return
				}
				floor = applied
			case ctlSnapS, ctlSnapC:
				srt := fsm.RecoveryTypeSnapshot
				if s-len(its) == ctlSnapC {
					srt = fsm.RecoveryTypeCheckpoint
				}
				donorIdx := p.log[li].index
				snap, err := donorSnapshot(p, donorIdx, srt)
				if err != nil {
					res.err = "donor: " + err.Error()
					return
				}
				li++
				if err := inst.Recover(bytes.NewReader(snap), nil); err != nil {
					res.err = "recover: " + err.Error()
					return
				}
				applied = donorIdx
				floor = applied
			}
		}
		res.doneAt = append(res.doneAt, env.FS.Count())
		res.syncFloor = append(res.syncFloor, floor)
	}
	// final clean close (flushes)
	err = inst.Close()
	inst = nil
	if err != nil {
		res.err = "final close: " + err.Error()
		return
	}
	res.doneAt = append(res.doneAt, env.FS.Count())
	res.syncFloor = append(res.syncFloor, applied)
	return
}

// donorSnapshot builds a donor replica that applied log entries 1..upTo and saves a snapshot.
func donorSnapshot(p *plan, upTo uint64, srt fsm.SnapshotRecoveryType) ([]byte, error) {
	env := fsmx.NewEnv()
	d, _, err := env.Open("t", 10001, srt)
	if err != nil {
		return nil, err
	}
	defer d.Close()
	for _, e := range p.log {
		if e.index > upTo {
			break
		}
		if _, err := d.Update([]sm.Entry{fsmx.Entry(e.index, e.cmd)}); err != nil {
			return nil, err
		}
	}
	var buf bytes.Buffer
	if err := d.SaveSnapshot(nil, &buf, nil); err != nil {
		return nil, err
	}
	return buf.Bytes(), nil
}

type viol struct{ sig, detail string }

func short(s string) string {
	s = fsmx.Canon(s)
	if i := strings.IndexByte(s, '\n'); i > 0 {
		s = s[:i]
	}
	// strip concrete paths
	if i := strings.LastIndex(s, ": "); i > 0 && len(s)-i < 60 {
		s = s[i+2:]
	}
	if len(s) > 60 {
		s = s[:60]
	}
	return s
}

// verify checks the recovered state on env (after the crash) and re-applies the rest of the log.
// crash2 >= 0 arms a second crash at that op of the recovery phase and verifies again afterwards.
func verify(its []item, p *plan, env *fsmx.Env, floor uint64, phase string, crash2 int) (vs []viol, outcome string, ops int) {
	env.FS.Reset()
	if crash2 >= 0 {
		env.FS.Arm(crash2)
	}
	inst, i, err := env.Open("t", 10001, fsm.RecoveryTypeSnapshot)
	if err != nil {
		if inst != nil {
			inst.Close()
		}
		if crash2 >= 0 && env.FS.Fired() {
			// the second crash hit during this open; recover once more without faults
			env.Crash()
			return verify(its, p, env, floor, phase+"+second-crash-in-reopen", -1)
		}
		return []viol{{"reopen-fails(" + short(err.Error()) + ")@crash-during:" + phase, err.Error()}}, "open-error", env.FS.Count()
	}
	closed := false
	defer func() {
		if !closed {
			inst.Close()
		}
	}()
	check := func(tag string) bool {
		li, err := inst.LocalIndex()
		if err != nil {
			vs = append(vs, viol{"index-read-error@" + phase, err.Error()})
			return false
		}
		if li != i {
			vs = append(vs, viol{"open-index-differs-from-stored-index" + tag + "@crash-during:" + phase, fmt.Sprintf("Open returned %d, stored local index %d", i, li)})
		}
		m, ok := p.models[i]
		if !ok {
			vs = append(vs, viol{"reported-index-not-in-log" + tag + "@crash-during:" + phase, fmt.Sprintf("index %d", i)})
			return false
		}
		if i < floor {
			vs = append(vs, viol{"index-below-last-completed-sync" + tag + "@crash-during:" + phase, fmt.Sprintf("recovered index %d < %d covered by a sync/close/install that completed before the crash", i, floor)})
		}
		kvs, err := inst.All()
		if err != nil {
			vs = append(vs, viol{"read-error@" + phase, err.Error()})
			return false
		}
		want := m.Range(&regattapb.RequestOp_Range{Key: wild, RangeEnd: wild})
		if g, w := fsmx.KVs(kvs), fsmx.KVs(want.Kvs); g != w {
			sig := "content-not-the-prefix-at-reported-index"
			// partial batch? content equals a model state strictly inside another apply call
			for j, mm := range p.models {
				if j != i && fsmx.KVs(mm.Range(&regattapb.RequestOp_Range{Key: wild, RangeEnd: wild}).Kvs) == g {
					sig = "content-is-another-prefix-than-reported"
				}
			}
			vs = append(vs, viol{sig + tag + "@crash-during:" + phase, fmt.Sprintf("index %d: content %s want %s", i, g, w)})
			return false
		}
		// a reported index inside an apply call would expose part of a batch
		for k, e := range p.log {
			if e.index == i && k+1 < len(p.log) && p.log[k+1].batch == e.batch {
				vs = append(vs, viol{"partial-batch" + tag + "@crash-during:" + phase, fmt.Sprintf("index %d is inside an apply call", i)})
			}
		}
		le, _ := inst.LeaderIndex()
		if le != m.Leader {
			vs = append(vs, viol{"leader-index-mismatch" + tag + "@crash-during:" + phase, fmt.Sprintf("index %d: leader index %d want %d", i, le, m.Leader)})
		}
		return true
	}
	if !check("") {
		return vs, fmt.Sprintf("i=%d bad", i), env.FS.Count()
	}
	// re-apply the rest, one entry per call, as the Raft library would
	for _, e := range p.log {
		if e.index <= i {
			continue
		}
		out, err := inst.Update([]sm.Entry{fsmx.Entry(e.index, e.cmd)})
		if err != nil {
			if crash2 >= 0 && env.FS.Fired() {
				break
			}
			vs = append(vs, viol{"reapply-error(" + short(err.Error()) + ")@crash-during:" + phase, err.Error()})
			return vs, "reapply-error", env.FS.Count()
		}
		if g, w := fsmx.NormalizeObserved(out[0]), p.res[e.index]; g != w {
			vs = append(vs, viol{"reapply-result-mismatch@crash-during:" + phase, fmt.Sprintf("entry %d %s: got %s want %s", e.index, fsmx.CmdStr(e.cmd), g, w)})
		}
	}
	if crash2 >= 0 {
		// let the second crash take effect (if it fired), then recover without faults
		fired := env.FS.Fired()
		_ = inst.Sync()
		inst.Close()
		closed = true
		n := env.FS.Count()
		if fired {
			env.Crash()
			v2, o2, _ := verify(its, p, env, floor, phase+"+second-crash", -1)
			return append(vs, v2...), o2, n
		}
		env.FS.Disarm()
		return vs, fmt.Sprintf("i=%d", i), n
	}
	kvs, _ := inst.All()
	fm := p.models[p.final]
	want := fm.Range(&regattapb.RequestOp_Range{Key: wild, RangeEnd: wild})
	li, _ := inst.LocalIndex()
	le, _ := inst.LeaderIndex()
	if g, w := fsmx.KVs(kvs), fsmx.KVs(want.Kvs); g != w || li != fm.Applied || le != fm.Leader {
		vs = append(vs, viol{"state-after-reapply-differs-from-no-crash-run@crash-during:" + phase, fmt.Sprintf("recovered at %d: content %s applied %d leader %d; want %s %d %d", i, g, li, le, w, fm.Applied, fm.Leader)})
	}
	return vs, fmt.Sprintf("i=%d", i), env.FS.Count()
}

// phaseOf names the step during which op k executes.
func phaseOf(its []item, p *plan, doneAt []int, k int) string {
	for s, d := range doneAt {
		if k < d {
			if s == 0 {
				return "first-open"
			}
			if s-1 >= len(p.steps) {
				return "final-close"
			}
			st := p.steps[s-1]
			if st < len(its) {
				return "apply"
			}
			return ctlName[st-len(its)]
		}
	}
	return "final-close"
}

func floorAt(doneAt []int, floors []uint64, k int) uint64 {
	var f uint64
	for s, d := range doneAt {
		if d <= k {
			f = floors[s]
		}
	}
	return f
}

// RunHistory enumerates all crash points of one history.
func RunHistory(r *evid.Run, its []item, steps []int, repeated bool) {
	runHistory(r, its, steps, repeated, "")
}

// Large family: apply calls of two entries - a small plain put, then a 1 MiB put that asks for the
// previous pair (so the call's batch turns into an indexed batch half way) - repeated until the
// writes exceed what pebble keeps in memory, so that pebble flushes a memtable ON ITS OWN between
// two syncs of the workload: the only way data of an apply call can become durable without the
// call's index.
func largeItems() []item {
	big := strings.Repeat("L", 1<<20)
	its := items()
	for i := 0; i < 20; i++ {
		// a different small key per call: a call's leading write that became durable without the
		// call is then visible as such
		its = append(its, item{fmt.Sprintf("small-put(s%02d)-then-1MiB-put+prev", i), []*regattapb.Command{Put(fmt.Sprintf("s%02d", i), "s", false), Put("big", big, true)}})
	}
	return its
}

// hugeCallItems / hugeCallHistory: ONE apply call whose writes exceed 16 MiB (many entries applied
// together, as in log replay or follower catch-up): eight plain 2 MiB puts, a transaction of three
// puts, two put batches of three 1 MiB pairs. Whatever the implementation does to bound its batch, a
// crash must expose entries of the call only whole, in order, with their index.
func hugeCallItems() []item {
	v2 := strings.Repeat("H", 2<<20)
	v1 := strings.Repeat("h", 1<<20)
	var call []*regattapb.Command
	for i := 0; i < 8; i++ {
		call = append(call, Put(fmt.Sprintf("huge-%d", i), v2, false))
	}
	call = append(call,
		Txn(nil, Ops(OpPut("txn-a", v2, false), OpPut("txn-b", "b", false), OpPut("txn-c", "c", false)), nil),
		PutBatch("batch1-a", v1, "batch1-b", v1, "batch1-c", v1),
		PutBatch("batch2-a", v1, "batch2-b", v1, "batch2-c", v1),
		Put("after", "x", false))
	return append(items(), item{"one-apply-call-of-27MiB(8 puts, txn of 3 puts, 2 put batches, put)", call})
}

func hugeCallHistory() []int {
	n := len(items())
	return []int{0, n + 1 + ctlSync, n} // put, Sync (controls follow the n+1 items), the huge call
}

func largeHistory() []int {
	n := len(items())
	var steps []int
	for i := 0; i < 20; i++ {
		steps = append(steps, n+i)
	}
	return steps
}

// InstallHistories are histories containing snapshot installs, for C08's crash part.
func InstallHistories() [][]int {
	n := len(items())
	s, c := n+ctlSnapS, n+ctlSnapC
	sy, re := n+ctlSync, n+ctlReopen
	return [][]int{{s}, {c}, {0, s}, {0, c}, {s, 0}, {c, 5}, {7, sy, s}, {7, re, c}}
}

// RunHistoryExt lets other checks (C08) enumerate the crash points of a history.
func RunHistoryExt(r *evid.Run, steps []int, prefix string) {
	runHistory(r, items(), steps, false, prefix)
}

func runHistory(r *evid.Run, its []item, steps []int, repeated bool, prefix string) {
	runHistoryFam(r, "", its, steps, repeated, prefix)
}

func runHistoryFam(r *evid.Run, family string, its []item, steps []int, repeated bool, prefix string) {
	p := mkPlan(its, steps)
	// numbering run
	env := fsmx.NewEnv()
	env.FS.Keep = true
	num := exec(its, p, env)
	if num.err != "" {
		r.Violate(prefix+"no-crash-run-error/"+short(num.err), num.err, Case{Steps: steps, Crash: -1, Desc: descr(its, steps)})
		return
	}
	n := env.FS.Count()
	oplog := env.FS.Log
	for k := 0; k <= n; k++ {
		if r.Expired() {
			r.Cap("deadline inside crash enumeration")
			return
		}
		// the same crash point as a crash of the process (nothing handed to the file system is lost)
		if family == "" {
			cp := Case{Family: family, Steps: steps, Crash: k, Crash2: -1, Process: true}
			vsp, outp, _ := RunCase(its, p, cp, num, oplog)
			r.Outcome(fmt.Sprintf("%v|%d|process|%s", steps, k, outp), true)
			r.AddExtra("process_crash_runs", 1)
			if len(vsp) > 0 {
				cp.Desc = descr(its, steps)
				if k < len(oplog) {
					cp.Op = oplog[k].Kind + " " + oplog[k].Path
				}
				for _, v := range vsp {
					r.Violate(prefix+"process-crash/"+v.sig, v.detail+fmt.Sprintf(" [history %v, process crash before op %d (%s)]", cp.Desc, k, cp.Op), cp)
				}
			}
		}
		c := Case{Family: family, Steps: steps, Crash: k, Crash2: -1}
		vs, outcome, recOps := RunCase(its, p, c, num, oplog)
		r.Outcome(fmt.Sprintf("%v|%d|%s", steps, k, outcome), true)
		if strings.HasPrefix(outcome, "skipped") {
			r.AddExtra("skipped_nondeterministic_numbering", 1)
		}
		if len(vs) > 0 {
			c.Desc = descr(its, steps)
			if k < len(oplog) {
				c.Op = oplog[k].Kind + " " + oplog[k].Path
			}
			for _, v := range vs {
				r.Violate(prefix+v.sig, v.detail+fmt.Sprintf(" [history %v, crash before op %d (%s)]", c.Desc, k, c.Op), c)
			}
			continue
		}
		if repeated {
			for k2 := 0; k2 < recOps; k2++ {
				c2 := Case{Steps: steps, Crash: k, Crash2: k2}
				vs, outcome, _ := RunCase(its, p, c2, num, oplog)
				r.Outcome(fmt.Sprintf("%v|%d|%d|%s", steps, k, k2, outcome), true)
				r.AddExtra("repeated_crash_runs", 1)
				if len(vs) > 0 {
					c2.Desc = descr(its, steps)
					for _, v := range vs {
						r.Violate(prefix+v.sig, v.detail+fmt.Sprintf(" [history %v, crash before op %d, second crash before recovery op %d]", c2.Desc, k, k2), c2)
					}
				}
			}
		}
	}
}

// RunCase runs one armed execution + recovery.
func RunCase(its []item, p *plan, c Case, num execResult, oplog []fsmx.Op) (vs []viol, outcome string, recOps int) {
	for attempt := 0; attempt < 3; attempt++ {
		env := fsmx.NewEnv()
		env.FS.Keep = true
		env.FS.KeepCache = c.Process
		env.FS.Arm(c.Crash)
		res := exec(its, p, env)
		// determinism guard: the armed run must have issued the same ops up to the crash point
		same := len(env.FS.Log) >= min(c.Crash, len(oplog))
		for i := 0; same && i < c.Crash && i < len(oplog); i++ {
			if env.FS.Log[i] != oplog[i] {
				same = false
			}
		}
		if !same {
			continue
		}
		doneAt, floors := res.doneAt, res.syncFloor
		if res.err != "" && !env.FS.Fired() {
			return []viol{{"armed-run-error/" + short(res.err), res.err}}, "err", 0
		}
		_ = num
		phase := phaseOf(its, p, num.doneAt, c.Crash)
		floor := floorAt(doneAt, floors, c.Crash)
		env.Crash()
		return verify(its, p, env, floor, phase, c.Crash2)
	}
	return nil, "skipped-nondeterministic-op-numbering", 0
}

func descr(its []item, steps []int) []string {
	var d []string
	for _, s := range steps {
		d = append(d, stepName(its, s))
	}
	return d
}

func Run(r *evid.Run) {
	r.Check = "c04"
	its := items()
	na := len(its) + nCtl
	depth := 2
	if r.Thorough() {
		depth = 3
	}
	r.Rule(fmt.Sprintf("histories = every sequence of length 0..%d over %d steps (10 apply calls: put, overwrite, delete, range delete, two-put transaction, put batch, sequence with leader index, two entries in one call, and two that write no user data - a no-op with leader index and a transaction that fails into an empty branch; 4 controls: Sync, clean close+reopen, snapshot install from a donor one entry ahead in both formats), starting from a never-opened table on a strict in-memory FS with only the base directory durable. For EVERY mutating FS operation boundary k (create/write/sync/rename/remove/link/mkdir/dir-sync, first open and final close included) the history is re-run with syncs ineffective from k on, unsynced state dropped, the table reopened and checked (index = stored index, content = model prefix at that index, not inside an apply call, >= last completed sync/close/install, leader index), the rest of the log re-applied and compared with the no-crash run. Every crash point is explored twice: as a power loss (unsynced state dropped) and as a crash of the process (everything handed to the file system before the point survives, synced or not; later operations are lost). Plus one memtable-filling history (20 apply calls of a small plain put followed by a 1MiB put with prev_kv, no sync: pebble flushes on its own in between) with the same enumeration of crash points, and one history whose last apply call writes 27MiB (8 plain 2MiB puts, a transaction of three puts, two put batches, a put). Thorough adds a second crash at every operation of the recovery+re-apply phase for histories of length <= 2. Non-trivial: every case (each is a distinct (history, crash point)); distinct = distinct (history, crash point, recovered index) triples", depth, na))
	total := par.SeqCount(na, depth)
	done := par.For(total+2, r.Expired, func(i int64) {
		if i == 0 {
			// scheduled first: the longest single history
			runHistoryFam(r, "large", largeItems(), largeHistory(), false, "large/")
			r.AddExtra("histories", 1)
			return
		}
		if i == 1 {
			runHistoryFam(r, "huge-call", hugeCallItems(), hugeCallHistory(), false, "huge-call/")
			r.AddExtra("histories", 1)
			return
		}
		i -= 2
		steps := par.SeqAt(na, depth, i)
		RunHistory(r, its, steps, r.Thorough() && len(steps) <= 2)
		r.AddExtra("histories", 1)
		if i == total-1 || i == 5 {
			r.Sample(map[string]any{"history": descr(its, steps), "crash_points": "every op boundary"})
		}
	})
	if done < total+2 {
		r.Cap(fmt.Sprintf("deadline: %d of %d histories", done, total))
	}
	runFailedOpen(r)
	r.Rule("failed first open: the very first Open hits an I/O error at its j-th mutating file-system operation (every j outside pebble's DB directory, where an error ends the process; the process stays up) and is retried - and, for EVERY j, the first Open is cut short at that operation by a panic (the process dies there, the machine stays up, nothing handed to the file system is lost and nothing extra becomes durable) and the table is opened again - then two puts and a completed Sync, then a power loss: the reopened table is at or beyond the synced index")
	r.Assume("fault model of the property: file data durable up to the file's last sync, directory entries up to the directory's last sync (pebble strict MemFS); no torn writes inside a synced file")
	r.Assume("the workload is allowed to run on after the crash point with syncs ineffective, then unsynced state is dropped; operations after the crash point therefore never reach durable state")
}

// failedOpenOne: the very first Open of the table hits an I/O error at its j-th mutating file-system
// operation (the process stays up, nothing is lost, nothing extra becomes durable) and is retried;
// then two puts and a Sync, then a power loss. What the completed Sync covered must survive - "it
// exists" (left behind by the failed attempt) is not "it is durable". j = 0: no error.
func failedOpenOne(j int, dies bool) (vs []viol, outcome string, ops []fsmx.Op) {
	env := fsmx.NewEnv()
	env.FS.FailOp = j
	env.FS.FailPanics = dies
	env.FS.Keep = true
	inst, _, err := env.Open("t", 10001, fsm.RecoveryTypeSnapshot)
	ops = append(ops, env.FS.Log...)
	firstFailed := err != nil
	if err != nil {
		if inst != nil && inst.F != nil {
			_ = inst.Close()
		}
		inst, _, err = env.Open("t", 10001, fsm.RecoveryTypeSnapshot)
		if err != nil {
			if inst != nil && inst.F != nil {
				_ = inst.Close()
			}
			return nil, fmt.Sprintf("j=%d retry-refused: %s", j, short(err.Error())), ops // no acknowledgement was given: not a verdict
		}
	}
	ok := true
	for i, k := range []string{"a", "b"} {
		if _, err := inst.Update([]sm.Entry{fsmx.Entry(uint64(i+1), Put(k, "v", false))}); err != nil {
			ok = false
		}
	}
	if !ok || inst.Sync() != nil {
		_ = inst.Close()
		return nil, fmt.Sprintf("j=%d workload-refused", j), ops
	}
	// power loss (the instance is abandoned, its DB handle stays open as in a real crash)
	env.Crash()
	rec, idx, err := env.Open("t", 10001, fsm.RecoveryTypeSnapshot)
	if err != nil {
		return []viol{{"failed-first-open/reopen-error-after-crash", fmt.Sprintf("first open failed at op %d (%v), retried, 2 puts, Sync completed, power loss: reopen: %v", j, firstFailed, err)}}, "", ops
	}
	defer rec.Close()
	kvs, rerr := rec.All()
	outcome = fmt.Sprintf("j=%d failed=%v recovered-index=%d pairs=%d", j, firstFailed, idx, len(kvs))
	if idx < 2 || rerr != nil || len(kvs) != 2 {
		vs = append(vs, viol{"failed-first-open/index-below-last-completed-sync", fmt.Sprintf("first open failed at file-system operation %d and was retried; after 2 puts and a completed Sync a power loss left index %d and %d pairs (read error %v)", j, idx, len(kvs), rerr)})
	}
	return vs, outcome, ops
}

func runFailedOpen(r *evid.Run) {
	_, _, ops := failedOpenOne(0, false)
	for j := 0; j <= len(ops); j++ {
		for _, dies := range []bool{false, true} {
			// an I/O error is only injected into operations of regatta's own code: inside pebble's DB
			// directory it makes pebble end the process (Logger.Fatalf), which is the other mode
			if j > 0 && !dies && strings.Contains(ops[j-1].Path, "<rnd>/") {
				continue
			}
			vs, outcome, _ := failedOpenOne(j, dies)
			r.Outcome(fmt.Sprint("failed-open ", dies, " ", outcome), true)
			r.AddExtra("failed_first_open_cases", 1)
			for _, v := range vs {
				sig := v.sig
				if dies {
					sig = strings.Replace(sig, "failed-first-open/", "first-open-dies/", 1)
				}
				r.Violate(sig, v.detail, Case{Family: "failed-open", Crash: j, Process: dies})
			}
		}
	}
}

func Replay(raw json.RawMessage) (string, bool) {
	var c Case
	if err := json.Unmarshal(raw, &c); err != nil {
		return err.Error(), false
	}
	if c.Family == "failed-open" {
		vs, outcome, _ := failedOpenOne(c.Crash, c.Process)
		var sb strings.Builder
		sb.WriteString(outcome + "\n")
		for _, v := range vs {
			fmt.Fprintf(&sb, "%s: %s\n", v.sig, v.detail)
		}
		return sb.String(), len(vs) == 0
	}
	its := items()
	if c.Family == "large" {
		its = largeItems()
	}
	if c.Family == "huge-call" {
		its = hugeCallItems()
	}
	p := mkPlan(its, c.Steps)
	env := fsmx.NewEnv()
	env.FS.Keep = true
	num := exec(its, p, env)
	if c.Crash < 0 {
		return num.err, num.err == ""
	}
	vs, _, _ := RunCase(its, p, c, num, env.FS.Log)
	var sb strings.Builder
	for _, v := range vs {
		fmt.Fprintf(&sb, "%s: %s\n", v.sig, v.detail)
	}
	return sb.String(), len(vs) == 0
}
