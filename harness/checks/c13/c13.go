// Package c13: the metadata store is a deterministic compare-and-set register map.
package c13

import (
	"bytes"
	"context"
	"encoding/json"
	"errors"
	"fmt"
	"path"
	"reflect"
	"sort"
	"strings"
	"sync"
	"sync/atomic"
	"time"

	"github.com/jamf/regatta/storage/kv"
	dbsm "github.com/lni/dragonboat/v4/statemachine"

	"verif/harness/engx"
	"verif/harness/evid"
	"verif/harness/metastore"
	"verif/harness/par"
)

type opDef struct {
	Op    string // set | delete
	Key   string
	VerK  int // 0 zero, 1 current, 2 previous, 3 current+1, 4 far future
	Value string
}

func (o opDef) String() string {
	v := []string{"ver=0", "ver=current", "ver=previous", "ver=current+1", "ver=far-future"}[o.VerK]
	if o.Op == "delete" {
		return fmt.Sprintf("delete(%s,%s)", o.Key, v)
	}
	return fmt.Sprintf("set(%s=%q,%s)", o.Key, o.Value, v)
}

var narrowKeys = []string{"/tables/a", "/tables/a/lease", "/tables/sys/idseq"}
var wideKeys = []string{"/tables/a", "/tables/a/lease", "/tables/sys/idseq", "/cleanup/1/10001", "queue/a/1", "/tables/é世", "/tables/ab/x/y"}

// spellKeys are pairwise different keys that a normalisation of the key (path cleaning, trimming of
// slashes or blanks, case folding, unicode folding) would merge: the store is a map over the exact
// key strings.
var spellKeys = []string{"/tables/a", "/tables//a", "/tables/a/", "/tables/./a", "/tables/x/../a", "tables/a", "/tables/A", "/tables/a ", "/tables/a\u0301", "/tables/\u00e1"}

func alphabet(keys []string, vers []int, values []string) []opDef {
	var out []opDef
	for _, k := range keys {
		for _, v := range vers {
			for _, val := range values {
				out = append(out, opDef{"set", k, v, val})
			}
		}
	}
	for _, k := range keys {
		for _, v := range vers {
			out = append(out, opDef{"delete", k, v, ""})
		}
	}
	return out
}

type mpair struct {
	value string
	ver   uint64
}

type model struct {
	m    map[string]mpair
	prev map[string]uint64 // version the key had before its current one
	maxV uint64
}

func newModel() *model { return &model{m: map[string]mpair{}, prev: map[string]uint64{}} }

func (m *model) resolve(o opDef) uint64 {
	cur := m.m[o.Key].ver
	switch o.VerK {
	case 0:
		return 0
	case 1:
		return cur
	case 2:
		if p, ok := m.prev[o.Key]; ok && p != cur {
			return p
		}
		if cur > 0 {
			return cur - 1
		}
		return 1
	case 3:
		return cur + 1
	}
	return 1 << 62
}

// apply returns the expected result code and pair.
func (m *model) apply(index uint64, o opDef, ver uint64) (uint64, kv.Pair) {
	if cur, ok := m.m[o.Key]; ok && cur.ver != ver {
		return kv.ResultCodeVersionMismatch, kv.Pair{Key: o.Key, Value: cur.value, Ver: cur.ver}
	}
	if cur, ok := m.m[o.Key]; ok {
		m.prev[o.Key] = cur.ver
	}
	if o.Op == "set" {
		m.m[o.Key] = mpair{o.Value, index}
	} else {
		delete(m.m, o.Key)
	}
	return kv.ResultCodeSuccess, kv.Pair{Key: o.Key, Value: o.Value, Ver: index}
}

func (m *model) keys() []string {
	ks := make([]string, 0, len(m.m))
	for k := range m.m {
		ks = append(ks, k)
	}
	sort.Strings(ks)
	return ks
}

func entry(index uint64, o opDef, ver uint64) dbsm.Entry {
	// exactly as RaftStore.Set/Delete marshal them
	var b []byte
	if o.Op == "set" {
		b, _ = json.Marshal(kv.Update{Op: kv.UpdateOpSet, KVPair: kv.Pair{Key: o.Key, Value: o.Value, Ver: ver}})
	} else {
		b, _ = json.Marshal(kv.Update{Op: kv.UpdateOpDelete, KVPair: kv.Pair{Key: o.Key, Ver: ver}})
	}
	return dbsm.Entry{Index: index, Cmd: b}
}

func newLFSM() *kv.LFSM { return kv.NewLFSM()(1000, 1).(*kv.LFSM) }

var patterns = []string{"/tables/*", "/cleanup/1/*", "queue/a/*", "/tables/a/*", "*"}
var listPaths = []string{"/tables", "/tables/a", "/", "/cleanup/1", "queue/a", "/tables/sys", "/tables/ab", "/cleanup"}

// lookups renders every lookup answer of a store.
func lookups(f *kv.LFSM, keys []string) string {
	var sb strings.Builder
	for _, k := range keys {
		p, err := f.Lookup(kv.QueryKey{Key: k})
		e, _ := f.Lookup(kv.QueryExist{Key: k})
		fmt.Fprintf(&sb, "get(%s)=%v,%v exists=%v;", k, p, err, e)
	}
	for _, pat := range patterns {
		a, err := f.Lookup(kv.QueryAll{Pattern: pat})
		v, _ := f.Lookup(kv.QueryAllValues{Pattern: pat})
		fmt.Fprintf(&sb, "all(%s)=%v,%v vals=%v;", pat, a, err, v)
	}
	return sb.String()
}

func listings(f *kv.LFSM) string {
	var sb strings.Builder
	for _, p := range listPaths {
		l, _ := f.Lookup(kv.QueryList{Path: p})
		d, _ := f.Lookup(kv.QueryListDir{Path: p})
		fmt.Fprintf(&sb, "list(%s)=%v dir=%v;", p, l, d)
	}
	return sb.String()
}

// modelListings is the listing of a directory tree written down independently of the store: for a
// canonical path p other than the root, list(p) holds the first path element below p of every key at
// or below p (the key's own last element when the key is p), listdir(p) the first element below p of
// every key whose DIRECTORY lies strictly below p. Elements are compared whole (a sibling whose name
// merely starts with the directory's name is not below it). Returns "" for keys it does not define.
func (m *model) modelListings() string {
	var sb strings.Builder
	for _, p := range listPaths {
		if p == "/" {
			continue
		}
		pc := strings.Split(p, "/")
		under := func(c []string) bool {
			if len(c) < len(pc) {
				return false
			}
			for i := range pc {
				if c[i] != pc[i] {
					return false
				}
			}
			return true
		}
		lset, dset := map[string]bool{}, map[string]bool{}
		for _, k := range m.keys() {
			if k != path.Clean(k) {
				return "" // spellings outside the canonical form: the tree reading is not defined
			}
			kc := strings.Split(k, "/")
			if k == p {
				lset[kc[len(kc)-1]] = true
				continue
			}
			if dc := kc[:len(kc)-1]; under(dc) {
				lset[kc[len(pc)]] = true
				if len(dc) > len(pc) {
					dset[dc[len(pc)]] = true
				}
			}
		}
		srt := func(s map[string]bool) []string {
			out := make([]string, 0)
			for k := range s {
				out = append(out, k)
			}
			sort.Strings(out)
			return out
		}
		fmt.Fprintf(&sb, "list(%s)=%v dir=%v;", p, srt(lset), srt(dset))
	}
	return sb.String()
}

func listingsNoRoot(f *kv.LFSM) string {
	var sb strings.Builder
	for _, p := range listPaths {
		if p == "/" {
			continue
		}
		l, _ := f.Lookup(kv.QueryList{Path: p})
		d, _ := f.Lookup(kv.QueryListDir{Path: p})
		fmt.Fprintf(&sb, "list(%s)=%v dir=%v;", p, l, d)
	}
	return sb.String()
}

func (m *model) lookups(keys []string) string {
	var sb strings.Builder
	for _, k := range keys {
		if p, ok := m.m[k]; ok {
			fmt.Fprintf(&sb, "get(%s)=%v,%v exists=%v;", k, kv.Pair{Key: k, Value: p.value, Ver: p.ver}, nil, true)
		} else {
			fmt.Fprintf(&sb, "get(%s)=%v,%v exists=%v;", k, kv.Pair{}, kv.ErrNotExist, false)
		}
	}
	for _, pat := range patterns {
		all := make([]kv.Pair, 0)
		vals := make([]string, 0)
		for _, k := range m.keys() {
			if ok, _ := path.Match(pat, k); ok {
				all = append(all, kv.Pair{Key: k, Value: m.m[k].value, Ver: m.m[k].ver})
				vals = append(vals, m.m[k].value)
			}
		}
		sort.Strings(vals)
		fmt.Fprintf(&sb, "all(%s)=%v,%v vals=%v;", pat, all, nil, vals)
	}
	return sb.String()
}

type Case struct {
	Wide  bool     `json:"wide,omitempty"`
	Spell bool     `json:"spell,omitempty"`
	Seq   []int    `json:"seq"`
	Desc  []string `json:"desc,omitempty"`
}

type viol struct{ sig, detail string }

func index(i int) uint64 { return uint64(5*i + 3) }

func run(alpha []opDef, keys []string, c Case) (vs []viol, outcome string, nontrivial bool) {
	f := newLFSM()
	m := newModel()
	var ents []dbsm.Entry
	var wantRes []string
	var lastVer uint64
	// point-in-time snapshots: one is PREPARED before every entry (and after the last) and only
	// SAVED once the whole sequence has been applied - the image must be the store at its prepare
	// point (LFSM is a concurrent state machine: dragonboat applies further entries in between)
	type prepared struct {
		ctx   interface{}
		state string
	}
	var preps []prepared
	prepare := func() {
		ctx, err := f.PrepareSnapshot()
		if err != nil {
			vs = append(vs, viol{"snapshot-error", err.Error()})
			return
		}
		preps = append(preps, prepared{ctx, lookups(f, keys) + listings(f)})
	}
	// results are handed to the proposer without a copy: what Update returned for entry i must still
	// read the same after later Update calls
	type heldResult struct {
		res  dbsm.Result
		then string
		step int
	}
	var held []heldResult
	defer func() {
		for _, h := range held {
			if now := fmt.Sprintf("%d %s", h.res.Value, h.res.Data); now != h.then {
				vs = append(vs, viol{"result-changed-after-later-updates", fmt.Sprintf("step %d returned %s; after the later updates of the sequence the same result reads %s", h.step, h.then, now)})
			}
		}
	}()
	for i, oi := range c.Seq {
		prepare()
		o := alpha[oi]
		ver := m.resolve(o)
		e := entry(index(i), o, ver)
		ents = append(ents, e)
		existed := false
		if _, ok := m.m[o.Key]; ok {
			existed = true
		}
		code, pair := m.apply(index(i), o, ver)
		pb, _ := json.Marshal(pair)
		wantRes = append(wantRes, fmt.Sprintf("%d %s", code, pb))
		out, err := f.Update([]dbsm.Entry{{Index: e.Index, Cmd: e.Cmd}})
		if err != nil {
			return []viol{{"update-error", err.Error()}}, "", true
		}
		got := fmt.Sprintf("%d %s", out[0].Result.Value, out[0].Result.Data)
		held = append(held, heldResult{out[0].Result, got, i})
		if got != wantRes[i] {
			sig := "result-mismatch/" + o.Op
			if existed {
				sig += "/existing-key"
			} else {
				sig += "/absent-key"
			}
			sig += []string{"/ver=0", "/ver=current", "/ver=previous", "/ver=current+1", "/ver=far-future"}[o.VerK]
			vs = append(vs, viol{sig, fmt.Sprintf("step %d %s (ver %d): got %s want %s", i, o, ver, got, wantRes[i])})
		}
		if code == kv.ResultCodeSuccess && o.Op == "set" {
			if index(i) <= lastVer {
				vs = append(vs, viol{"version-not-increasing", fmt.Sprintf("step %d version %d after %d", i, index(i), lastVer)})
			}
			lastVer = index(i)
			nontrivial = true
		}
		outcome += got + ";"
	}
	prepare()
	gl, wl := lookups(f, keys), m.lookups(keys)
	if gl != wl {
		vs = append(vs, viol{"lookup-mismatch", fmt.Sprintf("got  %s\nwant %s", gl, wl)})
	}
	// list/listdir: history independence - same answers as a fresh store loaded with the model's pairs
	fresh := newLFSM()
	for j, k := range m.keys() {
		b, _ := json.Marshal(kv.Update{Op: kv.UpdateOpSet, KVPair: kv.Pair{Key: k, Value: m.m[k].value}})
		_, _ = fresh.Update([]dbsm.Entry{{Index: uint64(j + 1), Cmd: b}})
	}
	if a, b := listings(f), listings(fresh); a != b {
		vs = append(vs, viol{"listing-depends-on-history", fmt.Sprintf("store %s\nfresh %s", a, b)})
	}
	if want := m.modelListings(); want != "" {
		if got := listingsNoRoot(f); got != want {
			vs = append(vs, viol{"listing-differs-from-the-directory-tree-of-the-keys", fmt.Sprintf("store %s\nmodel %s", got, want)})
		}
	}
	// snapshot -> recover into a fresh store (that already holds something else)
	ctx, err := f.PrepareSnapshot()
	if err != nil {
		vs = append(vs, viol{"snapshot-error", err.Error()})
	} else {
		var buf bytes.Buffer
		if err := f.SaveSnapshot(ctx, &buf, nil, nil); err != nil {
			vs = append(vs, viol{"snapshot-error", err.Error()})
		}
		rec := newLFSM()
		b, _ := json.Marshal(kv.Update{Op: kv.UpdateOpSet, KVPair: kv.Pair{Key: "/tables/stale", Value: "x"}})
		_, _ = rec.Update([]dbsm.Entry{{Index: 1, Cmd: b}})
		if err := rec.RecoverFromSnapshot(&buf, nil, nil); err != nil {
			vs = append(vs, viol{"recover-error", err.Error()})
		} else {
			ks := append(append([]string(nil), keys...), "/tables/stale")
			if a, b := lookups(rec, ks)+listings(rec), lookups(f, ks)+listings(f); a != b {
				vs = append(vs, viol{"restored-store-differs", fmt.Sprintf("restored %s\noriginal %s", a, b)})
			}
			// the restored store keeps enforcing versions
			if len(m.m) > 0 {
				k := m.keys()[0]
				e := entry(1000, opDef{"set", k, 0, "z"}, m.m[k].ver+1)
				out, _ := rec.Update([]dbsm.Entry{e})
				if out[0].Result.Value != kv.ResultCodeVersionMismatch {
					vs = append(vs, viol{"restored-store-accepts-stale-version", k})
				}
			}
		}
	}
	// the snapshots prepared on the way, saved now
	for p, pr := range preps {
		var buf bytes.Buffer
		if err := f.SaveSnapshot(pr.ctx, &buf, nil, nil); err != nil {
			vs = append(vs, viol{"snapshot-error", err.Error()})
			continue
		}
		rec := newLFSM()
		if err := rec.RecoverFromSnapshot(&buf, nil, nil); err != nil {
			vs = append(vs, viol{"recover-error", err.Error()})
			continue
		}
		if got := lookups(rec, keys) + listings(rec); got != pr.state {
			vs = append(vs, viol{"snapshot-not-the-store-at-its-prepare-point", fmt.Sprintf("prepared before entry %d of %d, saved after the last: restored %s\nstore at prepare %s", p, len(ents), got, pr.state)})
			continue
		}
		// a replica recovering from it and replaying the tail ends where everybody else is
		if p < len(ents) {
			var tail []dbsm.Entry
			for j := p; j < len(ents); j++ {
				tail = append(tail, dbsm.Entry{Index: ents[j].Index, Cmd: ents[j].Cmd})
			}
			out, err := rec.Update(tail)
			if err != nil {
				vs = append(vs, viol{"replica-update-error", err.Error()})
				continue
			}
			var got []string
			for _, o := range out {
				got = append(got, fmt.Sprintf("%d %s", o.Result.Value, o.Result.Data))
			}
			if !reflect.DeepEqual(got, wantRes[p:]) || lookups(rec, keys) != gl {
				vs = append(vs, viol{"replica-recovered-from-snapshot-differs-after-replaying-the-tail", fmt.Sprintf("snapshot before entry %d: results %v want %v", p, got, wantRes[p:])})
			}
		}
	}
	// replicas under every batching
	n := len(ents)
	for cuts := 0; n > 1 && cuts < 1<<(n-1); cuts++ {
		rep := newLFSM()
		var got []string
		start := 0
		for i := 0; i < n; i++ {
			if i == n-1 || cuts&(1<<i) != 0 {
				var batch []dbsm.Entry
				for j := start; j <= i; j++ {
					batch = append(batch, dbsm.Entry{Index: ents[j].Index, Cmd: ents[j].Cmd})
				}
				out, err := rep.Update(batch)
				if err != nil {
					vs = append(vs, viol{"replica-update-error", err.Error()})
					break
				}
				for _, o := range out {
					got = append(got, fmt.Sprintf("%d %s", o.Result.Value, o.Result.Data))
				}
				start = i + 1
			}
		}
		if !reflect.DeepEqual(got, wantRes) || lookups(rep, keys) != gl {
			vs = append(vs, viol{"replica-differs-under-batching", fmt.Sprintf("cuts=%b results %v want %v", cuts, got, wantRes)})
		}
	}
	return vs, outcome + gl, nontrivial
}

func describe(alpha []opDef, seq []int) []string {
	var d []string
	for _, i := range seq {
		d = append(d, alpha[i].String())
	}
	return d
}

func Run(r *evid.Run) {
	r.Check = "c13"
	narrow := alphabet(narrowKeys, []int{0, 1, 2, 3}, []string{"v1", `{"json":"<&>"}`})
	wide := alphabet(wideKeys, []int{0, 1, 2, 3, 4}, []string{"v1", `{"json":"<&>"}`, ""})
	depth := 3
	if r.Thorough() {
		depth = 4
	}
	r.Rule(fmt.Sprintf("deep-narrow: every sequence of length 0..%d over %d updates ({set,delete} x 3 keys x versions {0,current,previous,current+1} x 2 values); shallow-wide: every sequence of length 0..2 over %d updates (7 keys incl. non-ASCII and a sibling directory whose name extends another's, far-future version, empty value); entries built exactly as RaftStore marshals them and applied to the real kv.LFSM with non-dense indices. After each sequence: per-update result codes and payloads, get/exists on all keys and the callers' glob patterns vs a plain map model; list/listdir vs a fresh store loaded with the model's pairs and (canonical keys, every listed path but the root) vs the directory tree of the keys written down independently, path elements compared whole; snapshot -> recover into a non-empty store; a snapshot PREPARED before every entry and saved only after the last must restore to the store at its prepare point, and a replica recovered from it that replays the tail must reproduce the tail's results and the final store; a second replica under every batching. Non-trivial: at least one successful set; distinct = distinct (results, lookups) renderings", depth, len(narrow), len(wide)))
	total := par.SeqCount(len(narrow), depth)
	done := par.For(total, r.Expired, func(i int64) {
		c := Case{Seq: par.SeqAt(len(narrow), depth, i)}
		vs, outcome, nt := run(narrow, narrowKeys, c)
		r.Outcome(outcome, nt)
		for _, v := range vs {
			c.Desc = describe(narrow, c.Seq)
			r.Violate(v.sig, v.detail, c)
		}
		if i == total-1 {
			c.Desc = describe(narrow, c.Seq)
			r.Sample(c)
		}
	})
	if done < total {
		r.Cap(fmt.Sprintf("deadline: %d of %d narrow sequences", done, total))
	}
	wtotal := par.SeqCount(len(wide), 2)
	wdone := par.For(wtotal, r.Expired, func(i int64) {
		c := Case{Wide: true, Seq: par.SeqAt(len(wide), 2, i)}
		vs, outcome, nt := run(wide, wideKeys, c)
		r.Outcome("w"+outcome, nt)
		for _, v := range vs {
			c.Desc = describe(wide, c.Seq)
			r.Violate(v.sig, v.detail, c)
		}
	})
	if wdone < wtotal {
		r.Cap(fmt.Sprintf("deadline: %d of %d wide sequences", wdone, wtotal))
	}
	spell := alphabet(spellKeys, []int{0, 1}, []string{"v1"})
	stotal := par.SeqCount(len(spell), 2)
	sdone := par.For(stotal, r.Expired, func(i int64) {
		c := Case{Spell: true, Seq: par.SeqAt(len(spell), 2, i)}
		vs, outcome, nt := run(spell, spellKeys, c)
		r.Outcome("s"+outcome, nt)
		for _, v := range vs {
			c.Desc = describe(spell, c.Seq)
			r.Violate("spelling/"+v.sig, v.detail, c)
		}
	})
	if sdone < stotal {
		r.Cap(fmt.Sprintf("deadline: %d of %d key-spelling sequences", sdone, stotal))
	}
	r.Extra("key_spelling_sequences", sdone)
	r.Rule(fmt.Sprintf("key spellings: every sequence of length 0..2 over %d updates on %d pairwise different keys that a normalisation would merge (doubled, trailing, dot and dot-dot path elements, missing leading slash, letter case, trailing blank, composed vs decomposed accent); same oracle: the store is a map over the exact key strings", len(spell), len(spellKeys)))
	runConformance(r)
	r.Extra("narrow_sequences", done)
	r.Extra("wide_sequences", wdone)
	r.Assume("an update on an absent key succeeds whatever version is supplied (the property constrains existing keys only)")
}

func Replay(raw json.RawMessage) (string, bool) {
	var c Case
	if err := json.Unmarshal(raw, &c); err != nil {
		return err.Error(), false
	}
	var vs []viol
	if c.Spell {
		vs, _, _ = run(alphabet(spellKeys, []int{0, 1}, []string{"v1"}), spellKeys, c)
	} else if c.Wide {
		vs, _, _ = run(alphabet(wideKeys, []int{0, 1, 2, 3, 4}, []string{"v1", `{"json":"<&>"}`, ""}), wideKeys, c)
	} else {
		vs, _, _ = run(alphabet(narrowKeys, []int{0, 1, 2, 3}, []string{"v1", `{"json":"<&>"}`}), narrowKeys, c)
	}
	var sb strings.Builder
	for _, v := range vs {
		fmt.Fprintf(&sb, "%s: %s\n", v.sig, v.detail)
	}
	return sb.String(), len(vs) == 0
}

// runConformance: the store adapter used by C14/C15 (metastore.NodeStore over kv.LFSM) and the real
// kv.RaftStore over a real dragonboat NodeHost must agree on every update sequence of length <= 2 of
// the narrow alphabet: error class and returned pair (versions compared by role, the real log starts
// with Raft's own entries), and every key's final presence and value.
func runConformance(r *evid.Run) {
	eng, err := engx.Start(engx.Opts{})
	if err != nil {
		r.Inconcl.Add(1)
		r.Extra("conformance", "engine did not start: "+err.Error())
		return
	}
	defer eng.Close()
	alpha := alphabet(narrowKeys, []int{0, 1, 2, 3}, []string{"", `{"json":"<&>"}`}) // incl. the empty value
	total := par.SeqCount(len(alpha), 2)
	type side struct {
		set func(k, v string, ver uint64) (kv.Pair, error)
		del func(k string, ver uint64) error
		get func(k string) (kv.Pair, error)
		cur map[string]uint64
		prv map[string]uint64
	}
	resolve := func(s *side, o opDef) uint64 {
		cur := s.cur[o.Key]
		switch o.VerK {
		case 0:
			return 0
		case 1:
			return cur
		case 2:
			if p, ok := s.prv[o.Key]; ok && p != cur {
				return p
			}
			if cur > 0 {
				return cur - 1
			}
			return 1
		case 3:
			return cur + 1
		}
		return 1 << 62
	}
	errClass := func(err error) string {
		switch {
		case err == nil:
			return "ok"
		case errors.Is(err, kv.ErrVersionMismatch):
			return "version-mismatch"
		case errors.Is(err, kv.ErrNotExist):
			return "not-exist"
		}
		return "other:" + err.Error()
	}
	var shard atomic.Uint64
	shard.Store(5000)
	compared := int64(0)
	old := par.Workers
	par.Workers = 8
	defer func() { par.Workers = old }()
	var mu sync.Mutex
	par.For(total, r.Expired, func(i int64) {
		seq := par.SeqAt(len(alpha), 2, i)
		// adapter side
		c := metastore.NewCluster(1, false)
		ns := &metastore.NodeStore{C: c, Node: 0}
		a := &side{set: ns.Set, del: ns.Delete, get: ns.Get, cur: map[string]uint64{}, prv: map[string]uint64{}}
		// real side: a RaftStore on its own shard of the shared NodeHost
		rs := &kv.RaftStore{NodeHost: eng.NodeHost, ClusterID: shard.Add(1)}
		if err := rs.Start(kv.RaftConfig{NodeID: 1, ElectionRTT: 10, HeartbeatRTT: 1, InitialMembers: eng.Config().InitialMembers}); err != nil {
			r.Inconcl.Add(1)
			return
		}
		ctx, cancel := context.WithTimeout(context.Background(), 20*time.Second)
		werr := rs.WaitForLeader(ctx)
		cancel()
		if werr != nil {
			r.Inconcl.Add(1)
			return
		}
		defer func() { _ = eng.NodeHost.StopShard(rs.ClusterID) }()
		b := &side{set: rs.Set, del: rs.Delete, get: rs.Get, cur: map[string]uint64{}, prv: map[string]uint64{}}
		// what the property says the real store must return, from a plain map of the successful updates
		type cell struct {
			value string
			ver   uint64
		}
		model := map[string]cell{}
		var maxVer uint64
		for step, oi := range seq {
			o := alpha[oi]
			var res [2]string
			for si, s := range []*side{a, b} {
				ver := resolve(s, o)
				if o.Op == "set" {
					p, err := s.set(o.Key, o.Value, ver)
					res[si] = fmt.Sprintf("%s key=%s value=%s", errClass(err), p.Key, p.Value)
					if si == 1 {
						cur, exists := model[o.Key]
						switch {
						case errors.Is(err, kv.ErrVersionMismatch):
							if !exists || cur.ver == ver {
								r.Violate("raftstore/set-refused-although-version-matches", fmt.Sprintf("sequence %v step %d %s (ver %d)", describe(alpha, seq), step, o, ver), map[string]any{"kind": "conformance", "seq": seq})
							} else if p.Key != o.Key || p.Value != cur.value || p.Ver != cur.ver {
								r.Violate("raftstore/version-mismatch-does-not-report-the-current-pair", fmt.Sprintf("sequence %v step %d %s (ver %d): reported {%s %q %d}, current pair {%s %q %d}", describe(alpha, seq), step, o, ver, p.Key, p.Value, p.Ver, o.Key, cur.value, cur.ver), map[string]any{"kind": "conformance", "seq": seq})
							}
						case err == nil:
							if exists && cur.ver != ver {
								r.Violate("raftstore/set-accepted-with-stale-version", fmt.Sprintf("sequence %v step %d %s (ver %d, current %d)", describe(alpha, seq), step, o, ver, cur.ver), map[string]any{"kind": "conformance", "seq": seq})
							}
							if p.Key != o.Key || p.Value != o.Value || p.Ver <= maxVer {
								r.Violate("raftstore/successful-set-returns-wrong-pair", fmt.Sprintf("sequence %v step %d %s: returned {%s %q %d}, versions handed out before reach %d", describe(alpha, seq), step, o, p.Key, p.Value, p.Ver, maxVer), map[string]any{"kind": "conformance", "seq": seq})
							}
							maxVer = max(maxVer, p.Ver)
							model[o.Key] = cell{o.Value, p.Ver}
						}
					}
					if err == nil {
						if c, ok := s.cur[o.Key]; ok {
							s.prv[o.Key] = c
						}
						s.cur[o.Key] = p.Ver
					}
				} else {
					err := s.del(o.Key, ver)
					res[si] = errClass(err)
					if si == 1 && err == nil {
						delete(model, o.Key)
					}
					if err == nil {
						if c, ok := s.cur[o.Key]; ok {
							s.prv[o.Key] = c
						}
						delete(s.cur, o.Key)
					}
				}
			}
			mu.Lock()
			compared++
			mu.Unlock()
			if res[0] != res[1] {
				r.Violate("conformance/store-adapter-differs-from-RaftStore", fmt.Sprintf("sequence %v step %d %s: adapter %q, RaftStore %q", describe(alpha, seq), step, o, res[0], res[1]), map[string]any{"kind": "conformance", "seq": seq})
				return
			}
		}
		for _, k := range narrowKeys {
			pa, ea := a.get(k)
			pb, eb := b.get(k)
			if cur, exists := model[k]; exists != (eb == nil) || (exists && (pb.Value != cur.value || pb.Ver != cur.ver)) {
				r.Violate("raftstore/final-read-differs-from-successful-updates", fmt.Sprintf("sequence %v key %s: RaftStore %v %v, model %v (exists %v)", describe(alpha, seq), k, pb, eb, cur, exists), map[string]any{"kind": "conformance", "seq": seq})
			}
			if errClass(ea) != errClass(eb) || pa.Value != pb.Value {
				r.Violate("conformance/store-adapter-differs-from-RaftStore/final-read", fmt.Sprintf("sequence %v key %s: adapter %v %v, RaftStore %v %v", describe(alpha, seq), k, pa, ea, pb, eb), map[string]any{"kind": "conformance", "seq": seq})
			}
		}
		r.AddExtra("conformance_sequences_compared_with_real_RaftStore", 1)
	})
	r.Extra("conformance_updates_compared", compared)
}
