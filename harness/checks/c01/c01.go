// Package c01: a table behaves as an ordered byte-string map for every command history.
// SEQ enumeration of command sequences against refkv, under two batchings, plus a shallow-wide
// sweep of range deletes / reads over an adversarial key alphabet.
package c01

import (
	"encoding/json"
	"fmt"
	"strings"

	"github.com/jamf/regatta/regattapb"
	"github.com/jamf/regatta/storage/table/fsm"
	sm "github.com/lni/dragonboat/v4/statemachine"

	. "verif/harness/cmdx"
	"verif/harness/evid"
	"verif/harness/fsmx"
	"verif/harness/par"
	"verif/harness/refkv"
)

var wild = []byte{0}

// Alphabet returns the deep-narrow command alphabet on K3 x V, simplest first.
func Alphabet() []*regattapb.Command {
	return []*regattapb.Command{
		Put("a", "1", false),
		Put("ab", "1", false),
		Put("b", "", false),
		Put("a", "2", true),
		Put("b", "2", true),
		Put("ab", "", true),
		Del("a", nil, false, false),
		Del("a", nil, false, true),
		Del("ab", nil, true, true),
		Del("b", nil, true, false),
		Del("a", B("b"), false, false),
		Del("a", B("b"), false, true),
		Del("a", B("b"), true, true),
		Del("a", wild, false, true),
		Del("a", wild, true, false),
		Del("\x00", wild, false, true),
		Del("ab", wild, false, false),
		Del("\x00", B("b"), true, false),
		Del("b", B("a"), false, true),    // inverted
		Del("a", B("a"), true, true),     // empty
		Del("ab", []byte{}, false, true), // present-but-empty upper bound: empty range
		PutBatch("a", "1", "ab", "2"),
		PutBatch("a", "1", "a", "2"),
		DelBatch("a", "b"),
		Seq(Put("a", "2", false), Del("a", wild, false, true), Put("b", "1", true)),
		Seq(Put("ab", "2", true)),
		Txn(Cmps(Exists("a", nil)), Ops(OpPut("ab", "1", true), OpGet("a", wild, 0, false, false)), Ops(OpPut("a", "1", false))),
		Dummy(),
		WithLeader(Put("a", "1", false), 7),
	}
}

// Case is one replayable C01 case.
type Case struct {
	Kind    string   `json:"kind"` // "seq" or "wide"
	Seq     []int    `json:"seq,omitempty"`
	Batched bool     `json:"batched,omitempty"`
	Desc    []string `json:"desc,omitempty"`
	Content int      `json:"content,omitempty"`
	Lo      int      `json:"lo,omitempty"`
	Hi      int      `json:"hi,omitempty"`
	Flags   int      `json:"flags,omitempty"`
}

type viol struct{ sig, detail string }

func cmdKind(c *regattapb.Command) string {
	k := c.Type.String()
	if c.Type == regattapb.Command_DELETE {
		if c.RangeEnd != nil {
			k += "-range"
			switch {
			case string(c.RangeEnd) == "\x00":
				k += "-wild"
			case len(c.RangeEnd) == 0:
				k += "-emptyend"
			case string(c.RangeEnd) <= string(c.Kv.GetKey()):
				k += "-inverted"
			}
		} else {
			k += "-single"
		}
	}
	if c.PrevKvs {
		k += "+prev"
	}
	if c.Count {
		k += "+count"
	}
	return k
}

func errSig(err error) string {
	s := err.Error()
	if i := strings.IndexByte(s, '\n'); i > 0 {
		s = s[:i]
	}
	if len(s) > 80 {
		s = s[:80]
	}
	return s
}

var probeBounds = [][]byte{B("a"), B("ab"), B("b"), wild}

// readProbes compares every probe read with the model; returns violations and a rendering.
func readProbes(inst *fsmx.Inst, m *refkv.Model, bounds [][]byte, singles [][]byte, forms int) (vs []viol, obs string) {
	var sb strings.Builder
	check := func(req *regattapb.RequestOp_Range) {
		got, err := inst.Range(req)
		want := m.Range(req)
		if err != nil {
			vs = append(vs, viol{"read-error/" + errSig(err), fmt.Sprintf("%s: %v", fsmx.RangeReqStr(req), err)})
			return
		}
		g, w := fsmx.RangeStr(got), fsmx.RangeStr(want)
		if g != w {
			form := "full"
			if req.KeysOnly {
				form = "keys-only"
			} else if req.CountOnly {
				form = "count-only"
			}
			if req.Limit > 0 {
				form += "+limit"
			}
			if req.RangeEnd == nil {
				form += "/single"
			} else {
				form += "/range"
			}
			what := "content"
			if fsmx.KVs(got.Kvs) == fsmx.KVs(want.Kvs) && got.Count == want.Count {
				what = "more-flag"
			} else if fsmx.KVs(got.Kvs) == fsmx.KVs(want.Kvs) {
				what = "count"
			}
			vs = append(vs, viol{"read-mismatch/" + what + "/" + form, fmt.Sprintf("%s: got %s want %s", fsmx.RangeReqStr(req), g, w)})
		}
		sb.WriteString(g)
	}
	for _, k := range singles {
		check(&regattapb.RequestOp_Range{Key: k})
		check(&regattapb.RequestOp_Range{Key: k, KeysOnly: true})
		check(&regattapb.RequestOp_Range{Key: k, CountOnly: true})
	}
	for _, lo := range bounds {
		for _, hi := range bounds {
			check(&regattapb.RequestOp_Range{Key: lo, RangeEnd: hi})
			check(&regattapb.RequestOp_Range{Key: lo, RangeEnd: hi, KeysOnly: true})
			check(&regattapb.RequestOp_Range{Key: lo, RangeEnd: hi, CountOnly: true})
			if forms >= 4 {
				check(&regattapb.RequestOp_Range{Key: lo, RangeEnd: hi, Limit: 1})
			}
		}
	}
	li, err := inst.LocalIndex()
	if err != nil {
		vs = append(vs, viol{"index-error/" + errSig(err), err.Error()})
	} else if li != m.Applied {
		vs = append(vs, viol{"applied-index-mismatch", fmt.Sprintf("local index %d, want %d", li, m.Applied)})
	}
	le, err := inst.LeaderIndex()
	if err != nil {
		vs = append(vs, viol{"index-error/" + errSig(err), err.Error()})
	} else if le != m.Leader {
		vs = append(vs, viol{"leader-index-mismatch", fmt.Sprintf("leader index %d, want %d", le, m.Leader)})
	}
	fmt.Fprintf(&sb, "|%d|%d", li, le)
	return vs, sb.String()
}

// RunSeq evaluates one sequence case.
func RunSeq(alpha []*regattapb.Command, c Case) (vs []viol, outcome string, nontrivial bool) {
	env := fsmx.NewEnv()
	inst, idx, err := env.Open("t", 10001, fsm.RecoveryTypeSnapshot)
	if err != nil || idx != 0 {
		return []viol{{"open-error", fmt.Sprintf("open: idx=%d err=%v", idx, err)}}, "", false
	}
	closed := false
	defer func() {
		if !closed {
			inst.Close()
		}
	}()
	m := refkv.New()
	var entries []sm.Entry
	var cmds []*regattapb.Command
	for i, ci := range c.Seq {
		cmd := alpha[ci]
		index := uint64(i + 1)
		if c.Batched {
			index = uint64(i*3 + 2)
		}
		entries = append(entries, fsmx.Entry(index, cmd))
		cmds = append(cmds, fsmx.Wire(cmd))
	}
	var results []sm.Entry
	if c.Batched {
		if len(entries) > 0 {
			out, err := inst.Update(entries)
			if err != nil {
				return []viol{{"update-error/batched/" + errSig(err), err.Error()}}, "", true
			}
			results = out
		}
	} else {
		for i := range entries {
			out, err := inst.Update(entries[i : i+1])
			if err != nil {
				return []viol{{"update-error/" + cmdKind(cmds[i]) + "/" + errSig(err), fmt.Sprintf("entry %d (%s): %v", i, fsmx.CmdStr(cmds[i]), err)}}, "", true
			}
			results = append(results, out[0])
		}
	}
	var sb strings.Builder
	for i, cmd := range cmds {
		before := len(m.KV)
		v, cr := m.Apply(entries[i].Index, cmd)
		want := fsmx.ExpectStr(v, cr)
		got := fsmx.NormalizeObserved(results[i])
		if got != want {
			vs = append(vs, viol{"result-mismatch/" + cmdKind(cmd), fmt.Sprintf("entry %d %s: got %s want %s", i, fsmx.CmdStr(cmd), got, want)})
		}
		if results[i].Index != entries[i].Index {
			vs = append(vs, viol{"result-index-mismatch", fmt.Sprintf("entry %d index %d want %d", i, results[i].Index, entries[i].Index)})
		}
		sb.WriteString(got)
		if len(cr.Responses) > 0 || before != len(m.KV) {
			nontrivial = true
		}
	}
	pv, obs := readProbes(inst, m, probeBounds, probeBounds[:3], 4)
	vs = append(vs, pv...)
	sb.WriteString(obs)
	// the table is the same map once the memtable has been flushed to a file (tombstones meet the
	// versions they shadow) and after a clean restart
	if c.Batched {
		return vs, sb.String(), nontrivial // the flushed / restarted views are probed in the one-entry-per-call variant
	}
	if err := inst.Sync(); err != nil {
		return append(vs, viol{"sync-error", err.Error()}), sb.String(), nontrivial
	}
	pv, _ = readProbes(inst, m, probeBounds, probeBounds[:3], 1) // full form only: the other forms read the same iterator
	for _, v := range pv {
		vs = append(vs, viol{"after-flush/" + v.sig, v.detail})
	}
	closed = true
	if err := inst.Close(); err != nil {
		return append(vs, viol{"close-error", err.Error()}), sb.String(), nontrivial
	}
	inst2, idx2, err := env.Open("t", 10001, fsm.RecoveryTypeSnapshot)
	if err != nil {
		return append(vs, viol{"reopen-error", err.Error()}), sb.String(), nontrivial
	}
	defer inst2.Close()
	if idx2 != m.Applied {
		vs = append(vs, viol{"after-reopen/applied-index-mismatch", fmt.Sprintf("open returned %d, model %d", idx2, m.Applied)})
	}
	pv, _ = readProbes(inst2, m, probeBounds, probeBounds[:3], 1)
	for _, v := range pv {
		vs = append(vs, viol{"after-reopen/" + v.sig, v.detail})
	}
	return vs, sb.String(), nontrivial
}

// Wide alphabet.
func rep(b byte, n int) string { return strings.Repeat(string([]byte{b}), n) }

var Kwide = []string{"\x00", "\x00\x00", "a", "a\x00", "a\xff", "ab", "b", "\xfe", "\xff", "\xff\xff",
	rep(0xff, 1019), rep(0xff, 1020), rep(0xff, 1024), rep(0x00, 1024)}

func wideContent(i int) map[string]string {
	m := map[string]string{}
	for j, k := range Kwide {
		switch i {
		case 0:
			m[k] = fmt.Sprintf("v%d", j)
		case 1:
			if j%2 == 0 {
				m[k] = fmt.Sprintf("v%d", j)
			}
		case 2:
			if k == "\x00" || k == rep(0xff, 1024) || k == rep(0x00, 1024) || k == rep(0xff, 1019) {
				m[k] = ""
			}
		}
	}
	return m
}

func wideBounds() [][]byte {
	var out [][]byte
	for _, k := range Kwide {
		out = append(out, []byte(k))
	}
	return out // Kwide[0] is "\x00" = the wildcard when used as range_end
}

func RunWide(c Case) (vs []viol, outcome string, nontrivial bool) {
	env := fsmx.NewEnv()
	inst, _, err := env.Open("t", 10001, fsm.RecoveryTypeSnapshot)
	if err != nil {
		return []viol{{"open-error", err.Error()}}, "", false
	}
	defer inst.Close()
	m := refkv.New()
	content := wideContent(c.Content)
	pb := &regattapb.Command{Table: Table, Type: regattapb.Command_PUT_BATCH}
	for _, k := range Kwide {
		if v, ok := content[k]; ok {
			pb.Batch = append(pb.Batch, &regattapb.KeyValue{Key: []byte(k), Value: []byte(v)})
		}
	}
	if _, err := inst.Update([]sm.Entry{fsmx.Entry(1, pb)}); err != nil {
		return []viol{{"update-error/wide-fill/" + errSig(err), err.Error()}}, "", true
	}
	m.Apply(1, fsmx.Wire(pb))
	bounds := wideBounds()
	del := Del(string(bounds[c.Lo]), bounds[c.Hi], c.Flags&1 != 0, c.Flags&2 != 0)
	out, err := inst.Update([]sm.Entry{fsmx.Entry(2, del)})
	if err != nil {
		return []viol{{"update-error/" + cmdKind(del) + "/" + errSig(err), fmt.Sprintf("%s: %v", fsmx.CmdStr(del), err)}}, "", true
	}
	before := len(m.KV)
	v, cr := m.Apply(2, fsmx.Wire(del))
	want, got := fsmx.ExpectStr(v, cr), fsmx.NormalizeObserved(out[0])
	if got != want {
		vs = append(vs, viol{"result-mismatch/wide/" + cmdKind(del), fmt.Sprintf("%s: got %s want %s", fsmx.CmdStr(del), got, want)})
	}
	pv, obs := readProbes(inst, m, bounds, nil, 3)
	vs = append(vs, pv...)
	return vs, got + obs, before != len(m.KV) || len(m.KV) > 0
}

func describe(alpha []*regattapb.Command, seq []int) []string {
	var d []string
	for _, i := range seq {
		d = append(d, fsmx.CmdStr(alpha[i]))
	}
	return d
}

func Run(r *evid.Run) {
	alpha := Alphabet()
	depth := 3
	if r.Thorough() {
		depth = 4
	}
	r.Check = "c01"
	r.Rule(fmt.Sprintf("(a) every command sequence of length 0..%d over a %d-command alphabet on keys {a,ab,b} (prefix-related) and values {'',1,2}, each applied one-entry-per-call and all-in-one-call on a fresh real FSM, every result and 67 probe reads + both indices compared with a sorted-map model, the full-form probes repeated after a memtable flush (Sync) and after close + reopen against the same model; (b) 3 contents over a 14-key adversarial alphabet x every range delete over all bound pairs x 4 flag combinations followed by every range read over all bound pairs in 3 forms. (c) for every pair of key lengths 1..20 x 2 orders: two plain puts followed, in the SAME apply call, by put+prev, transaction with range predicate and reads, counted range and point deletes (all served from the call's pending writes) and a second call, every result against the model. A case is non-trivial when a command changed the model state or returned a response; distinct = distinct (results, probe answers) renderings", depth, len(alpha)))
	total := par.SeqCount(len(alpha), depth)
	r.Extra("alphabet", describe(alpha, seqAll(len(alpha))))
	done := par.For(total*2, r.Expired, func(i int64) {
		c := Case{Kind: "seq", Seq: par.SeqAt(len(alpha), depth, i/2), Batched: i%2 == 1}
		vs, outcome, nt := RunSeq(alpha, c)
		r.Outcome(outcome, nt)
		if len(vs) > 0 {
			c.Desc = describe(alpha, c.Seq)
			for _, v := range vs {
				r.Violate(v.sig, v.detail, c)
			}
		}
		if i == total-1 {
			c.Desc = describe(alpha, c.Seq)
			r.Sample(map[string]any{"case": c, "outcome": outcome})
		}
	})
	if done < total*2 {
		r.Cap(fmt.Sprintf("deadline: %d of %d sequence cases", done, total*2))
	}
	r.Extra("seq_cases", done)
	// (b) wide.
	nb := len(Kwide)
	wideTotal := int64(3 * nb * nb * 4)
	wdone := par.For(wideTotal, r.Expired, func(i int64) {
		c := Case{Kind: "wide", Content: int(i % 3), Lo: int(i / 3 % int64(nb)), Hi: int(i / 3 / int64(nb) % int64(nb)), Flags: int(i / 3 / int64(nb) / int64(nb))}
		vs, outcome, nt := RunWide(c)
		r.Outcome(outcome, nt)
		for _, v := range vs {
			r.Violate(v.sig, v.detail, c)
		}
		if i == 7 {
			r.Sample(map[string]any{"case": c})
		}
	})
	if wdone < wideTotal {
		r.Cap(fmt.Sprintf("deadline: %d of %d wide cases", wdone, wideTotal))
	}
	r.Extra("wide_cases", wdone)
	// (c) key lengths inside one apply call: reads served from the call's own pending writes (the
	// indexed batch) for every pair of key lengths
	const maxLen = 20
	ldone := par.For(int64(maxLen*maxLen*2), r.Expired, func(i int64) {
		c := Case{Kind: "lengths", Lo: int(i%maxLen) + 1, Hi: int(i/maxLen%maxLen) + 1, Flags: int(i / maxLen / maxLen)}
		vs, outcome, nt := RunLengths(c)
		r.Outcome(outcome, nt)
		for _, v := range vs {
			r.Violate(v.sig, v.detail, c)
		}
	})
	r.Extra("length_pair_cases", ldone)
	r.Assume("the state machine sees commands in the shape the wire codec produces (commands are marshalled and unmarshalled before apply)")
	r.Assume("results without responses (DUMMY, empty SEQUENCE) carry no payload; their revision is decided under C10")
}

// RunLengths: keys x^L1 and y^L2 (x<y or x>y by Flags) written by plain puts and then read, counted,
// range-deleted and compared by later commands of the SAME apply call (and again after it), for the
// pair of lengths (c.Lo, c.Hi): the pending writes of a call must be the same sorted map as the
// committed table whatever the key lengths.
func RunLengths(c Case) (vs []viol, outcome string, nontrivial bool) {
	env := fsmx.NewEnv()
	inst, _, err := env.Open("t", 10001, fsm.RecoveryTypeSnapshot)
	if err != nil {
		return []viol{{"open-error", err.Error()}}, "", false
	}
	defer inst.Close()
	m := refkv.New()
	x, y := "a", "b"
	if c.Flags == 1 {
		x, y = "b", "a"
	}
	k1, k2 := strings.Repeat(x, c.Lo), strings.Repeat(y, c.Hi)
	lo, hi := k1, k2
	if lo > hi {
		lo, hi = hi, lo
	}
	calls := [][]*regattapb.Command{
		{ // one call: two plain puts, then commands that read the pending writes
			Put(k1, "1", false), Put(k2, "2", false),
			Put(k1, "3", true),
			Txn(Cmps(Exists(lo, wild)), Ops(OpGet(lo, wild, 0, false, false), OpGet(hi, nil, 0, false, false), OpGet("\x00", B(hi), 0, false, false)), Ops(OpPut("wrong-branch", "x", false))),
			Del(lo, B(hi), true, true),
			Del(hi, nil, true, true),
			Put(k2, "4", true),
			Del("\x00", wild, true, true),
		},
		{Put(k2, "5", false), Put(k1, "6", false), Del(hi, wild, false, true), Txn(Cmps(Exists(lo, nil)), Ops(OpDel(lo, wild, true, true)), Ops(OpPut("wrong-branch", "x", false)))},
	}
	idx := uint64(0)
	var sb strings.Builder
	for ci, call := range calls {
		var ents []sm.Entry
		for _, cmd := range call {
			idx++
			ents = append(ents, fsmx.Entry(idx, cmd))
		}
		out, err := inst.Update(ents)
		if err != nil {
			return append(vs, viol{"lengths/update-error", err.Error()}), "", true
		}
		for i, cmd := range call {
			w := fsmx.Wire(cmd)
			v, cr := m.Apply(ents[i].Index, w)
			if got, want := fsmx.NormalizeObserved(out[i]), fsmx.ExpectStr(v, cr); got != want {
				vs = append(vs, viol{"lengths/result-mismatch-inside-apply-call/" + cmdKind(w), fmt.Sprintf("key lengths %d and %d (%s first), call %d command %d %s: got %s want %s", c.Lo, c.Hi, x, ci, i, fsmx.CmdStr(w), got, want)})
			}
			sb.WriteString(fsmx.NormalizeObserved(out[i]))
		}
	}
	return vs, fmt.Sprintf("L%d/%d/%d", min(c.Lo, 9), min(c.Hi, 9), c.Flags) + fmt.Sprint(len(vs) == 0), true
}

// RunLengthsExt is RunLengths for other checks (C02 takes the transaction results).
func RunLengthsExt(c Case) (sigs, details []string) {
	vs, _, _ := RunLengths(c)
	for _, v := range vs {
		sigs = append(sigs, v.sig)
		details = append(details, v.detail)
	}
	return
}

func seqAll(n int) []int {
	out := make([]int, n)
	for i := range out {
		out[i] = i
	}
	return out
}

// Replay re-executes a stored case.
func Replay(raw json.RawMessage) (string, bool) {
	var c Case
	if err := json.Unmarshal(raw, &c); err != nil {
		return err.Error(), false
	}
	var vs []viol
	if c.Kind == "wide" {
		vs, _, _ = RunWide(c)
	} else if c.Kind == "lengths" {
		vs, _, _ = RunLengths(c)
	} else {
		vs, _, _ = RunSeq(Alphabet(), c)
	}
	var sb strings.Builder
	for _, v := range vs {
		fmt.Fprintf(&sb, "%s: %s\n", v.sig, v.detail)
	}
	return sb.String(), len(vs) == 0
}
