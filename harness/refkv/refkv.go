// Package refkv is the reference model (E1): a plain sorted map from non-empty byte-string keys to
// byte-string values plus the two bookkeeping indices. It is deliberately boring. It defines what
// every command must answer and what every read must return; implementation-only failures (I/O
// errors) are not part of it.
package refkv

import (
	"bytes"
	"sort"

	"github.com/jamf/regatta/regattapb"
)

var Wildcard = []byte{0}

// Model is the sorted map plus bookkeeping.
type Model struct {
	KV      map[string][]byte
	Applied uint64
	Leader  uint64
}

func New() *Model { return &Model{KV: map[string][]byte{}} }

func (m *Model) Clone() *Model {
	c := &Model{KV: make(map[string][]byte, len(m.KV)), Applied: m.Applied, Leader: m.Leader}
	for k, v := range m.KV {
		c.KV[k] = append([]byte(nil), v...)
	}
	return c
}

// Keys returns all keys in ascending byte order.
func (m *Model) Keys() []string {
	ks := make([]string, 0, len(m.KV))
	for k := range m.KV {
		ks = append(ks, k)
	}
	sort.Strings(ks)
	return ks
}

// InRange tells whether k lies in [lo, hi) where hi == "\x00" means unbounded above.
func InRange(k, lo, hi []byte) bool {
	if bytes.Compare(k, lo) < 0 {
		return false
	}
	if bytes.Equal(hi, Wildcard) {
		return true
	}
	return bytes.Compare(k, hi) < 0
}

func (m *Model) matching(lo, hi []byte) []string {
	var out []string
	for _, k := range m.Keys() {
		if InRange([]byte(k), lo, hi) {
			out = append(out, k)
		}
	}
	return out
}

// Range answers a read. rangeEnd == nil means single key.
func (m *Model) Range(req *regattapb.RequestOp_Range) *regattapb.ResponseOp_Range {
	resp := &regattapb.ResponseOp_Range{}
	if req.RangeEnd == nil {
		v, ok := m.KV[string(req.Key)]
		if !ok {
			return resp
		}
		resp.Count = 1
		if !req.CountOnly {
			kv := &regattapb.KeyValue{Key: []byte(string(req.Key))}
			if !req.KeysOnly {
				kv.Value = append([]byte(nil), v...)
			}
			resp.Kvs = append(resp.Kvs, kv)
		}
		return resp
	}
	keys := m.matching(req.Key, req.RangeEnd)
	n := len(keys)
	if req.Limit > 0 && int64(n) > req.Limit {
		n = int(req.Limit)
		resp.More = true
	}
	resp.Count = int64(n)
	if req.CountOnly {
		return resp
	}
	for _, k := range keys[:n] {
		kv := &regattapb.KeyValue{Key: []byte(k)}
		if !req.KeysOnly {
			kv.Value = append([]byte(nil), m.KV[k]...)
		}
		resp.Kvs = append(resp.Kvs, kv)
	}
	return resp
}

func (m *Model) put(op *regattapb.RequestOp_Put) *regattapb.ResponseOp_Put {
	resp := &regattapb.ResponseOp_Put{}
	if op.PrevKv {
		if v, ok := m.KV[string(op.Key)]; ok {
			resp.PrevKv = &regattapb.KeyValue{Key: []byte(string(op.Key)), Value: append([]byte(nil), v...)}
		}
	}
	m.KV[string(op.Key)] = append([]byte(nil), op.Value...)
	return resp
}

func (m *Model) del(op *regattapb.RequestOp_DeleteRange) *regattapb.ResponseOp_DeleteRange {
	resp := &regattapb.ResponseOp_DeleteRange{}
	var keys []string
	if op.RangeEnd == nil {
		if _, ok := m.KV[string(op.Key)]; ok {
			keys = []string{string(op.Key)}
		}
	} else {
		keys = m.matching(op.Key, op.RangeEnd)
	}
	if op.PrevKv || op.Count {
		resp.Deleted = int64(len(keys))
	}
	if op.PrevKv {
		for _, k := range keys {
			resp.PrevKvs = append(resp.PrevKvs, &regattapb.KeyValue{Key: []byte(k), Value: append([]byte(nil), m.KV[k]...)})
		}
	}
	for _, k := range keys {
		delete(m.KV, k)
	}
	return resp
}

// CompareHolds evaluates one predicate against the current state (C02 semantics).
func (m *Model) CompareHolds(c *regattapb.Compare) bool {
	single := func(v []byte) bool {
		if c.Target != regattapb.Compare_VALUE || c.TargetUnion == nil {
			return true // existence only
		}
		want := c.GetValue()
		switch c.Result {
		case regattapb.Compare_EQUAL:
			return bytes.Equal(v, want)
		case regattapb.Compare_NOT_EQUAL:
			return !bytes.Equal(v, want)
		case regattapb.Compare_GREATER:
			return bytes.Compare(v, want) > 0
		case regattapb.Compare_LESS:
			return bytes.Compare(v, want) < 0
		}
		return true
	}
	if c.RangeEnd == nil {
		v, ok := m.KV[string(c.Key)]
		return ok && single(v)
	}
	keys := m.matching(c.Key, c.RangeEnd)
	if len(keys) == 0 {
		return false
	}
	for _, k := range keys {
		if !single(m.KV[k]) {
			return false
		}
	}
	return true
}

// Txn evaluates predicates, executes one branch in order and returns (succeeded, responses).
func (m *Model) Txn(compare []*regattapb.Compare, success, failure []*regattapb.RequestOp) (bool, []*regattapb.ResponseOp) {
	ok := true
	for _, c := range compare {
		if !m.CompareHolds(c) {
			ok = false
			break
		}
	}
	ops := failure
	if ok {
		ops = success
	}
	var out []*regattapb.ResponseOp
	for _, op := range ops {
		switch o := op.Request.(type) {
		case *regattapb.RequestOp_RequestRange:
			out = append(out, &regattapb.ResponseOp{Response: &regattapb.ResponseOp_ResponseRange{ResponseRange: m.Range(o.RequestRange)}})
		case *regattapb.RequestOp_RequestPut:
			out = append(out, &regattapb.ResponseOp{Response: &regattapb.ResponseOp_ResponsePut{ResponsePut: m.put(o.RequestPut)}})
		case *regattapb.RequestOp_RequestDeleteRange:
			out = append(out, &regattapb.ResponseOp{Response: &regattapb.ResponseOp_ResponseDeleteRange{ResponseDeleteRange: m.del(o.RequestDeleteRange)}})
		}
	}
	return ok, out
}

func (m *Model) exec(cmd *regattapb.Command) (uint64, []*regattapb.ResponseOp) {
	wrapPut := func(r *regattapb.ResponseOp_Put) *regattapb.ResponseOp {
		return &regattapb.ResponseOp{Response: &regattapb.ResponseOp_ResponsePut{ResponsePut: r}}
	}
	wrapDel := func(r *regattapb.ResponseOp_DeleteRange) *regattapb.ResponseOp {
		return &regattapb.ResponseOp{Response: &regattapb.ResponseOp_ResponseDeleteRange{ResponseDeleteRange: r}}
	}
	switch cmd.Type {
	case regattapb.Command_PUT:
		return 1, []*regattapb.ResponseOp{wrapPut(m.put(&regattapb.RequestOp_Put{Key: cmd.Kv.GetKey(), Value: cmd.Kv.GetValue(), PrevKv: cmd.PrevKvs}))}
	case regattapb.Command_DELETE:
		return 1, []*regattapb.ResponseOp{wrapDel(m.del(&regattapb.RequestOp_DeleteRange{Key: cmd.Kv.GetKey(), RangeEnd: cmd.RangeEnd, PrevKv: cmd.PrevKvs, Count: cmd.Count}))}
	case regattapb.Command_PUT_BATCH:
		var out []*regattapb.ResponseOp
		for _, kv := range cmd.Batch {
			out = append(out, wrapPut(m.put(&regattapb.RequestOp_Put{Key: kv.Key, Value: kv.Value})))
		}
		return 1, out
	case regattapb.Command_DELETE_BATCH:
		var out []*regattapb.ResponseOp
		for _, kv := range cmd.Batch {
			out = append(out, wrapDel(m.del(&regattapb.RequestOp_DeleteRange{Key: kv.Key})))
		}
		return 1, out
	case regattapb.Command_TXN:
		ok, out := m.Txn(cmd.Txn.GetCompare(), cmd.Txn.GetSuccess(), cmd.Txn.GetFailure())
		if ok {
			return 1, out
		}
		return 0, out
	case regattapb.Command_SEQUENCE:
		var out []*regattapb.ResponseOp
		for _, c := range cmd.Sequence {
			_, r := m.exec(c)
			out = append(out, r...)
		}
		return 1, out
	case regattapb.Command_DUMMY:
		return 1, nil
	}
	panic("refkv: unknown command type")
}

// Apply applies one committed log entry. The command must be in the shape the wire produces
// (see fsmx.Wire). It returns the expected Result.Value and CommandResult.
func (m *Model) Apply(index uint64, cmd *regattapb.Command) (uint64, *regattapb.CommandResult) {
	v, resp := m.exec(cmd)
	m.Applied = index
	if cmd.LeaderIndex != nil {
		m.Leader = *cmd.LeaderIndex
	}
	return v, &regattapb.CommandResult{Revision: index, Responses: resp}
}
