package fsmx

import (
	"runtime"
	"testing"

	"github.com/jamf/regatta/storage/table/fsm"
	sm "github.com/lni/dragonboat/v4/statemachine"
	"verif/harness/cmdx"
)

// TestLeak guards the reflection in healthCloser (see fsmx.go): long explorations open millions of
// instances and must not accumulate goroutines.
func TestLeak(t *testing.T) {
	for _, upd := range []bool{false, true} {
		before := runtime.NumGoroutine()
		for i := 0; i < 300; i++ {
			env := NewEnv()
			inst, _, err := env.Open("t", 10001, fsm.RecoveryTypeSnapshot)
			if err != nil {
				t.Fatal(err)
			}
			if upd {
				_, _ = inst.Update([]sm.Entry{Entry(1, cmdx.Put("a", "b", false))})
			}
			inst.Close()
		}
		runtime.GC()
		runtime.GC()
		var ms runtime.MemStats
		runtime.ReadMemStats(&ms)
		t.Logf("update=%v goroutines before=%d after=%d heap=%dKB", upd, before, runtime.NumGoroutine(), ms.HeapInuse>>10)
		if runtime.NumGoroutine() > before+50 {
			t.Fatalf("fsmx.Inst.Close no longer stops the disk-health ticker: %d goroutines left behind by 300 open/close cycles", runtime.NumGoroutine()-before)
		}
	}
}
