// Package fsmx drives real fsm.FSM instances (E2): construction on a strict in-memory file system,
// apply calls under a chosen batching, lookups, sync, close/reopen, snapshot save/recover, and a
// counting file-system wrapper with an armed crash point.
package fsmx

import (
	"bytes"
	"errors"
	"fmt"
	"github.com/cockroachdb/pebble"
	"hash/fnv"
	"io"
	"os"
	"reflect"
	"strings"
	"sync"
	"sync/atomic"
	"unsafe"

	"github.com/cockroachdb/pebble/vfs"
	"github.com/jamf/regatta/regattapb"
	"github.com/jamf/regatta/storage/table/fsm"
	"github.com/jamf/regatta/util/iter"
	sm "github.com/lni/dragonboat/v4/statemachine"
)

const BaseDir = "/data"

// Wire returns the command in the shape the state machine sees it: marshalled and unmarshalled.
func Wire(c *regattapb.Command) *regattapb.Command {
	b, err := c.MarshalVT()
	if err != nil {
		panic(err)
	}
	out := &regattapb.Command{}
	if err := out.UnmarshalVT(b); err != nil {
		panic(err)
	}
	return out
}

// Entry builds a log entry for a command.
func Entry(index uint64, c *regattapb.Command) sm.Entry {
	b, err := c.MarshalVT()
	if err != nil {
		panic(err)
	}
	return sm.Entry{Index: index, Cmd: b}
}

// Env is one "disk": a strict MemFS behind the counting wrapper.
type Env struct {
	Mem *vfs.MemFS
	FS  *CountFS
}

// NewEnv creates a disk whose operator-provided base directory exists durably and nothing below.
func NewEnv() *Env {
	mem := vfs.NewStrictMem()
	if err := mem.MkdirAll(BaseDir, 0o755); err != nil {
		panic(err)
	}
	for _, d := range []string{"/", BaseDir} {
		f, err := mem.OpenDir(d)
		if err != nil {
			panic(err)
		}
		_ = f.Sync()
		_ = f.Close()
	}
	e := &Env{Mem: mem, FS: &CountFS{FS: mem, mem: mem, armAt: -1}}
	// NB: regatta's pebble.WithFS drops the closer of the disk-health wrapper it puts around the file
	// system, so every opened DB leaves a ticker goroutine behind that keeps the wrapper - and through
	// it this disk - reachable for ever; Inst.Close stops that ticker (healthCloser), otherwise
	// millions of executions each with its own disk exhaust memory.
	return e
}

// Crash drops everything that was not made durable.
func (e *Env) Crash() {
	e.Mem.SetIgnoreSyncs(false)
	e.Mem.ResetToSyncedState()
	e.FS.Disarm()
}

// Inst is a live FSM instance.
type Inst struct {
	F         *fsm.FSM
	Env       *Env
	Notifs    []uint64     // values passed to the applied-index callback
	OnApplied func(uint64) // optional forward of the applied-index callback
	mu        sync.Mutex
}

// Open constructs and opens an FSM for (table, shard) on this disk.
func (e *Env) Open(table string, shard uint64, srt fsm.SnapshotRecoveryType) (inst *Inst, idx uint64, err error) {
	return e.OpenWith(table, shard, srt, nil)
}

// OpenWith is Open with a forward of the applied-index callback installed before the FSM is opened.
func (e *Env) OpenWith(table string, shard uint64, srt fsm.SnapshotRecoveryType, onApplied func(uint64)) (inst *Inst, idx uint64, err error) {
	inst = &Inst{Env: e, OnApplied: onApplied}
	f := fsm.New(table, BaseDir, e.FS, nil, nil, srt, func(a uint64) {
		inst.mu.Lock()
		inst.Notifs = append(inst.Notifs, a)
		cb := inst.OnApplied
		inst.mu.Unlock()
		if cb != nil {
			cb(a)
		}
	})(shard, 1).(*fsm.FSM)
	inst.F = f
	defer func() {
		if r := recover(); r != nil {
			err = fmt.Errorf("PANIC in Open: %v", r)
		}
	}()
	idx, err = f.Open(nil)
	return inst, idx, err
}

// Update applies one apply call; a panic is turned into an error starting with "PANIC".
func (i *Inst) Update(entries []sm.Entry) (out []sm.Entry, err error) {
	defer func() {
		if r := recover(); r != nil {
			err = fmt.Errorf("PANIC in Update: %v", r)
		}
	}()
	// dragonboat hands the FSM its own slice; copy so callers can reuse their entries.
	cp := make([]sm.Entry, len(entries))
	for k, e := range entries {
		cp[k] = sm.Entry{Index: e.Index, Cmd: append([]byte(nil), e.Cmd...)}
	}
	return i.F.Update(cp)
}

func (i *Inst) Lookup(q any) (res any, err error) {
	defer func() {
		if r := recover(); r != nil {
			err = fmt.Errorf("PANIC in Lookup: %v", r)
		}
	}()
	return i.F.Lookup(q)
}

func (i *Inst) Range(req *regattapb.RequestOp_Range) (*regattapb.ResponseOp_Range, error) {
	r, err := i.Lookup(req)
	if err != nil {
		return nil, err
	}
	return r.(*regattapb.ResponseOp_Range), nil
}

// Iterate runs an IteratorRequest and collects all chunks.
func (i *Inst) Iterate(req *regattapb.RequestOp_Range) (chunks []*regattapb.ResponseOp_Range, err error) {
	defer func() {
		if r := recover(); r != nil {
			err = fmt.Errorf("PANIC in iterate: %v", r)
		}
	}()
	r, err := i.F.Lookup(fsm.IteratorRequest{RangeOp: req})
	if err != nil {
		return nil, err
	}
	seq := r.(iter.Seq[*regattapb.ResponseOp_Range])
	seq(func(c *regattapb.ResponseOp_Range) bool {
		chunks = append(chunks, c)
		return true
	})
	return chunks, nil
}

func (i *Inst) LocalIndex() (uint64, error) {
	r, err := i.Lookup(fsm.LocalIndexRequest{})
	if err != nil {
		return 0, err
	}
	return r.(*fsm.IndexResponse).Index, nil
}

func (i *Inst) LeaderIndex() (uint64, error) {
	r, err := i.Lookup(fsm.LeaderIndexRequest{})
	if err != nil {
		return 0, err
	}
	return r.(*fsm.IndexResponse).Index, nil
}

// All reads the whole user-visible content with one unbounded range read.
func (i *Inst) All() ([]*regattapb.KeyValue, error) {
	chunks, err := i.Iterate(&regattapb.RequestOp_Range{Key: []byte{0}, RangeEnd: []byte{0}})
	if err != nil {
		return nil, err
	}
	var out []*regattapb.KeyValue
	for _, c := range chunks {
		out = append(out, c.Kvs...)
	}
	return out, nil
}

func (i *Inst) Sync() (err error) {
	defer func() {
		if r := recover(); r != nil {
			err = fmt.Errorf("PANIC in Sync: %v", r)
		}
	}()
	return i.F.Sync()
}

func (i *Inst) Close() (err error) {
	defer func() {
		if r := recover(); r != nil {
			err = fmt.Errorf("PANIC in Close: %v", r)
		}
	}()
	c := healthCloser(i.F)
	err = i.F.Close()
	if c != nil {
		_ = c.Close() // stops the ticker goroutine regatta's pebble.WithFS leaves behind (see NewEnv)
	}
	return err
}

// healthCloser digs the disk-health wrapper (an io.Closer) out of the FSM's current pebble DB:
// FSM.pebble (atomic.Pointer[pebble.DB]) -> DB.opts (*pebble.Options) -> Options.FS. Reading only;
// if the layout ever differs the result is nil and the goroutine merely leaks as it does in production.
func healthCloser(f *fsm.FSM) (c io.Closer) {
	defer func() {
		if recover() != nil {
			c = nil
		}
	}()
	pf := reflect.ValueOf(f).Elem().FieldByName("pebble")
	if !pf.IsValid() {
		return nil
	}
	pv := pf.FieldByName("v")
	if !pv.IsValid() || pv.Kind() != reflect.UnsafePointer {
		return nil
	}
	db := (*pebble.DB)(*(*unsafe.Pointer)(unsafe.Pointer(pv.UnsafeAddr())))
	if db == nil {
		return nil
	}
	of := reflect.ValueOf(db).Elem().FieldByName("opts")
	if !of.IsValid() || of.Kind() != reflect.Pointer {
		return nil
	}
	opts := *(**pebble.Options)(unsafe.Pointer(of.UnsafeAddr()))
	if opts == nil {
		return nil
	}
	c, _ = opts.FS.(io.Closer)
	return c
}

// SaveSnapshot runs PrepareSnapshot + SaveSnapshot and returns the bytes. between is called after
// prepare and before save (may be nil).
func (i *Inst) SaveSnapshot(between func(), w io.Writer, stopc <-chan struct{}) (err error) {
	defer func() {
		if r := recover(); r != nil {
			err = fmt.Errorf("PANIC in snapshot save: %v", r)
		}
	}()
	ctx, err := i.F.PrepareSnapshot()
	if err != nil {
		return err
	}
	if between != nil {
		between()
	}
	return i.F.SaveSnapshot(ctx, w, stopc)
}

func (i *Inst) Recover(r io.Reader, stopc <-chan struct{}) (err error) {
	defer func() {
		if rr := recover(); rr != nil {
			if fmt.Sprint(rr) == "sched: execution aborted" {
				panic(rr) // the explorer's way of ending a thread: not the code's panic
			}
			err = fmt.Errorf("PANIC in snapshot recover: %v", rr)
		}
	}()
	// an install swaps the DB and closes the old one: its disk-health ticker is stopped here, the
	// way Close does it for the last one (see healthCloser)
	oldDB, oldCloser := dbOf(i.F), healthCloser(i.F)
	defer func() {
		if oldCloser != nil && dbOf(i.F) != oldDB {
			_ = oldCloser.Close()
		}
	}()
	return i.F.RecoverFromSnapshot(r, stopc)
}

// dbOf reads the FSM's current pebble DB pointer (nil if the layout differs).
func dbOf(f *fsm.FSM) (p unsafe.Pointer) {
	defer func() {
		if recover() != nil {
			p = nil
		}
	}()
	pf := reflect.ValueOf(f).Elem().FieldByName("pebble")
	if !pf.IsValid() {
		return nil
	}
	pv := pf.FieldByName("v")
	if !pv.IsValid() || pv.Kind() != reflect.UnsafePointer {
		return nil
	}
	return *(*unsafe.Pointer)(unsafe.Pointer(pv.UnsafeAddr()))
}

// ---------------------------------------------------------------------------------------------
// Counting FS.

// Op is one mutating file-system operation.
type Op struct {
	Kind string
	Path string
}

// CountFS numbers every mutating operation (create, write, sync, rename, remove, link, mkdir,
// dir-sync) and can flip the underlying strict MemFS to "ignore syncs" when operation number armAt
// is about to execute, which freezes the durable state at that boundary.
type CountFS struct {
	vfs.FS
	mem   *vfs.MemFS
	mu    sync.Mutex
	n     int
	armAt int
	fired bool
	// KeepCache: the crash at armAt is a crash of the PROCESS, not of the machine - everything the
	// file system has been told so far survives (as if synced), only what comes later is lost
	KeepCache bool
	Log       []Op
	Keep      bool // record Log
	calls     atomic.Int64
	// FailOp > 0: the operation numbered FailOp-1 fails once with ErrInjected instead of reaching the
	// file system (an I/O error, not a crash: the caller sees it and unwinds)
	FailOp int
	// FailPanics: the failing operation panics instead (the code under test does not get to handle
	// anything: the closest a harness gets to the process dying at that point while the machine and
	// everything handed to the file system stay as they are)
	FailPanics bool
}

// ErrInjected is the error of an operation failed through CountFS.FailOp.
var ErrInjected = errors.New("verif: injected I/O error")

func (c *CountFS) Arm(k int) {
	c.mu.Lock()
	c.armAt = k
	c.fired = false
	c.mu.Unlock()
}

func (c *CountFS) Disarm() {
	c.mu.Lock()
	c.armAt = -1
	c.fired = false
	c.mu.Unlock()
}

func (c *CountFS) Reset() {
	c.mu.Lock()
	c.n = 0
	c.Log = nil
	c.mu.Unlock()
}

func (c *CountFS) Count() int {
	c.mu.Lock()
	defer c.mu.Unlock()
	return c.n
}

func (c *CountFS) Fired() bool {
	c.mu.Lock()
	defer c.mu.Unlock()
	return c.fired
}

// syncAll makes the current content of the whole tree durable (files and directory entries).
func syncAll(fs *vfs.MemFS, dir string) {
	names, err := fs.List(dir)
	if err != nil {
		return
	}
	for _, n := range names {
		p := fs.PathJoin(dir, n)
		st, err := fs.Stat(p)
		if err != nil {
			continue
		}
		if st.IsDir() {
			syncAll(fs, p)
			continue
		}
		if f, err := fs.Open(p); err == nil {
			_ = f.Sync()
			_ = f.Close()
		}
	}
	if d, err := fs.OpenDir(dir); err == nil {
		_ = d.Sync()
		_ = d.Close()
	}
}

// Canon replaces random directory names by a placeholder.
func Canon(p string) string {
	parts := strings.Split(p, "/")
	for i, s := range parts {
		if j := strings.IndexByte(s, '_'); j > 0 && len(s) > 20 && allDigits(s[:j]) && allDigits(s[j+1:]) {
			parts[i] = "<rnd>"
		}
	}
	return strings.Join(parts, "/")
}

func allDigits(s string) bool {
	if s == "" {
		return false
	}
	for _, r := range s {
		if r < '0' || r > '9' {
			return false
		}
	}
	return true
}

func (c *CountFS) op(kind, path string) error {
	c.mu.Lock()
	if c.FailOp > 0 && c.n == c.FailOp-1 {
		c.FailOp = 0
		c.n++
		if c.Keep {
			c.Log = append(c.Log, Op{kind + "(failed)", Canon(path)})
		}
		c.mu.Unlock()
		if c.FailPanics {
			panic(ErrInjected)
		}
		return ErrInjected
	}
	if c.armAt >= 0 && c.n == c.armAt && !c.fired {
		c.fired = true
		if c.KeepCache {
			syncAll(c.mem, "/")
		}
		c.mem.SetIgnoreSyncs(true)
	}
	c.n++
	if c.Keep {
		c.Log = append(c.Log, Op{kind, Canon(path)})
	}
	c.mu.Unlock()
	return nil
}

func (c *CountFS) Create(name string) (vfs.File, error) {
	if err := c.op("create", name); err != nil {
		return nil, err
	}
	f, err := c.FS.Create(name)
	if err != nil {
		return nil, err
	}
	return &countFile{File: f, c: c, path: name}, nil
}

func (c *CountFS) Link(o, n string) error {
	if err := c.op("link", n); err != nil {
		return err
	}
	return c.FS.Link(o, n)
}

func (c *CountFS) Open(name string, opts ...vfs.OpenOption) (vfs.File, error) {
	f, err := c.FS.Open(name, opts...)
	if err != nil {
		return nil, err
	}
	return &countFile{File: f, c: c, path: name}, nil
}

func (c *CountFS) OpenDir(name string) (vfs.File, error) {
	f, err := c.FS.OpenDir(name)
	if err != nil {
		return nil, err
	}
	return &countFile{File: f, c: c, path: name, dir: true}, nil
}

func (c *CountFS) Remove(name string) error {
	if err := c.op("remove", name); err != nil {
		return err
	}
	return c.FS.Remove(name)
}
func (c *CountFS) RemoveAll(name string) error {
	if err := c.op("removeall", name); err != nil {
		return err
	}
	return c.FS.RemoveAll(name)
}
func (c *CountFS) Rename(o, n string) error {
	if err := c.op("rename", n); err != nil {
		return err
	}
	return c.FS.Rename(o, n)
}
func (c *CountFS) ReuseForWrite(o, n string) (vfs.File, error) {
	if err := c.op("reuse", n); err != nil {
		return nil, err
	}
	f, err := c.FS.ReuseForWrite(o, n)
	if err != nil {
		return nil, err
	}
	return &countFile{File: f, c: c, path: n}, nil
}

func (c *CountFS) MkdirAll(dir string, perm os.FileMode) error {
	if err := c.op("mkdirall", dir); err != nil {
		return err
	}
	return c.FS.MkdirAll(dir, perm)
}

type countFile struct {
	vfs.File
	c    *CountFS
	path string
	dir  bool
}

func (f *countFile) Write(p []byte) (int, error) {
	if err := f.c.op("write", f.path); err != nil {
		return 0, err
	}
	return f.File.Write(p)
}

func (f *countFile) Sync() error {
	kind := "sync"
	if st, err := f.File.Stat(); err == nil && st.IsDir() {
		kind = "syncdir"
	}
	if err := f.c.op(kind, f.path); err != nil {
		return err
	}
	return f.File.Sync()
}

// ---------------------------------------------------------------------------------------------
// Canonical rendering (representation-only normalisation: nil vs empty).

func q(b []byte) string {
	if len(b) > 48 {
		h := fnv.New64a()
		_, _ = h.Write(b)
		return fmt.Sprintf("<%d bytes %x.. fnv=%x>", len(b), b[:4], h.Sum64())
	}
	return fmt.Sprintf("%q", b)
}

func KVs(kvs []*regattapb.KeyValue) string {
	var sb strings.Builder
	sb.WriteByte('[')
	for i, kv := range kvs {
		if i > 0 {
			sb.WriteByte(' ')
		}
		if kv == nil {
			sb.WriteString("<nil>")
			continue
		}
		sb.WriteString(q(kv.Key))
		sb.WriteByte('=')
		sb.WriteString(q(kv.Value))
	}
	sb.WriteByte(']')
	return sb.String()
}

func RangeStr(r *regattapb.ResponseOp_Range) string {
	if r == nil {
		return "<nil>"
	}
	return fmt.Sprintf("range{kvs=%s count=%d more=%v}", KVs(r.Kvs), r.Count, r.More)
}

func RespStr(r *regattapb.ResponseOp) string {
	switch o := r.GetResponse().(type) {
	case *regattapb.ResponseOp_ResponseRange:
		return RangeStr(o.ResponseRange)
	case *regattapb.ResponseOp_ResponsePut:
		if o.ResponsePut.GetPrevKv() == nil {
			return "put{}"
		}
		return "put{prev=" + KVs([]*regattapb.KeyValue{o.ResponsePut.PrevKv}) + "}"
	case *regattapb.ResponseOp_ResponseDeleteRange:
		return fmt.Sprintf("del{deleted=%d prev=%s}", o.ResponseDeleteRange.GetDeleted(), KVs(o.ResponseDeleteRange.GetPrevKvs()))
	}
	return "<empty-response>"
}

func RespsStr(rs []*regattapb.ResponseOp) string {
	var parts []string
	for _, r := range rs {
		parts = append(parts, RespStr(r))
	}
	return "(" + strings.Join(parts, ", ") + ")"
}

// ResultStr renders an apply result as observed: value, and decoded data if present.
func ResultStr(e sm.Entry) string {
	if e.Result.Data == nil {
		return fmt.Sprintf("value=%d data=none", e.Result.Value)
	}
	cr := &regattapb.CommandResult{}
	if err := cr.UnmarshalVT(e.Result.Data); err != nil {
		return fmt.Sprintf("value=%d data=UNDECODABLE(%v)", e.Result.Value, err)
	}
	return fmt.Sprintf("value=%d rev=%d %s", e.Result.Value, cr.Revision, RespsStr(cr.Responses))
}

// ExpectStr renders what the model expects in the same format. A result without responses carries
// no payload in the implementation (pinned by the repository's own tests for DUMMY), so it is
// rendered as data=none; the revision of such results is the business of C10, not of C01-C03.
func ExpectStr(value uint64, cr *regattapb.CommandResult) string {
	if len(cr.Responses) == 0 {
		return fmt.Sprintf("value=%d data=none", value)
	}
	return fmt.Sprintf("value=%d rev=%d %s", value, cr.Revision, RespsStr(cr.Responses))
}

// ObservedNoPayloadOK normalises an observed result that has a payload but no responses.
func NormalizeObserved(e sm.Entry) string {
	if e.Result.Data != nil {
		cr := &regattapb.CommandResult{}
		if err := cr.UnmarshalVT(e.Result.Data); err == nil && len(cr.Responses) == 0 {
			return fmt.Sprintf("value=%d data=none", e.Result.Value)
		}
	}
	return ResultStr(e)
}

// CmdStr renders a command compactly.
func CmdStr(c *regattapb.Command) string {
	var sb strings.Builder
	li := ""
	if c.LeaderIndex != nil {
		li = fmt.Sprintf("@L%d", *c.LeaderIndex)
	}
	switch c.Type {
	case regattapb.Command_PUT:
		fmt.Fprintf(&sb, "PUT(%s=%s", q(c.Kv.GetKey()), q(c.Kv.GetValue()))
		if c.PrevKvs {
			sb.WriteString(",prev")
		}
		sb.WriteString(")")
	case regattapb.Command_DELETE:
		fmt.Fprintf(&sb, "DEL(%s", q(c.Kv.GetKey()))
		if c.RangeEnd != nil {
			fmt.Fprintf(&sb, "..%s", q(c.RangeEnd))
		}
		if c.PrevKvs {
			sb.WriteString(",prev")
		}
		if c.Count {
			sb.WriteString(",count")
		}
		sb.WriteString(")")
	case regattapb.Command_PUT_BATCH:
		fmt.Fprintf(&sb, "PUTB%s", KVs(c.Batch))
	case regattapb.Command_DELETE_BATCH:
		fmt.Fprintf(&sb, "DELB%s", KVs(c.Batch))
	case regattapb.Command_DUMMY:
		sb.WriteString("DUMMY")
	case regattapb.Command_SEQUENCE:
		sb.WriteString("SEQ[")
		for i, s := range c.Sequence {
			if i > 0 {
				sb.WriteString("; ")
			}
			sb.WriteString(CmdStr(s))
		}
		sb.WriteString("]")
	case regattapb.Command_TXN:
		sb.WriteString("TXN{if ")
		for i, cmp := range c.Txn.GetCompare() {
			if i > 0 {
				sb.WriteString(" && ")
			}
			sb.WriteString(CompareStr(cmp))
		}
		sb.WriteString(" then ")
		sb.WriteString(OpsStr(c.Txn.GetSuccess()))
		sb.WriteString(" else ")
		sb.WriteString(OpsStr(c.Txn.GetFailure()))
		sb.WriteString("}")
	}
	return sb.String() + li
}

func CompareStr(c *regattapb.Compare) string {
	k := q(c.Key)
	if c.RangeEnd != nil {
		k += ".." + q(c.RangeEnd)
	}
	if c.TargetUnion == nil {
		return "exists(" + k + ")"
	}
	return fmt.Sprintf("%s %s %s", k, c.Result.String(), q(c.GetValue()))
}

func OpsStr(ops []*regattapb.RequestOp) string {
	var parts []string
	for _, op := range ops {
		switch o := op.Request.(type) {
		case *regattapb.RequestOp_RequestRange:
			parts = append(parts, RangeReqStr(o.RequestRange))
		case *regattapb.RequestOp_RequestPut:
			s := fmt.Sprintf("put(%s=%s", q(o.RequestPut.Key), q(o.RequestPut.Value))
			if o.RequestPut.PrevKv {
				s += ",prev"
			}
			parts = append(parts, s+")")
		case *regattapb.RequestOp_RequestDeleteRange:
			s := fmt.Sprintf("del(%s", q(o.RequestDeleteRange.Key))
			if o.RequestDeleteRange.RangeEnd != nil {
				s += ".." + q(o.RequestDeleteRange.RangeEnd)
			}
			if o.RequestDeleteRange.PrevKv {
				s += ",prev"
			}
			if o.RequestDeleteRange.Count {
				s += ",count"
			}
			parts = append(parts, s+")")
		default:
			parts = append(parts, "<empty-op>")
		}
	}
	return "[" + strings.Join(parts, "; ") + "]"
}

func RangeReqStr(r *regattapb.RequestOp_Range) string {
	s := "get(" + q(r.Key)
	if r.RangeEnd != nil {
		s += ".." + q(r.RangeEnd)
	}
	if r.Limit != 0 {
		s += fmt.Sprintf(",limit=%d", r.Limit)
	}
	if r.KeysOnly {
		s += ",keys"
	}
	if r.CountOnly {
		s += ",count"
	}
	return s + ")"
}

// NormRange normalises a range response for comparison: empty values and nil values are the same.
func NormRange(r *regattapb.ResponseOp_Range) string { return RangeStr(r) }

// EqualKVs compares two pair lists exactly (nil and empty values equal).
func EqualKVs(a, b []*regattapb.KeyValue) bool {
	if len(a) != len(b) {
		return false
	}
	for i := range a {
		if !bytes.Equal(a[i].GetKey(), b[i].GetKey()) || !bytes.Equal(a[i].GetValue(), b[i].GetValue()) {
			return false
		}
	}
	return true
}
