// Package evid (E8) collects what a check run covered, its violations, writes the evidence file
// and replay artefacts, and turns violations into VIOLATION / KNOWN-FINDING lines.
package evid

import (
	"crypto/sha256"
	"encoding/hex"
	"encoding/json"
	"fmt"
	"hash/fnv"
	"os"
	"path/filepath"
	"runtime"
	"runtime/pprof"
	"sort"
	"strconv"
	"sync"
	"sync/atomic"
	"time"
)

// VerifDir is the root of the verification tree.
var VerifDir = func() string {
	if d := os.Getenv("VERIF_DIR"); d != "" {
		return d
	}
	return "/verif"
}()

// Violation is one property violation with a stable signature.
type Violation struct {
	Signature string `json:"signature"`
	Detail    string `json:"detail"`
	Case      any    `json:"case,omitempty"` // replayable artefact
}

type Run struct {
	Property string
	Tier     string
	Level    string
	Seed     int64
	Check    string // sub-check name for replay dispatch

	start time.Time

	Evaluations atomic.Int64
	States      atomic.Int64
	Transitions atomic.Int64
	Validated   atomic.Int64
	Inconcl     atomic.Int64

	mu          sync.Mutex
	distinct    map[uint64]struct{}
	viol        map[string][]Violation
	violCount   map[string]int
	samples     []any
	extra       map[string]any
	assumptions []string
	rule        string
	exhaustive  bool
	caps        []string
	parts       []map[string]any
	expiredSeen atomic.Bool
	deadline    time.Time
}

func NewRun(property, level string) *Run {
	tier := os.Getenv("VERIF_TIER")
	if tier != "thorough" {
		tier = "quick"
	}
	seed, _ := strconv.ParseInt(os.Getenv("VERIF_SEED"), 10, 64)
	r := &Run{Property: property, Tier: tier, Level: level, Seed: seed, start: time.Now(),
		distinct: map[uint64]struct{}{}, viol: map[string][]Violation{}, violCount: map[string]int{},
		extra: map[string]any{}, exhaustive: true}
	// soft deadline of the thorough tier (enumerators consult Expired, record a cap and the run ends
	// with exit 0 and exhaustive=false): 40 minutes unless VERIF_DEADLINE_SEC says otherwise
	if sec, err := strconv.Atoi(os.Getenv("VERIF_DEADLINE_SEC")); err == nil && sec > 0 {
		r.deadline = time.Now().Add(time.Duration(sec) * time.Second)
	} else if tier == "thorough" {
		r.deadline = time.Now().Add(40 * time.Minute)
	}
	return r
}

func (r *Run) Thorough() bool { return r.Tier == "thorough" }

// SetDeadline sets an internal soft deadline; enumerators consult Expired().
func (r *Run) SetDeadline(d time.Duration) { r.deadline = time.Now().Add(d) }

// Expired tells an enumerator that the soft deadline has passed. Whoever is told so cuts its
// enumeration short, therefore the first true answer also records a cap: a run in which any part
// saw the deadline is never reported as exhaustive, whether or not that part records a cap of its
// own with the counts it completed.
func (r *Run) Expired() bool {
	if r.deadline.IsZero() || !time.Now().After(r.deadline) {
		return false
	}
	if r.expiredSeen.CompareAndSwap(false, true) {
		r.Cap("deadline reached: at least one enumeration was told to stop before it had finished (parts record their own counts where they can)")
	}
	return true
}

// Cap records that a cap was hit: the run is no longer exhaustive.
func (r *Run) Cap(what string) {
	r.mu.Lock()
	defer r.mu.Unlock()
	r.exhaustive = false
	for _, c := range r.caps {
		if c == what {
			return
		}
	}
	r.caps = append(r.caps, what)
}

func (r *Run) Rule(s string) {
	r.mu.Lock()
	if r.rule == "" {
		r.rule = s
	} else {
		r.rule += " | " + s
	}
	r.mu.Unlock()
}
func (r *Run) Assume(s string) { r.mu.Lock(); r.assumptions = append(r.assumptions, s); r.mu.Unlock() }
func (r *Run) Extra(k string, v any) {
	r.mu.Lock()
	r.extra[k] = v
	r.mu.Unlock()
}

// AddExtra adds n to a numeric extra counter.
func (r *Run) AddExtra(k string, n int64) {
	r.mu.Lock()
	cur, _ := r.extra[k].(int64)
	r.extra[k] = cur + n
	r.mu.Unlock()
}

func (r *Run) Sample(s any) {
	r.mu.Lock()
	if len(r.samples) < 12 {
		r.samples = append(r.samples, s)
	}
	r.mu.Unlock()
}

// Outcome records one evaluated case: outcome is a canonical rendering of (final model state,
// observations); nontrivial says whether the case changed state or returned a non-empty answer.
func (r *Run) Outcome(outcome string, nontrivial bool) {
	r.Evaluations.Add(1)
	if !nontrivial {
		return
	}
	h := fnv.New64a()
	_, _ = h.Write([]byte(outcome))
	k := h.Sum64()
	r.mu.Lock()
	r.distinct[k] = struct{}{}
	r.mu.Unlock()
}

// OutcomeHash is Outcome for a precomputed hash.
func (r *Run) OutcomeHash(k uint64, nontrivial bool) {
	r.Evaluations.Add(1)
	if !nontrivial {
		return
	}
	r.mu.Lock()
	r.distinct[k] = struct{}{}
	r.mu.Unlock()
}

// ViolationSignatures lists the signatures recorded so far (sorted).
func (r *Run) ViolationSignatures() []string {
	r.mu.Lock()
	defer r.mu.Unlock()
	var out []string
	for s := range r.viol {
		out = append(out, s)
	}
	sort.Strings(out)
	return out
}

func (r *Run) Distinct() int {
	r.mu.Lock()
	defer r.mu.Unlock()
	return len(r.distinct)
}

// Violate records a violation. Only the first few per signature keep their artefact.
func (r *Run) Violate(sig, detail string, c any) {
	r.mu.Lock()
	defer r.mu.Unlock()
	r.violCount[sig]++
	if len(r.viol[sig]) < 2 {
		r.viol[sig] = append(r.viol[sig], Violation{Signature: sig, Detail: detail, Case: c})
	}
}

func (r *Run) HasViolation(sig string) bool {
	r.mu.Lock()
	defer r.mu.Unlock()
	return r.violCount[sig] > 0
}

func (r *Run) ViolationCount() int {
	r.mu.Lock()
	defer r.mu.Unlock()
	n := 0
	for _, c := range r.violCount {
		n += c
	}
	return n
}

// Part records per-scenario counters (so vacuity is visible per scenario).
func (r *Run) Part(m map[string]any) {
	r.mu.Lock()
	r.parts = append(r.parts, m)
	r.mu.Unlock()
}

type knownFile struct {
	Known []struct {
		Property    string `json:"property"`
		Signature   string `json:"signature"`
		Description string `json:"description"`
	} `json:"known"`
	Fixed []json.RawMessage `json:"fixed"`
}

func loadKnown() map[string]string {
	out := map[string]string{}
	b, err := os.ReadFile(filepath.Join(VerifDir, "known_findings.json"))
	if err != nil {
		return out
	}
	var kf knownFile
	if err := json.Unmarshal(b, &kf); err != nil {
		fmt.Fprintf(os.Stderr, "known_findings.json unreadable: %v\n", err)
		return out
	}
	for _, k := range kf.Known {
		out[k.Property+"|"+k.Signature] = k.Description
	}
	return out
}

// Finish writes evidence + replays, prints verdict lines and returns the exit code.
func (r *Run) Finish() int {
	known := loadKnown()
	wall := time.Since(r.start).Seconds()
	r.mu.Lock()
	defer r.mu.Unlock()

	sigs := make([]string, 0, len(r.viol))
	for s := range r.viol {
		sigs = append(sigs, s)
	}
	sort.Strings(sigs)
	exit := 0
	unknownViolations := 0
	var knownHit []string
	for _, s := range sigs {
		v := r.viol[s][0]
		if desc, ok := known[r.Property+"|"+s]; ok {
			fmt.Printf("KNOWN-FINDING: property=%s %s (%s; %d occurrences)\n", r.Property, s, desc, r.violCount[s])
			knownHit = append(knownHit, s)
			continue
		}
		unknownViolations += r.violCount[s]
		sum := sha256.Sum256([]byte(s))
		dir := filepath.Join(VerifDir, "replays", r.Property)
		_ = os.MkdirAll(dir, 0o755)
		path := filepath.Join(dir, hex.EncodeToString(sum[:6])+".json")
		art := map[string]any{"property": r.Property, "check": r.Check, "signature": s, "detail": v.Detail, "case": v.Case, "occurrences": r.violCount[s], "tier": r.Tier}
		b, _ := json.MarshalIndent(art, "", " ")
		_ = os.WriteFile(path, b, 0o644)
		fmt.Printf("VIOLATION property=%s replay=%s\n", r.Property, path)
		fmt.Printf("  signature: %s\n  detail: %s\n", s, v.Detail)
		exit = 1
	}

	cov := map[string]any{
		"evaluations":         r.Evaluations.Load(),
		"distinct_nontrivial": len(r.distinct),
		"rule":                r.rule,
		"samples":             r.samples,
		"exhaustive":          r.exhaustive,
	}
	if len(r.samples) == 0 {
		cov["samples"] = []any{"(no sample recorded)"}
	}
	if r.Level == "model_checking" {
		cov["states"] = r.States.Load()
		cov["transitions"] = r.Transitions.Load()
		cov["traces_validated_against_impl"] = r.Validated.Load()
	}
	{
		var ms runtime.MemStats
		runtime.ReadMemStats(&ms)
		cov["process_goroutines_at_end"] = runtime.NumGoroutine()
		if p := os.Getenv("VERIF_GOROUTINE_DUMP"); p != "" {
			if f, err := os.Create(p); err == nil {
				_ = pprof.Lookup("goroutine").WriteTo(f, 1)
				_ = f.Close()
			}
		}
		cov["process_heap_sys_mb"] = ms.Sys >> 20
	}
	if len(r.caps) > 0 {
		cov["caps_hit"] = r.caps
	}
	if n := r.Inconcl.Load(); n > 0 {
		cov["inconclusive"] = n
	}
	if len(r.parts) > 0 {
		cov["scenarios"] = r.parts
	}
	if len(knownHit) > 0 {
		cov["known_findings_reproduced"] = knownHit
	}
	for k, v := range r.extra {
		cov[k] = v
	}
	ev := map[string]any{
		"property_id": r.Property,
		"tier":        r.Tier,
		"seed":        r.Seed,
		"level":       r.Level,
		"coverage":    cov,
		"assumptions": r.assumptions,
		"wall_s":      wall,
		"violations":  unknownViolations,
	}
	if r.assumptions == nil {
		ev["assumptions"] = []string{}
	}
	b, err := json.MarshalIndent(ev, "", " ")
	if err != nil {
		fmt.Fprintf(os.Stderr, "evidence marshal: %v\n", err)
		return 2
	}
	_ = os.MkdirAll(filepath.Join(VerifDir, "evidence"), 0o755)
	if err := os.WriteFile(filepath.Join(VerifDir, "evidence", r.Property+".json"), b, 0o644); err != nil {
		fmt.Fprintf(os.Stderr, "evidence write: %v\n", err)
		return 2
	}
	fmt.Printf("%s %s: evaluations=%d distinct_nontrivial=%d states=%d transitions=%d exhaustive=%v violations=%d known=%d wall=%.1fs\n",
		r.Property, r.Tier, r.Evaluations.Load(), len(r.distinct), r.States.Load(), r.Transitions.Load(), r.exhaustive, unknownViolations, len(knownHit), wall)
	return exit
}

// JournalPath is where a check notes the request in flight (write-ahead), so that a parent process
// can attribute a crash.
func JournalPath(property string) string {
	return filepath.Join(VerifDir, ".bin", "journal-"+property+".txt")
}

// Journal overwrites the journal with the request about to be issued.
func Journal(property, what string) {
	_ = os.MkdirAll(filepath.Join(VerifDir, ".bin"), 0o755)
	_ = os.WriteFile(JournalPath(property), []byte(what), 0o644)
}
