// Package par runs index ranges on all cores and enumerates bounded sequences (E3).
package par

import (
	"runtime"
	"sync"
	"sync/atomic"
)

// Workers is the number of parallel workers.
var Workers = runtime.NumCPU()

// For runs f(i) for i in [0,n) on all cores; stop() is polled between items.
func For(n int64, stop func() bool, f func(i int64)) (done int64) {
	var next atomic.Int64
	var completed atomic.Int64
	var wg sync.WaitGroup
	for w := 0; w < Workers; w++ {
		wg.Add(1)
		go func() {
			defer wg.Done()
			for {
				i := next.Add(1) - 1
				if i >= n || (stop != nil && stop()) {
					return
				}
				f(i)
				completed.Add(1)
			}
		}()
	}
	wg.Wait()
	return completed.Load()
}

// SeqCount is the number of sequences of length 0..depth over an alphabet of size a.
func SeqCount(a, depth int) int64 {
	var total, p int64 = 0, 1
	for d := 0; d <= depth; d++ {
		total += p
		p *= int64(a)
	}
	return total
}

// SeqAt decodes the i-th sequence (shortest first, then lexicographic over alphabet indices).
func SeqAt(a, depth int, i int64) []int {
	var p int64 = 1
	for d := 0; d <= depth; d++ {
		if i < p {
			seq := make([]int, d)
			for k := d - 1; k >= 0; k-- {
				seq[k] = int(i % int64(a))
				i /= int64(a)
			}
			return seq
		}
		i -= p
		p *= int64(a)
	}
	panic("par.SeqAt: index out of range")
}
