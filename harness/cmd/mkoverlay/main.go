// mkoverlay writes the go build overlay used by every check:
//   - the virtual package github.com/jamf/regatta/verifvp/vsync (exists only in the overlay),
//   - copies of the grpc compressor files with "sync" replaced by that package (sync.Pool ->
//     deterministic, hookable pool),
//   - everything an incoming overlay (VERIF_OVERLAY: a property-breaking change under test) replaces;
//     a file that is both changed by the incoming overlay and instrumented here is instrumented AS CHANGED.
//
// usage: mkoverlay <outdir>   (prints the path of the overlay json)
// An error exits 2: an infrastructure failure, never a verdict.
package main

import (
	"encoding/json"
	"fmt"
	"os"
	"path/filepath"
	"strings"
)

type overlay struct {
	Replace map[string]string
}

var syncTargets = []string{
	"/repo/regattaserver/encoding/gzip/grpc.go",
	"/repo/regattaserver/encoding/snappy/grpc.go",
	"/repo/regattaserver/encoding/zstd/grpc.go",
}

func fail(f string, a ...any) {
	fmt.Fprintf(os.Stderr, "mkoverlay: "+f+"\n", a...)
	os.Exit(2)
}

func main() {
	if len(os.Args) < 2 {
		fail("usage: mkoverlay <outdir>")
	}
	out := os.Args[1]
	if err := os.MkdirAll(out, 0o755); err != nil {
		fail("%v", err)
	}
	ov := overlay{Replace: map[string]string{}}
	if in := os.Getenv("VERIF_OVERLAY"); in != "" {
		b, err := os.ReadFile(in)
		if err != nil {
			fail("incoming overlay: %v", err)
		}
		if err := json.Unmarshal(b, &ov); err != nil {
			fail("incoming overlay: %v", err)
		}
		if ov.Replace == nil {
			ov.Replace = map[string]string{}
		}
	}
	// shim package
	self, _ := os.Executable()
	_ = self
	shimSrc := os.Getenv("VERIF_SHIM")
	if shimSrc == "" {
		shimSrc = "/verif/harness/instr/shim/vsync.go.txt"
	}
	b, err := os.ReadFile(shimSrc)
	if err != nil {
		fail("shim: %v", err)
	}
	shimOut := filepath.Join(out, "vsync.go")
	if err := os.WriteFile(shimOut, b, 0o644); err != nil {
		fail("%v", err)
	}
	ov.Replace["/repo/verifvp/vsync/vsync.go"] = shimOut
	for i, t := range syncTargets {
		src := t
		if r, ok := ov.Replace[t]; ok {
			src = r
		}
		b, err := os.ReadFile(src)
		if err != nil {
			fail("target %s: %v", t, err)
		}
		s := string(b)
		if !strings.Contains(s, "\t\"sync\"\n") {
			fail("target %s: import \"sync\" not found - cannot instrument", t)
		}
		s = strings.Replace(s, "\t\"sync\"\n", "\tsync \"github.com/jamf/regatta/verifvp/vsync\"\n", 1)
		o := filepath.Join(out, fmt.Sprintf("sync%d_grpc.go", i))
		if err := os.WriteFile(o, []byte(s), 0o644); err != nil {
			fail("%v", err)
		}
		ov.Replace[t] = o
	}
	ob, _ := json.MarshalIndent(ov, "", " ")
	op := filepath.Join(out, "overlay.json")
	if err := os.WriteFile(op, ob, 0o644); err != nil {
		fail("%v", err)
	}
	fmt.Println(op)
}
