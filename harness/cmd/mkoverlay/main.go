// mkoverlay writes the go build overlay used by every check:
//   - the virtual package github.com/jamf/regatta/verifvp/vsync (exists only in the overlay),
//   - copies of the grpc compressor files with "sync" replaced by that package (sync.Pool ->
//     deterministic, hookable pool),
//   - everything an incoming overlay (VERIF_OVERLAY: a property-breaking change under test) replaces;
//     a file that is both changed by the incoming overlay and instrumented here is instrumented AS CHANGED.
//
// usage: mkoverlay <outdir>   (prints the path of the overlay json)
// An error exits 2: an infrastructure failure, never a verdict.
package main

import (
	"encoding/json"
	"fmt"
	"go/ast"
	"go/parser"
	"go/token"
	"os"
	"path/filepath"
	"sort"
	"strings"
)

type overlay struct {
	Replace map[string]string
}

var syncTargets = []string{
	"/repo/regattaserver/encoding/gzip/grpc.go",
	"/repo/regattaserver/encoding/snappy/grpc.go",
	"/repo/regattaserver/encoding/zstd/grpc.go",
	"/repo/storage/cluster/view.go", // RWMutex becomes cooperative under the explorer (C19 part c)
}

// stmtTargets: functions whose every statement gets a scheduling point (vp.Point("file:line")).
var stmtTargets = map[string][]string{
	"/repo/storage/table/fsm/fsm.go":                 {"Lookup", "Update"},
	"/repo/storage/table/fsm/command.go":             {"Commit", "EnsureIndexed"},
	"/repo/storage/table/fsm/command_txn.go":         {"handleTxn", "handleTxnOps"},
	"/repo/storage/table/fsm/query.go":               {"lookup", "rangeLookup", "singleLookup", "iteratorLookup", "commandSnapshot"},
	"/repo/regattaserver/replication.go":             {"Stream"}, // the leader side of a follower recovery (C07: a write lands before every statement)
	"/repo/storage/table/fsm/iter.go":                {"iterate"},
	"/repo/storage/table/fsm/snapshot_snapshot.go":   {"recover"},
	"/repo/storage/table/fsm/snapshot_checkpoint.go": {"recover"},
	"/repo/storage/cluster/view.go":                  {"update", "shardInfo"}, // mergeShardInfo is a pure function of its value arguments,
	"/repo/cmd/common.go":                            {"authFunc"},            // the closure every call of a protected service runs (C17)
}

// instrument inserts `vp.Point("base:line"); ` in front of every statement that is an element of a
// block, case clause or select clause inside the named functions (nested function literals
// included). Text insertion on the same line: line numbers do not change.
func instrument(path string, src []byte, funcs []string) ([]byte, int, error) {
	fset := token.NewFileSet()
	f, err := parser.ParseFile(fset, path, src, parser.ParseComments)
	if err != nil {
		return nil, 0, err
	}
	want := map[string]bool{}
	for _, n := range funcs {
		want[n] = true
	}
	found := map[string]bool{}
	var offsets []int
	base := filepath.Base(path)
	addList := func(list []ast.Stmt) {
		for _, st := range list {
			switch st.(type) {
			case *ast.CaseClause, *ast.CommClause:
				continue // the body block of a switch/select holds clauses, not statements
			}
			offsets = append(offsets, fset.Position(st.Pos()).Offset)
		}
	}
	for _, d := range f.Decls {
		fd, ok := d.(*ast.FuncDecl)
		if !ok || fd.Body == nil || !want[fd.Name.Name] {
			continue
		}
		found[fd.Name.Name] = true
		ast.Inspect(fd.Body, func(n ast.Node) bool {
			switch x := n.(type) {
			case *ast.BlockStmt:
				addList(x.List)
			case *ast.CaseClause:
				addList(x.Body)
			case *ast.CommClause:
				addList(x.Body)
			}
			return true
		})
	}
	for n := range want {
		if !found[n] {
			return nil, 0, fmt.Errorf("function %s not found in %s", n, path)
		}
	}
	sort.Sort(sort.Reverse(sort.IntSlice(offsets)))
	out := append([]byte(nil), src...)
	for _, off := range offsets {
		line := fset.Position(fset.File(f.Pos()).Pos(off)).Line
		ins := fmt.Sprintf("vp.Point(%q); ", fmt.Sprintf("%s:%d", base, line))
		out = append(out[:off], append([]byte(ins), out[off:]...)...)
	}
	// import
	s := string(out)
	i := strings.Index(s, "import (")
	if i < 0 {
		return nil, 0, fmt.Errorf("no import block in %s", path)
	}
	s = s[:i+len("import (")] + " \"github.com/jamf/regatta/verifvp/vp\";" + s[i+len("import ("):]
	return []byte(s), len(offsets), nil
}

func fail(f string, a ...any) {
	fmt.Fprintf(os.Stderr, "mkoverlay: "+f+"\n", a...)
	os.Exit(2)
}

func main() {
	if len(os.Args) < 2 {
		fail("usage: mkoverlay <outdir>")
	}
	out := os.Args[1]
	if err := os.MkdirAll(out, 0o755); err != nil {
		fail("%v", err)
	}
	ov := overlay{Replace: map[string]string{}}
	if in := os.Getenv("VERIF_OVERLAY"); in != "" {
		b, err := os.ReadFile(in)
		if err != nil {
			fail("incoming overlay: %v", err)
		}
		if err := json.Unmarshal(b, &ov); err != nil {
			fail("incoming overlay: %v", err)
		}
		if ov.Replace == nil {
			ov.Replace = map[string]string{}
		}
	}
	// shim package
	self, _ := os.Executable()
	_ = self
	shimSrc := os.Getenv("VERIF_SHIM")
	if shimSrc == "" {
		shimSrc = "/verif/harness/instr/shim/vsync.go.txt"
	}
	b, err := os.ReadFile(shimSrc)
	if err != nil {
		fail("shim: %v", err)
	}
	shimOut := filepath.Join(out, "vsync.go")
	if err := os.WriteFile(shimOut, b, 0o644); err != nil {
		fail("%v", err)
	}
	ov.Replace["/repo/verifvp/vsync/vsync.go"] = shimOut
	for i, t := range syncTargets {
		src := t
		if r, ok := ov.Replace[t]; ok {
			src = r
		}
		b, err := os.ReadFile(src)
		if err != nil {
			fail("target %s: %v", t, err)
		}
		s := string(b)
		if !strings.Contains(s, "\t\"sync\"\n") {
			fail("target %s: import \"sync\" not found - cannot instrument", t)
		}
		s = strings.Replace(s, "\t\"sync\"\n", "\tsync \"github.com/jamf/regatta/verifvp/vsync\"\n", 1)
		o := filepath.Join(out, fmt.Sprintf("sync%d_%s", i, filepath.Base(t)))
		if err := os.WriteFile(o, []byte(s), 0o644); err != nil {
			fail("%v", err)
		}
		ov.Replace[t] = o
	}
	// statement-level scheduling points
	vpSrc := filepath.Join(filepath.Dir(shimSrc), "vp.go.txt")
	vb, err := os.ReadFile(vpSrc)
	if err != nil {
		fail("vp shim: %v", err)
	}
	vpOut := filepath.Join(out, "vp.go")
	if err := os.WriteFile(vpOut, vb, 0o644); err != nil {
		fail("%v", err)
	}
	ov.Replace["/repo/verifvp/vp/vp.go"] = vpOut
	var targets []string
	for t := range stmtTargets {
		targets = append(targets, t)
	}
	sort.Strings(targets)
	total := 0
	for i, t := range targets {
		src := t
		if r, ok := ov.Replace[t]; ok {
			src = r
		}
		b, err := os.ReadFile(src)
		if err != nil {
			fail("target %s: %v", t, err)
		}
		ib, n, err := instrument(t, b, stmtTargets[t])
		if err != nil {
			fail("cannot instrument: %v", err)
		}
		total += n
		o := filepath.Join(out, fmt.Sprintf("stmt%d_%s", i, filepath.Base(t)))
		if err := os.WriteFile(o, ib, 0o644); err != nil {
			fail("%v", err)
		}
		ov.Replace[t] = o
	}
	if os.Getenv("VERIF_VERBOSE") != "" {
		fmt.Fprintf(os.Stderr, "mkoverlay: %d statement points in %d files\n", total, len(targets))
	}
	ob, _ := json.MarshalIndent(ov, "", " ")
	op := filepath.Join(out, "overlay.json")
	if err := os.WriteFile(op, ob, 0o644); err != nil {
		fail("%v", err)
	}
	fmt.Println(op)
}
