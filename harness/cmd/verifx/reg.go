package main

import (
	"verif/harness/checks/c01"
)

func init() {
	register("C01", "exploration", c01.Run, c01.Replay)
}
