package main

import (
	"verif/harness/checks/c01"
	"verif/harness/checks/c02"
	"verif/harness/checks/c03"
	"verif/harness/checks/c04"
	"verif/harness/checks/c09"
	"verif/harness/checks/c12"
)

func init() {
	register("C01", "exploration", c01.Run, c01.Replay)
	register("C02", "exploration", c02.Run, c02.Replay)
	register("C03", "exploration", c03.Run, c03.Replay)
	register("C04", "fault_enumeration", c04.Run, c04.Replay)
	register("C09", "exploration", c09.Run, c09.Replay)
	register("C12", "exploration", c12.Run, c12.Replay)
}
