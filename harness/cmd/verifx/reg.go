package main

import (
	"verif/harness/checks/c01"
	"verif/harness/checks/c02"
	"verif/harness/checks/c03"
	"verif/harness/checks/c04"
	"verif/harness/checks/c05"
	"verif/harness/checks/c06"
	"verif/harness/checks/c07"
	"verif/harness/checks/c08"
	"verif/harness/checks/c09"
	"verif/harness/checks/c10"
	"verif/harness/checks/c12"
	"verif/harness/checks/c13"
	"verif/harness/checks/c14"
	"verif/harness/checks/c15"
	"verif/harness/checks/c16"
	"verif/harness/checks/c17"
	"verif/harness/checks/c18"
	"verif/harness/checks/c19"
)

func init() {
	register("C01", "exploration", c01.Run, c01.Replay)
	register("C02", "exploration", c02.Run, c02.Replay)
	register("C03", "exploration", c03.Run, c03.Replay)
	register("C04", "fault_enumeration", c04.Run, c04.Replay)
	register("C05", "model_checking", c05.Run, c05.Replay)
	register("C06", "model_checking", c06.Run, c06.Replay)
	register("C07", "exploration", c07.Run, c07.Replay)
	register("C08", "model_checking", c08.Run, c08.Replay)
	register("C09", "exploration", c09.Run, c09.Replay)
	register("C10", "model_checking", c10.Run, c10.Replay)
	register("C12", "exploration", c12.Run, c12.Replay)
	register("C13", "exploration", c13.Run, c13.Replay)
	register("C14", "model_checking", c14.Run, c14.Replay)
	register("C15", "model_checking", c15.Run, c15.Replay)
	register("C16", "exploration", c16.Run, c16.Replay)
	register("C17", "exploration", c17.Run, c17.Replay)
	register("C18", "exploration", c18.Run, c18.Replay)
	register("C19", "model_checking", c19.Run, c19.Replay)
}
