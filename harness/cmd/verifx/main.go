// verifx runs the checks: verifx check <Cxx> | verifx replay <file>
package main

import (
	"encoding/json"
	"fmt"
	"os"
	"strings"

	"verif/harness/evid"
)

type check struct {
	level  string
	run    func(*evid.Run)
	replay func(json.RawMessage) (string, bool)
}

var checks = map[string]check{}

func register(id, level string, run func(*evid.Run), replay func(json.RawMessage) (string, bool)) {
	checks[id] = check{level, run, replay}
}

func main() {
	if len(os.Args) < 3 {
		fmt.Fprintln(os.Stderr, "usage: verifx check <Cxx> | verifx replay <file>")
		os.Exit(2)
	}
	switch os.Args[1] {
	case "check":
		id := strings.ToUpper(os.Args[2])
		c, ok := checks[id]
		if !ok {
			fmt.Fprintf(os.Stderr, "unknown check %s\n", id)
			os.Exit(2)
		}
		r := evid.NewRun(id, c.level)
		c.run(r)
		os.Exit(r.Finish())
	case "replay":
		b, err := os.ReadFile(os.Args[2])
		if err != nil {
			fmt.Fprintln(os.Stderr, err)
			os.Exit(2)
		}
		var art struct {
			Property  string          `json:"property"`
			Signature string          `json:"signature"`
			Case      json.RawMessage `json:"case"`
		}
		if err := json.Unmarshal(b, &art); err != nil {
			fmt.Fprintln(os.Stderr, err)
			os.Exit(2)
		}
		c, ok := checks[art.Property]
		if !ok || c.replay == nil {
			fmt.Fprintf(os.Stderr, "no replay for %s\n", art.Property)
			os.Exit(2)
		}
		out, pass := c.replay(art.Case)
		fmt.Print(out)
		if pass {
			fmt.Println("replay: property holds on this case")
			os.Exit(0)
		}
		fmt.Printf("VIOLATION property=%s replay=%s\n", art.Property, os.Args[2])
		os.Exit(1)
	}
	os.Exit(2)
}
