// verifx runs the checks: verifx check <Cxx> | verifx replay <file>
package main

import (
	"encoding/json"
	"fmt"
	"os"
	"os/exec"
	"strings"

	"verif/harness/evid"
)

type check struct {
	level  string
	run    func(*evid.Run)
	replay func(json.RawMessage) (string, bool)
}

var checks = map[string]check{}

func register(id, level string, run func(*evid.Run), replay func(json.RawMessage) (string, bool)) {
	checks[id] = check{level, run, replay}
}

// engineChecks run real dragonboat engines: a panic in one of its goroutines kills the process, so
// they run in a child process and the parent turns "child died" into an observation.
// rerun: (property/kind) pairs without a single-case replay.
var rerun = map[string]bool{
	"C05/tableset": true, "C05/restart-during-poll": true, "C19/cluster": true, "C19/headers": true, "C08/stmt-overlap": true, "C09/api": true, "C13/conformance": true, "C10/txn-shape": true, "C10/conformance": true,
	"C14/engine-sequence": true, "C14/odd-names": true, "C17/tls": true, "C17/tlsbin": true, "C18/pool": true,
}

// rerunAll: properties none of whose cases has a single-case replay (their enumerations are pure and
// deterministic: the check itself is the replay).
var rerunAll = map[string]bool{"C16": true, "C17": true, "C18": true}

var engineChecks = map[string]bool{"C05": true, "C07": true, "C14": true, "C16": true, "C17": true, "C19": true}

func supervise(id, level string) int {
	_ = os.Remove(evid.JournalPath(id))
	cmd := exec.Command(os.Args[0], os.Args[1:]...)
	cmd.Env = append(os.Environ(), "VERIF_CHILD=1")
	cmd.Stdout = os.Stdout
	var errBuf tailBuffer
	cmd.Stderr = &errBuf
	err := cmd.Run()
	code := 0
	if err != nil {
		code = 2
		if ee, ok := err.(*exec.ExitError); ok {
			code = ee.ExitCode()
		}
	}
	tail := errBuf.String()
	crashed := strings.Contains(tail, "panic:") || strings.Contains(tail, "fatal error:") || code < 0 || code > 2
	if code == 0 || code == 1 || !crashed {
		if code >= 2 {
			fmt.Fprint(os.Stderr, tail)
		}
		return code
	}
	// the serving process died: that is an observation about the code under test
	r := evid.NewRun(id, level)
	j, _ := os.ReadFile(evid.JournalPath(id))
	first := tail
	if i := strings.Index(first, "panic:"); i >= 0 {
		first = first[i:]
	} else if i := strings.Index(first, "fatal error:"); i >= 0 {
		first = first[i:]
	}
	if k := strings.IndexByte(first, '\n'); k > 0 {
		first = first[:k]
	}
	if len(first) > 100 {
		first = first[:100]
	}
	r.Rule("worker process died before completing; see detail")
	r.Sample(map[string]any{"in_flight": string(j)})
	r.Outcome("died", true)
	r.Outcome("died2", true)
	r.Violate("process-died/"+first, fmt.Sprintf("in flight: %s; stderr tail: %s", string(j), lastLines(tail, 25)), map[string]any{"in_flight": string(j)})
	return r.Finish()
}

type tailBuffer struct{ b []byte }

func (t *tailBuffer) Write(p []byte) (int, error) {
	t.b = append(t.b, p...)
	if len(t.b) > 1<<20 {
		t.b = t.b[len(t.b)-(1<<19):]
	}
	return len(p), nil
}
func (t *tailBuffer) String() string { return string(t.b) }

func lastLines(s string, n int) string {
	lines := strings.Split(s, "\n")
	// keep the first lines after "panic:" rather than the very end (goroutine dumps are long)
	for i, l := range lines {
		if strings.HasPrefix(l, "panic:") || strings.HasPrefix(l, "fatal error:") {
			end := i + n
			if end > len(lines) {
				end = len(lines)
			}
			return strings.Join(lines[i:end], " | ")
		}
	}
	if len(lines) > n {
		lines = lines[len(lines)-n:]
	}
	return strings.Join(lines, " | ")
}

func main() {
	if len(os.Args) < 3 {
		fmt.Fprintln(os.Stderr, "usage: verifx check <Cxx> | verifx replay <file>")
		os.Exit(2)
	}
	switch os.Args[1] {
	case "check":
		id := strings.ToUpper(os.Args[2])
		c, ok := checks[id]
		if !ok {
			fmt.Fprintf(os.Stderr, "unknown check %s\n", id)
			os.Exit(2)
		}
		if engineChecks[id] && os.Getenv("VERIF_CHILD") == "" {
			os.Exit(supervise(id, c.level))
		}
		r := evid.NewRun(id, c.level)
		c.run(r)
		os.Exit(r.Finish())
	case "replay":
		b, err := os.ReadFile(os.Args[2])
		if err != nil {
			fmt.Fprintln(os.Stderr, err)
			os.Exit(2)
		}
		var art struct {
			Property  string          `json:"property"`
			Signature string          `json:"signature"`
			Case      json.RawMessage `json:"case"`
		}
		if err := json.Unmarshal(b, &art); err != nil {
			fmt.Fprintln(os.Stderr, err)
			os.Exit(2)
		}
		c, ok := checks[art.Property]
		if !ok || c.replay == nil {
			fmt.Fprintf(os.Stderr, "no replay for %s\n", art.Property)
			os.Exit(2)
		}
		// cases whose kind has no single-case replay: say so instead of pretending
		var probe struct {
			Kind   string `json:"kind"`
			Reader string `json:"reader"`
		}
		_ = json.Unmarshal(art.Case, &probe)
		kind := probe.Kind
		if kind == "" && probe.Reader != "" {
			kind = "stmt-overlap"
		}
		if rerun[art.Property+"/"+kind] || rerunAll[art.Property] {
			fmt.Printf("cases of kind %q of %s have no single-case replay: the enumeration is deterministic, re-run scripts/check.sh %s quick (the artefact names the case: %s)\n", kind, art.Property, art.Property, string(art.Case))
			os.Exit(2)
		}
		out, pass := c.replay(art.Case)
		fmt.Print(out)
		if pass {
			fmt.Println("replay: property holds on this case")
			os.Exit(0)
		}
		fmt.Printf("VIOLATION property=%s replay=%s\n", art.Property, os.Args[2])
		os.Exit(1)
	}
	os.Exit(2)
}
