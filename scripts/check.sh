#!/bin/bash
# usage: scripts/check.sh <Cxx> quick|thorough
# Rebuilds the harness against /repo's current working tree (hooks on: -tags verif) and runs one check.
set -u
export GOFLAGS=-mod=mod GOPROXY=off GOSUMDB=off GOTOOLCHAIN=local
ID="$1"; TIER="${2:-quick}"
export VERIF_TIER="$TIER"
ROOT="$(cd "$(dirname "$0")/.." && pwd)"
export VERIF_DIR="${VERIF_DIR:-$ROOT}"
cd "$ROOT/harness" || exit 2
mkdir -p "$ROOT/.bin" "$VERIF_DIR/evidence"
BIN="$ROOT/.bin/verifx.$$"
trap 'rm -f "$BIN"' EXIT
# every build goes through an overlay: the sync.Pool shim for the compressors plus, if given, the
# change under test (VERIF_OVERLAY)
if [ -n "${VERIF_OVERLAY:-}" ]; then
  OVLDIR="$(mktemp -d /tmp/verif-build-XXXXXX)"
  trap 'rm -f "$BIN"; rm -rf "$OVLDIR"' EXIT
else
  OVLDIR="$ROOT/.bin/overlay-base"   # stable paths keep the build cache warm
fi
export VERIF_SHIM="$ROOT/harness/instr/shim/vsync.go.txt"
OVLJSON="$(go1.26.8 run ./cmd/mkoverlay "$OVLDIR")" || { echo "INFRA: overlay preparation failed (not a verdict)"; exit 2; }
OVL=(-overlay "$OVLJSON")
export VERIF_BUILD_OVERLAY="$OVLJSON"   # checks that build /repo binaries themselves (C17) use it too
if [ "$ID" = "C11" ]; then
  # C11 runs inside testing/synctest bubbles and therefore is a test binary
  if ! go1.26.8 test -vet=off -tags verif "${OVL[@]}" -c -o "$BIN" ./checks/c11/ >/tmp/verifx-build.$$.log 2>&1; then
    echo "INFRA: harness build failed (not a verdict)"; cat /tmp/verifx-build.$$.log; rm -f /tmp/verifx-build.$$.log; exit 2
  fi
  rm -f /tmp/verifx-build.$$.log
  ulimit -v 60000000 2>/dev/null || true
  "$BIN" -test.timeout 0 | grep -v '^PASS$\|^ok '
  exit "${PIPESTATUS[0]}"
fi
if [ "$ID" = "C15" ]; then
  # the worker-side part of C15 needs testing/synctest (fake clock): a test binary that runs first
  # and writes its result as JSON, which `verifx check C15` merges into C15's evidence and verdict
  WBIN="$ROOT/.bin/c15w.$$.test"
  export VERIF_C15W_JSON="$ROOT/.bin/c15w.$$.json"
  trap 'rm -f "$BIN" "$WBIN" "$VERIF_C15W_JSON"; [ -n "${VERIF_OVERLAY:-}" ] && rm -rf "$OVLDIR"' EXIT
  if ! go1.26.8 test -vet=off -tags verif "${OVL[@]}" -c -o "$WBIN" ./checks/c15w/ >/tmp/verifx-build.$$.log 2>&1; then
    echo "INFRA: harness build failed (not a verdict)"; cat /tmp/verifx-build.$$.log; rm -f /tmp/verifx-build.$$.log; exit 2
  fi
  rm -f /tmp/verifx-build.$$.log
  if ! "$WBIN" -test.timeout 0 -test.run '^TestWorkerLeases$' >/tmp/c15w.$$.log 2>&1; then
    echo "INFRA: the worker-side part of C15 did not run to completion (not a verdict)"; tail -n 30 /tmp/c15w.$$.log; rm -f /tmp/c15w.$$.log; exit 2
  fi
  rm -f /tmp/c15w.$$.log
fi
if ! go1.26.8 build -tags verif "${OVL[@]}" -o "$BIN" ./cmd/verifx >/tmp/verifx-build.$$.log 2>&1; then
  echo "INFRA: harness build failed (not a verdict)"; cat /tmp/verifx-build.$$.log; rm -f /tmp/verifx-build.$$.log; exit 2
fi
rm -f /tmp/verifx-build.$$.log
ulimit -v 60000000 2>/dev/null || true
"$BIN" check "$ID"
