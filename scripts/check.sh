#!/bin/bash
# usage: scripts/check.sh <Cxx> quick|thorough
# Rebuilds the harness against /repo's current working tree (hooks on: -tags verif) and runs one check.
set -u
export GOFLAGS=-mod=mod GOPROXY=off GOSUMDB=off GOTOOLCHAIN=local
ID="$1"; TIER="${2:-quick}"
export VERIF_TIER="$TIER"
ROOT="$(cd "$(dirname "$0")/.." && pwd)"
export VERIF_DIR="${VERIF_DIR:-$ROOT}"
cd "$ROOT/harness" || exit 2
mkdir -p "$ROOT/.bin" "$VERIF_DIR/evidence"
BIN="$ROOT/.bin/verifx.$$"
trap 'rm -f "$BIN"' EXIT
OVL=()
if [ -n "${VERIF_OVERLAY:-}" ]; then OVL=(-overlay "$VERIF_OVERLAY"); fi
if [ "$ID" = "C11" ]; then
  # C11 runs inside testing/synctest bubbles and therefore is a test binary
  if ! go1.26.8 test -tags verif "${OVL[@]}" -c -o "$BIN" ./checks/c11/ >/tmp/verifx-build.$$.log 2>&1; then
    echo "INFRA: harness build failed (not a verdict)"; cat /tmp/verifx-build.$$.log; rm -f /tmp/verifx-build.$$.log; exit 2
  fi
  rm -f /tmp/verifx-build.$$.log
  ulimit -v 60000000 2>/dev/null || true
  "$BIN" -test.timeout 0 | grep -v '^PASS$\|^ok '
  exit "${PIPESTATUS[0]}"
fi
if ! go1.26.8 build -tags verif "${OVL[@]}" -o "$BIN" ./cmd/verifx >/tmp/verifx-build.$$.log 2>&1; then
  echo "INFRA: harness build failed (not a verdict)"; cat /tmp/verifx-build.$$.log; rm -f /tmp/verifx-build.$$.log; exit 2
fi
rm -f /tmp/verifx-build.$$.log
ulimit -v 60000000 2>/dev/null || true
"$BIN" check "$ID"
