#!/bin/bash
# usage: scripts/replay.sh <replay.json> : re-executes a stored violation artefact without the explorer.
set -u
export GOFLAGS=-mod=mod GOPROXY=off GOSUMDB=off GOTOOLCHAIN=local
cd /verif/harness || exit 2
BIN="/verif/.bin/verifx.replay.$$"
trap 'rm -f "$BIN"' EXIT
go1.26.8 build -tags verif -o "$BIN" ./cmd/verifx || exit 2
"$BIN" replay "$1"
