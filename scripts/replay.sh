#!/bin/bash
# usage: scripts/replay.sh <replay.json> : re-executes a stored violation artefact without the explorer.
set -u
export GOFLAGS=-mod=mod GOPROXY=off GOSUMDB=off GOTOOLCHAIN=local
cd /verif/harness || exit 2
BIN="/verif/.bin/verifx.replay.$$"
trap 'rm -f "$BIN"' EXIT
OVLDIR="$(mktemp -d /tmp/verif-build-XXXXXX)"
trap 'rm -f "$BIN"; rm -rf "$OVLDIR"' EXIT
OVLJSON="$(go1.26.8 run ./cmd/mkoverlay "$OVLDIR")" || exit 2
if [ "$(jq -r .property "$1" 2>/dev/null)" = "C11" ]; then
  # C11 runs inside testing/synctest bubbles: its replay lives in the test binary
  go1.26.8 test -vet=off -tags verif -overlay "$OVLJSON" -c -o "$BIN" ./checks/c11/ || exit 2
  VERIF_REPLAY="$(readlink -f "$1")" "$BIN" -test.count=1 2>&1 | grep -v '^PASS$\|^ok '
  exit "${PIPESTATUS[0]}"
fi
CKIND="$(jq -r '.case.kind // ""' "$1" 2>/dev/null)"
if [ "$CKIND" = "worker-lease" ] || [ "$CKIND" = "lease-boundary" ]; then
  # worker-side part of C15 (testing/synctest): the test binary re-runs the one recorded case
  go1.26.8 test -vet=off -tags verif -overlay "$OVLJSON" -c -o "$BIN" ./checks/c15w/ || exit 2
  OUT="$OVLDIR/c15w.json"
  VERIF_C15W_REPLAY="$(jq -c .case "$1")" VERIF_C15W_JSON="$OUT" "$BIN" -test.count=1 -test.run '^TestWorkerLeases$' >/dev/null 2>&1 || { echo "INFRA: replay did not run to completion (not a verdict)"; exit 2; }
  jq -r '.violations // [] | .[] | "\(.sig): \(.detail)"' "$OUT"
  if [ "$(jq '.violations // [] | length' "$OUT")" -gt 0 ]; then echo "VIOLATION property=C15 replay=$1"; exit 1; fi
  echo "replay: property holds on this case"; exit 0
fi
go1.26.8 build -tags verif -overlay "$OVLJSON" -o "$BIN" ./cmd/verifx || exit 2
"$BIN" replay "$1"
