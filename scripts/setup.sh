#!/bin/bash
# Builds the harness once so that the Go build cache is warm. Offline.
set -eu
export GOFLAGS=-mod=mod GOPROXY=off GOSUMDB=off GOTOOLCHAIN=local
cd /verif/harness
mkdir -p /verif/.bin /verif/evidence
OVLDIR=/verif/.bin/overlay-base
OVLJSON="$(go1.26.8 run ./cmd/mkoverlay "$OVLDIR")"
go1.26.8 build -tags verif -overlay "$OVLJSON" -o /verif/.bin/verifx ./cmd/verifx
go1.26.8 test -vet=off -tags verif -overlay "$OVLJSON" -c -o /verif/.bin/c11.test ./checks/c11/
go1.26.8 test -vet=off -tags verif -overlay "$OVLJSON" -c -o /verif/.bin/c15w.test ./checks/c15w/
echo "setup ok"
