#!/bin/bash
# Builds the harness once so that the Go build cache is warm. Offline.
set -eu
export GOFLAGS=-mod=mod GOPROXY=off GOSUMDB=off GOTOOLCHAIN=local
cd /verif/harness
mkdir -p /verif/.bin /verif/evidence
go1.26.8 build -tags verif -o /verif/.bin/verifx ./cmd/verifx
go1.26.8 test -tags verif -c -o /verif/.bin/c11.test ./checks/c11/
echo "setup ok"
