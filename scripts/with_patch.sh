#!/bin/bash
# usage: scripts/with_patch.sh <patch.diff> <command...>
# Runs <command> with VERIF_OVERLAY pointing at a go build overlay in which the files touched by the
# patch are replaced by patched copies. /repo itself is never modified.
set -eu
PATCH="$(readlink -f "$1")"; shift
TMP="$(mktemp -d /tmp/verif-ovl-XXXXXX)"
trap 'rm -rf "$TMP"' EXIT
FILES=$(grep -E '^\+\+\+ b/' "$PATCH" | sed 's#^+++ b/##')
for f in $FILES; do
  mkdir -p "$TMP/tree/$(dirname "$f")"
  if [ -f "/repo/$f" ]; then cp "/repo/$f" "$TMP/tree/$f"; fi
done
(cd "$TMP/tree" && patch -s -p1 < "$PATCH")
{
  echo '{"Replace":{'
  first=1
  for f in $FILES; do
    [ $first -eq 1 ] || echo ','
    first=0
    printf '"/repo/%s":"%s/tree/%s"' "$f" "$TMP" "$f"
  done
  echo '}}'
} > "$TMP/overlay.json"
export VERIF_OVERLAY="$TMP/overlay.json"
# evidence and replays of a mutant run go to a scratch directory, never into /verif
export VERIF_DIR="$TMP/out"
mkdir -p "$VERIF_DIR"
cp /verif/known_findings.json "$VERIF_DIR/"
"$@"
