#!/usr/bin/env python3
"""Writes /verif/seeded/REPORT.md from the meta.json files."""
import json,glob,os
rows=[]
for p in sorted(glob.glob('/verif/seeded/*/meta.json')):
    m=json.load(open(p))
    checks=m.get('checks',{})
    caught=[c for c,v in checks.items() if v.get('caught')]
    missed=[c for c,v in checks.items() if not v.get('caught')]
    rows.append((m['seed_id'],m.get('property'),(m.get('summary') or '').replace('\n',' ')[:230],(m.get('needs') or '').replace('\n',' ')[:230],caught,missed,checks,m.get('strengthened_after_miss'),m.get('confirmed',{})))
out=["# Seeded property-breaking changes and what catches them","",
"Each change was written by an independent sub-agent that saw only the property's text and a scratch worktree of /repo. Each was confirmed by scripts/seed_verify.sh in a fresh scratch worktree (demo passes without the change, change compiles, demo fails with it, the repository's own suite passes with it) and then run against the checks through a build overlay (scripts/seed_eval.sh); /repo was never modified.","",
"| seed | property | change | needs | caught by (quick tier) | not caught by | confirmed |","|---|---|---|---|---|---|---|"]
for sid,prop,summ,needs,caught,missed,checks,st,conf in rows:
    c='; '.join('%s: `%s`'%(k,(checks[k]['first_signatures'].split(';')[0])[:90]) for k in caught) or '-'
    ok = conf.get('demo_passes_without_change') and conf.get('demo_fails_with_change') and conf.get('repository_suite_failures_with_change')==0
    out.append('| %s | %s | %s | %s | %s | %s | %s |'%(sid,prop,summ,needs,c,', '.join(missed) or '-', 'yes' if ok else 'NO'))
out.append('')
out.append('## Checks strengthened after a miss')
for sid,prop,summ,needs,caught,missed,checks,st,conf in rows:
    if st: out.append('* **%s**: %s'%(sid,st))
open('/verif/seeded/REPORT.md','w').write('\n'.join(out)+'\n')
print('\n'.join(out[-12:]))

# detection matrix inside DESIGN.md
lines=["| seed | property | caught by | run but not caught by (other property's check) | after strengthening |","|---|---|---|---|---|"]
for sid,prop,summ,needs,caught,missed,checks,st,conf in rows:
    own='C'+sid[1:3]
    lines.append('| %s | %s | %s | %s | %s |'%(sid,prop,', '.join('%s `%s`'%(k,checks[k]['first_signatures'].split(';')[0][:70]) for k in caught) or '**none**',', '.join(missed) or '-', 'yes' if st else ''))
d=open('/verif/DESIGN.md').read()
b,e='<!-- DETECTION-MATRIX-BEGIN -->','<!-- DETECTION-MATRIX-END -->'
if b in d and e in d:
    d=d[:d.index(b)+len(b)]+'\n'+'\n'.join(lines)+'\n'+d[d.index(e):]
    open('/verif/DESIGN.md','w').write(d)
