#!/usr/bin/env python3
"""Generates /verif/MANIFEST.json from the table below (kept in one place so it stays valid)."""
import json, subprocess

CHECKS = {
 # id: (level, technique, text, note, design_ref)
 "C02": ("exploration",
         "bounded exhaustive enumeration of transactions x pre-states x batch positions vs reference model, plus stateless interleaving exploration of updater vs reader at statement granularity",
         "Every transaction built from 0..2 of 20 predicates and <=2 operations per branch out of 12 (<=2 in total quick, <=3 thorough), on 8 pre-states and at 4 positions of an apply call, executed on a real fsm.FSM and compared with the model (branch choice, n-th response for n-th operation, state afterwards; read-only transactions also through Lookup). Atomic visibility: an updater applying a transaction against a reader doing two full-range lookups with a scheduling point before every statement of the write and read paths (build-overlay instrumentation), all interleavings up to 2 (thorough 3) preemptions: every read equals a state at an entry boundary, never part of a transaction.",
         "Trusted: refkv transaction semantics; pebble's batch commit is atomic between two scheduling points (durable atomicity is C04's). Chained execution on a live FSM; failures are re-run alone on a fresh FSM.",
         "DESIGN.md section 4, C02"),
 "C03": ("exploration",
         "differential enumeration: every log x every batching cut x interposed sync/reopen/snapshot transfer on real FSMs",
         "Every log up to length 3 (quick) / 4 (thorough) over a 16-entry alphabet is applied under ALL 2^(n-1) batchings, and with Sync, close+reopen and snapshot save/recover (4 format pairs, fresh and stale receiver) interposed at every cut point (shorter logs) resp. after the last entry (all logs); results, content, hash, applied and leader index must equal the one-entry-per-call run and the model.",
         "Trusted: refkv; GetHash as a content digest. Logs beyond the depth and other alphabets are not covered.",
         "DESIGN.md section 4, C03"),
 "C04": ("fault_enumeration",
         "crash-point enumeration: every mutating FS operation boundary of every bounded history on a strict in-memory FS",
         "Every history of length <= 2 (quick) / <= 3 (thorough) over 12 steps (8 apply calls incl. multi-entry call and transaction, Sync, close+reopen, snapshot install in both formats), from a never-opened table; for every FS operation boundary the history is re-run with durability frozen there, unsynced state dropped, the table reopened and compared with the model prefix at the reported index, then the rest of the log re-applied; thorough adds a second crash at every operation of recovery.",
         "Trusted: pebble strict MemFS implements the stated fault model; refkv. No torn writes within a synced file; real disks not modelled.",
         "DESIGN.md section 4, C04"),
 "C05": ("model_checking",
         "exhaustive schedule enumeration over harness-stepped real leader/follower engines with observation at every follower apply",
         "Every schedule of length <= 3 (quick) / <= 5 (thorough, time-capped) over 12 events (6 kinds of leader writes incl. non-idempotent transaction and a 300 KiB put that is larger than one follower proposal, an advanced reader warming the leader's log cache, follower poll, snapshot recovery, leader snapshot+log compaction keeping 0/1 entries, follower engine restart) x message limits {1 B, 300 B, default} x leader log cache {0,2}: real engines, real LogServer/SnapshotServer over gRPC, real replication worker stepped one poll/recovery at a time; at every follower apply and after every event the follower's content must equal the leader content recorded at the follower's leader index, which never decreases; then bounded polls reach the leader state; table sets converge under reconcile for every create/delete/reconcile sequence up to length 4 from the empty set and up to length 3 from a replicated table.",
         "Trusted: single-node dragonboat clusters as a black box; quiescence between events by polling with generous deadlines (misses are inconclusive). states = distinct observed (leader writes, follower index, follower content); all traces are implementation traces.",
         "DESIGN.md section 4, C05"),
 "C17": ("exploration",
         "exhaustive enumeration of methods x authorization variants on the real binaries and of client certificates x TLS option combinations",
         "4 token configurations x {leader, follower} real `regatta` processes x every method of Tables and Maintenance (+ KV/Cluster controls) x 14 authorization variants; 14 client certificate kinds against the real leader binary on both TLS endpoints x 4 configurations, and x 16 TLS option combinations through real handshakes against security.TLSInfo.ServerConfig().",
         "Trusted: crypto/tls, crypto/x509 (VerifyHostname is the reference for hostname validity); mutating calls are never sent with the right token.",
         "DESIGN.md section 4, C17"),
 "C06": ("model_checking",
         "explicit-state BFS over (log, compaction marker, applied index, cache run, capacity); transitions call the real readers and LogServer.Replicate",
         "All reachable states up to BFS depth 7 (quick; log <= 4 entries, cache capacities 1,2) / 9 (thorough; <= 5 entries, capacities 1,2,3,8) of a model Raft log (4 entry types) with the REAL Simple/Cached readers, ShardCache and LogServer.Replicate on top; every query start index x 4 size limits checked in every state against: consecutive entries from the requested index, none beyond applied, use-snapshot / leader-behind / empty batch answers, cache transparency, at least one entry.",
         "Trusted: the 60-line model of dragonboat's ReadonlyLogReader (GetRange/Entries with size cut and at-least-one rule); compaction clears the cache atomically. Visited set keyed by the complete tuple incl. the cache's index run (hook dump).",
         "DESIGN.md section 4, C06"),
 "C07": ("exploration",
         "bounded exhaustive enumeration of contents (value-size orders) x MaxInMemLogSize settings x target states on real engines, through Manager.Restore, worker.recover over gRPC and backup/restore",
         "Every content of 0..3 (quick) / 0..5 (thorough) pairs with value sizes from {0,1,40,300} in every order (+64KiB/2MiB cases) x MaxInMemLogSize from {0,600,1000,6MiB} (thorough 7 values) x absent/pre-populated target x {directly, after an interrupted restore of another image into the same table}: captured by the real SnapshotServer.Stream, loaded by the real Manager.Restore; the same through real gRPC and the real replication worker.recover() on follower engines, and through backup.Backup/Restore incl. one-bit corruption of the file; point-in-time at FSM level with a write injected after every output write.",
         "Trusted: single-node dragonboat engines on in-memory file systems; settings under which dragonboat starves proposals are excluded by construction; a missed generous deadline is inconclusive (counted), never a verdict.",
         "DESIGN.md section 4, C07"),
 "C16": ("exploration",
         "bounded exhaustive enumeration of request field products through the registered codec into the real servers on a real engine, with an outcome classifier and a no-effect check",
         "About 21k requests: the full product of per-field domains for Range/IterateRange/Put/DeleteRange, transactions with <=1 of 12 predicates and <=2 of 24 nested operations, Tables calls with hostile names on leader and follower wiring; required status class from the documented constraints; after every refused or read-only request the table list and every table's content are unchanged; handler panics and a dead worker process are violations (child process supervision).",
         "Trusted: the classifier (written from the property text); handlers are called directly (no recovery interceptor exists, so a handler panic = process death).",
         "DESIGN.md section 4, C16"),
 "C18": ("exploration",
         "bounded exhaustive enumeration of message values, compressor payload pairs and stream chunkings/alignments, plus interleaving exploration of the pooled compressor state under a controlled scheduler",
         "Every message type of the 4 proto packages: empty, every single-field setting to depth 3, every pair, everything-set; registered codec vs fresh and recycled objects and vs the standard protobuf implementation; gzip/snappy/zstd with 39 payloads in every ordered pair and 3 read granularities; pooled compressor state: sync.Pool replaced (build overlay) by a deterministic pool whose Get/Put are scheduling points, 2 threads x 1-2 round trips, all interleavings up to 2 (thorough 3) preemptions; snapshot files shipped with every placement of <=2 cuts and every uniform chunk size through snapshot.Writer/Reader, backup.Writer and BackupServer.Restore; multi-block snapshot files with block boundaries on every position of a record.",
         "Trusted: protobuf-go's proto.Equal as equality incl. presence; GC-driven eviction of sync.Pool is not modelled (an evicted object is never reused).",
         "DESIGN.md section 4, C18"),
 "C08": ("model_checking",
         "stateless interleaving exploration (cooperative scheduler, statement-level scheduling points from a build-overlay instrumenter, iterative preemption bounding) of reads vs snapshot install, plus bounded exhaustive fidelity/stop-signal matrices and crash-point enumeration",
         "Fidelity matrix over every history of length <= 2 (quick) / <= 3 (thorough) x saver/receiver formats x fresh/stale receiver x writes between prepare and save and from inside save at every output write; stop signal at every read of recover / write of save; crash at every FS operation of histories with installs; reads overlapping an install at API granularity (multi-message streams, install before every reader step) and at STATEMENT granularity (reader thread unary/streamed vs installer thread, a scheduling point before every statement of Lookup/lookup/iterate and both recover implementations, all interleavings up to 2 (thorough 3) preemptions): a read returns the old state, the new state or an error, never panics.",
         "Trusted: strict MemFS fault model; code inside pebble is atomic between two scheduling points. Six recorded findings (D7 family: read holding the pre-install DB handle panics with 'pebble: closed') are listed in known_findings.json; any other signature fails the check.",
         "DESIGN.md section 4, C08"),
 "C13": ("exploration",
         "bounded exhaustive sequence enumeration on the real kv.LFSM vs a CAS-register-map model, all batchings, snapshot round trip",
         "Every update sequence up to length 3 (quick) / 4 (thorough) over 36 updates (set/delete x 3 keys x {0,current,previous,current+1} versions x 2 values) and every sequence up to length 2 over 120 updates (6 keys, far-future version, empty value): result codes and payloads, get/exists/globs vs model, list/listdir history-independence, snapshot->recover into a non-empty store, a snapshot prepared before every entry and saved after the last (must be the store at its prepare point; a replica recovered from it replays the tail identically), a second replica under every batching; conformance of the store adapter used by C14/C15 with the real RaftStore, and the real RaftStore against a plain map of the successful updates (refused sets report the current pair).",
         "Trusted: the map model; entries are built exactly as RaftStore marshals them. RaftStore's error mapping over a real NodeHost is exercised by the engine-based checks.",
         "DESIGN.md section 4, C13"),
 "C14": ("model_checking",
         "stateless interleaving exploration (cooperative scheduler, unbounded preemptions, visited-state pruning on a complete key) of real Manager catalogue calls + exhaustive operation sequences on real engines + exhaustive enumeration of diffTables",
         "ALL interleavings at store-call granularity (with and without replica lag) of 2-3 real Managers running 1-2 of {create a, create b, delete a, allocate id} from 2 initial catalogues, checked on the committed log (no creation while the name exists, ids distinct/increasing, results agree, catalogue = model); replicas catch up in one apply call and must agree on every result; plus every create/delete/put/restore/restore-with-reconcile-tick/reconcile sequence up to length 3 (thorough 4) on real engines (listing, lookup, full content of both tables, ids, recreated table empty, other table untouched), odd table names, and every catalogue of <= 3 tables x every subset of 6 running shard ids through diffTables.",
         "Trusted: the store adapter's model of dragonboat (append = commit, deterministic LFSM results, stale reads with own writes); lag reduction argument in DESIGN.md. Engine-level sequences (emptiness of recreated tables, isolation, reconcile) are covered only when evidence key engine_sequences is present.",
         "DESIGN.md section 4, C14"),
 "C15": ("model_checking",
         "stateless interleaving exploration (cooperative scheduler, unbounded preemptions, replica lag as data choice, visited-state pruning) of real LeaseTable/ReturnTable",
         "ALL interleavings, at the granularity of individual metadata-store reads and writes plus the lag of every stale read, of 1-2 lease/renew/return calls per node for 2 nodes (all program pairs) and 3 nodes, from 4 initial lease records, small scenarios a second time with lagging replicas moving forward by real snapshot save/install; oracle on the committed log: replicas agree on every result, no lease granted over another node's unexpired lease, worker side: two real replication workers (real worker.Start) in synctest bubbles with one node cut off from the metadata store for every window on a half-interval grid - a worker's lease flag is only ever set while the committed record names it and is unexpired, return removes only the caller's lease, results agree with the log, at most one believer.",
         "Trusted: the store adapter's model of dragonboat; durations +1h/-1h so no wall-clock dependence.",
         "DESIGN.md section 4, C15"),
 "C19": ("model_checking",
         "exhaustive update sequences on the real shardView + BFS over {local observation, gossip i->j} through the real memberlist delegate + stateless interleaving exploration of concurrent update()/shardInfo() callers at statement granularity",
         "Every sequence of length <= 4 (quick) / <= 5 (thorough) over 19 updates consistent with a ground truth (one leader per term, one membership per config index), one per call and all in one call, checked after every step against a function of the SET of updates (order/repetition independence) and for non-regression; BFS over 2 and 3 simulated nodes with visited set on the tuple of complete views; agreement after all-pairs gossip; two concurrent callers of the real update() next to a reader at statement granularity (cooperative RWMutex) up to 2 (thorough 4) preemptions.",
         "Trusted: ground-truth assumption (Raft: <=1 leader per term). All transitions run the real update/merge/LocalState/MergeRemoteState code (hook exports only).",
         "DESIGN.md section 4, C19"),
 "C09": ("exploration",
         "bounded exhaustive enumeration of contents x bounds x limits x forms (and value-size orders) vs reference model",
         "All 64 subsets of 6 keys x 100 bound pairs x every limit 0..n+1 x 3 forms, unary and streamed; every content of up to 3 (quick) / 5 (thorough) pairs with sizes from {1KiB,1MiB,2MiB-1KiB,2MiB} for size cuts, per-message size/flags/counts, a byte-wise sweep of two pairs (2MiB and 2MiB-d for every d in 0..2099) across the message limit, a write between any two pulls of a stream, and the same questions through the real KVServer.Range/IterateRange on a real engine.",
         "Trusted: refkv range semantics; vtproto SizeVT as the wire size. The KV gRPC layer above the FSM is exercised by C10/C16.",
         "DESIGN.md section 4, C09"),
 "C10": ("model_checking",
         "stateless interleaving exploration (cooperative scheduler, unbounded preemptions, visited-state pruning) of real ActiveTable calls over a simulated Raft host with real FSM replicas",
         "ALL interleavings of 2 clients (thorough: 3) running 1-2 operations from 8 kinds (put, delete-range, write txn, txn with empty taken branch, read-only txn, linearizable/serializable range, linearizable iterator) on colliding keys, bound to an eager or a lagging replica (batch size of every apply call is a data choice); the log is ground truth: revisions non-zero and = log index, mutation responses = model replay in index order, linearizable reads within [commit@invoke, commit@return], serializable reads at some earlier-or-equal prefix.",
         "Trusted: the simulated host's rendering of dragonboat's contract (append = commit, answer after the proposing replica applied, read index captured at invocation); refkv. Real multi-node timing inside dragonboat is out of reach.",
         "DESIGN.md section 4, C10"),
 "C11": ("model_checking",
         "explicit-state BFS of the real queue loop inside testing/synctest bubbles (fake clock, quiescence = wedge detector) + exhaustive end-to-end event sequences (in bubbles over real FSMs, and over real engines with the real replication worker)",
         "Part A: for 6 (thorough 8) waiter configurations BFS to depth 9 (thorough 12) over {add, cancel, notify, sweep tick, caller reads}; every path replayed in a fresh bubble against the real IndexNotificationQueue.Run; probes Len/Notify/Add after every event; visited set on the complete concrete state. Part B: every event sequence up to length 5 (thorough 6) over 10 events through the real ForwardingKVServer, real leader/follower FSMs and the real queue wired as cmd/follower.go: an acknowledged write (put, transaction, delete) is readable on the node, no caller keeps waiting once its revision is applied. Part A2: every arrival order of 4..7 revisions x cancelled subsets around a sweep. Part C: every event sequence up to length 3 (thorough 4) over 6 events on real leader/follower engines joined by the real log server, replication worker, queue and forwarding server (values larger than half a follower proposal).",
         "Trusted: testing/synctest's durable-blocking detection; the leader is a stub client over a real FSM; local indices are deliberately ahead of leader indices. FSM Open/Close run outside the bubble (pebble's long-lived goroutines), their notifications are delivered in order afterwards.",
         "DESIGN.md section 4, C11"),
 "C12": ("exploration",
         "exhaustive enumeration of keys, ordered pairs and triples over a byte alphabet plus boundary lengths",
         "175 keys (all strings of length 1..3 over {00,01,61,FE,FF} + lengths 1018..1024 in 4 fill patterns): round trip through both decoders, all ordered pairs for injectivity/order, all triples for range membership, every key through a real FSM with wildcard reads/deletes and bookkeeping intact, and sibling keys for EVERY shared-prefix length 0..1023 through a real FSM (point reads, counted point deletes, transaction reads address exactly their own key).",
         "Trusted: bytes.Compare is the store's order (pebble DefaultComparer). Keys outside the alphabet are not covered.",
         "DESIGN.md section 4, C12"),
 "C01": ("exploration",
         "bounded exhaustive sequence enumeration on the real FSM vs a sorted-map reference model",
         "Every command sequence up to depth 3 (quick) / 4 (thorough) over a 29-command alphabet on prefix-related keys, under two batchings, plus every range delete x every range read over a 14-key adversarial byte alphabet, is executed on a real fsm.FSM (pebble on a strict in-memory FS) and every result, read and index is compared with a plain sorted map; all probe reads are repeated after a memtable flush and after close + reopen (same answers required). Exhaustive within the stated alphabet and depth; says nothing beyond them. Plus every pair of key lengths 1..20 through one apply call whose later commands read the call's own pending writes.",
         "Trusted: the reference model refkv (150 lines), pebble's MemFS. Keys/values outside the alphabets and sequences beyond the depth are not covered.",
         "DESIGN.md section 4, C01"),
}

# sentences appended to a check's text (strengthenings made after the table above was written)
ADDED = {
 "C19": " Cluster BFS event: the node's own Raft host stops listing the shard while a lifecycle event calls Notify.",
 "C16": " Every KV method on a table that was used and then deleted a moment ago: NotFound at once, nothing changed, empty when re-created.",
 "C10": " Revision clause swept over 147 transaction shapes (predicates {none, holds, fails} x 7 success x 7 failure branches) sequentially through the real ActiveTable.",
 "C08": " Savers holding 8 or 9 pairs of 2 MiB incompressible values with 0..3 small pairs behind them (the SST stream rolls over at 16 MiB), all four format pairs.",
 "C05": " Worker restart during a poll: real worker routines, the first replication stream held after k = 1..6 messages, Close, a new worker catches up, the stream is let go: content = leader content at the recorded index.",
 "C04": " Failed first open: the first Open hits an I/O error at (every operation outside pebble's DB directory) or dies at (every operation) its j-th file-system operation and the table is opened again, then two puts, a completed Sync and a power loss.",
 "C02": " Also every list of exactly 3 operations (12^3) as the success branch of a transaction without predicates and as the failure branch of one with a false predicate. Range predicates over six 1 MiB pairs (more than one response message) with the odd value at every position, through the log and the read-only path.",
 "C03": " Also one log of six entries staging 4 MiB each under all 2^5 batchings (each also followed by close+reopen): every multiple of 4 MiB up to 24 MiB is crossed exactly at the last entry of some apply call.",
 "C07": " Also the real SnapshotServer.Stream with three leader writes landing before its k-th executed statement for every k (statement points in Stream, FSM.Lookup and commandSnapshot): streamed pairs = table content at the declared index. Two overlapping Manager.Restore calls on one table (load B starts at load A's k-th read, completes there or is held until A returned): after every load that reports success the table holds that load's content.",
 "C11": " Part C's alphabet also holds a snapshot recovery of the follower table (real worker.recover -> Engine.Restore, at most once per path); known finding D14 (known_findings.json, findings/D14-*.json). Part D: event sequences (updates, sync, snapshot installs) on a real FSM whose listener looks at the FSM from inside the callback: what it is told is already served.",
 "C13": " Also every sequence of length 0..2 on ten pairwise different keys that a normalisation would merge. Listings are also compared with a directory tree of the keys written down independently (a sibling directory whose name extends another's is in the alphabet).",
 "C14": " Two-manager race scenarios with lag are explored once more with the lagging replica moving forward by snapshot install into its non-empty store.",
 "C15": " Worker part (fake clock): every lease write that succeeds while the committed record names another node and has not expired is a violation; expiry boundary: node 2 asks at 18 exact instants between 2h after and 3.999s before node 1's lease runs out.",
 "C17": " A 15th client certificate is issued by a CA that only the host's default trust store knows (SSL_CERT_FILE / SSL_CERT_DIR replaced for the check's process and the binaries it starts). One leader with both TLS endpoints on unix sockets (unixs://) and a client that does not speak TLS at all.",
 "C18": " Every shipped stream is also received with an empty chunk before and after every chunk. Compressors also round-trip payloads of 4 MiB - 1 .. 16 MiB + 1.",
}

NOT_APPLICABLE = {}

def main():
    props = [json.loads(l) for l in open('/verif/properties.jsonl')]
    ids = [p['id'] for p in props]
    checks = []
    for pid in ids:
        if pid not in CHECKS:
            continue
        level, tech, text, note, ref = CHECKS[pid]
        text += ADDED.get(pid, "")
        checks.append({
            "property_id": pid,
            "quick_cmd": f"scripts/check.sh {pid} quick",
            "thorough_cmd": f"scripts/check.sh {pid} thorough",
            "evidence_file": f"/verif/evidence/{pid}.json",
            "replay_cmd_template": "scripts/replay.sh {path}",
            "engine": "verifx",
            "level_claimed": {"category": level, "text": text, "design_ref": ref},
            "level_note": note,
            "technique": tech,
        })
    na = []
    for pid in ids:
        if pid not in CHECKS:
            na.append({"property_id": pid, "reason": NOT_APPLICABLE.get(pid, "check not built yet in this session (planned in DESIGN.md section 4); not claimed until it exists")})
    hooks_commits = []
    try:
        out = subprocess.run(['git','-C','/repo','log','--format=%h %s'],capture_output=True,text=True).stdout
        for l in out.splitlines():
            h, s = l.split(' ',1)
            if s.startswith('verif hooks:'):
                hooks_commits.append(h)
    except Exception:
        pass
    m = {
        "version": 1,
        "setup_cmd": "scripts/setup.sh",
        "hooks": {
            "guard": "verif",
            "enable": "go build -tags verif (scripts/check.sh builds the harness module, which replaces github.com/jamf/regatta by /repo, with -tags verif)",
            "baseline_off_cmd": "cd /repo && GOFLAGS=-mod=mod go test -json -vet=off -count=1 -timeout 25m ./...",
            "source_commits": hooks_commits,
            "add_only": True,
        },
        "engines": [
            {"name": "verifx", "path": "/verif/harness", "serves_properties": [c["property_id"] for c in checks],
             "kind_free_text": "hand-written Go explorer: bounded sequence enumeration, explicit-state search, cooperative scheduler with preemption bounding, crash-point enumeration on a strict in-memory FS; system under test is always the code in /repo"},
        ],
        "checks": checks,
        "not_applicable": na,
        "notes": "All checks rebuild the harness against /repo's working tree with -tags verif. Exit 0 = held on everything explored; exit 1 + VIOLATION line = violation; exit 2 = infrastructure error (no verdict). known_findings.json lists recorded findings and fixed defects.",
    }
    json.dump(m, open('/verif/MANIFEST.json','w'), indent=1)
    print("manifest written:", len(checks), "checks,", len(na), "not_applicable")

main()
