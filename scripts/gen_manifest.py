#!/usr/bin/env python3
"""Generates /verif/MANIFEST.json from the table below (kept in one place so it stays valid)."""
import json, subprocess

CHECKS = {
 # id: (level, technique, text, note, design_ref)
 "C01": ("exploration",
         "bounded exhaustive sequence enumeration on the real FSM vs a sorted-map reference model",
         "Every command sequence up to depth 3 (quick) / 4 (thorough) over a 29-command alphabet on prefix-related keys, under two batchings, plus every range delete x every range read over a 14-key adversarial byte alphabet, is executed on a real fsm.FSM (pebble on a strict in-memory FS) and every result, read and index is compared with a plain sorted map. Exhaustive within the stated alphabet and depth; says nothing beyond them.",
         "Trusted: the reference model refkv (150 lines), pebble's MemFS. Keys/values outside the alphabets and sequences beyond the depth are not covered.",
         "DESIGN.md section 4, C01"),
}

NOT_APPLICABLE = {}

def main():
    props = [json.loads(l) for l in open('/verif/properties.jsonl')]
    ids = [p['id'] for p in props]
    checks = []
    for pid in ids:
        if pid not in CHECKS:
            continue
        level, tech, text, note, ref = CHECKS[pid]
        checks.append({
            "property_id": pid,
            "quick_cmd": f"scripts/check.sh {pid} quick",
            "thorough_cmd": f"scripts/check.sh {pid} thorough",
            "evidence_file": f"/verif/evidence/{pid}.json",
            "replay_cmd_template": "scripts/replay.sh {path}",
            "engine": "verifx",
            "level_claimed": {"category": level, "text": text, "design_ref": ref},
            "level_note": note,
            "technique": tech,
        })
    na = []
    for pid in ids:
        if pid not in CHECKS:
            na.append({"property_id": pid, "reason": NOT_APPLICABLE.get(pid, "check not built yet in this session (planned in DESIGN.md section 4); not claimed until it exists")})
    hooks_commits = []
    try:
        out = subprocess.run(['git','-C','/repo','log','--format=%h %s'],capture_output=True,text=True).stdout
        for l in out.splitlines():
            h, s = l.split(' ',1)
            if s.startswith('verif hooks:'):
                hooks_commits.append(h)
    except Exception:
        pass
    m = {
        "version": 1,
        "setup_cmd": "scripts/setup.sh",
        "hooks": {
            "guard": "verif",
            "enable": "go build -tags verif (scripts/check.sh builds the harness module, which replaces github.com/jamf/regatta by /repo, with -tags verif)",
            "baseline_off_cmd": "cd /repo && GOFLAGS=-mod=mod go test -json -vet=off -count=1 -timeout 25m ./...",
            "source_commits": hooks_commits,
            "add_only": True,
        },
        "engines": [
            {"name": "verifx", "path": "/verif/harness", "serves_properties": [c["property_id"] for c in checks],
             "kind_free_text": "hand-written Go explorer: bounded sequence enumeration, explicit-state search, cooperative scheduler with preemption bounding, crash-point enumeration on a strict in-memory FS; system under test is always the code in /repo"},
        ],
        "checks": checks,
        "not_applicable": na,
        "notes": "All checks rebuild the harness against /repo's working tree with -tags verif. Exit 0 = held on everything explored; exit 1 + VIOLATION line = violation; exit 2 = infrastructure error (no verdict). known_findings.json lists recorded findings and fixed defects.",
    }
    json.dump(m, open('/verif/MANIFEST.json','w'), indent=1)
    print("manifest written:", len(checks), "checks,", len(na), "not_applicable")

main()
