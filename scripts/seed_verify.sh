#!/bin/bash
# usage: scripts/seed_verify.sh <seed-id> <agent-worktree>
# Confirms a seeded change independently in a fresh scratch worktree of /repo (removed afterwards):
#  demo passes without the change, the change compiles, the demo fails with it, the repository's own
#  suite still passes with it. Stores patch/demo/meta under /verif/seeded/<seed-id>/.
set -u
export GOFLAGS=-mod=mod GOPROXY=off GOSUMDB=off GOTOOLCHAIN=local
ID="$1"; AWT="$2"
DST=/verif/seeded/$ID
mkdir -p "$DST"
cp "$AWT/SEEDED/patch.diff" "$DST/patch.diff"
cp "$AWT/SEEDED/meta.json" "$DST/agent_meta.json" 2>/dev/null || true
WT=/tmp/sv-$ID
git -C /repo worktree remove --force "$WT" 2>/dev/null
git -C /repo worktree add -q --detach "$WT" HEAD || exit 2
trap 'git -C /repo worktree remove --force "$WT" 2>/dev/null' EXIT
# demo test files = untracked *_test.go files in the agent's worktree
DEMOS=$(git -C "$AWT" status --porcelain | grep '^??' | awk '{print $2}' | grep '_test.go$')
: > "$DST/demo_files.txt"
for d in $DEMOS; do
  mkdir -p "$WT/$(dirname "$d")" "$DST/demo/$(dirname "$d")"
  cp "$AWT/$d" "$WT/$d"; cp "$AWT/$d" "$DST/demo/$d"; echo "$d" >> "$DST/demo_files.txt"
done
PKGS=$(for d in $DEMOS; do echo "./$(dirname "$d")/"; done | sort -u)
RUNRE='Seeded|seeded|Demo|Lagging|lagging'
cd "$WT"
echo "--- demo WITHOUT the change"
go test -vet=off -count=1 $PKGS > "$DST/demo_without.log" 2>&1; W=$?
tail -3 "$DST/demo_without.log"
echo "--- apply + build"
git apply "$DST/patch.diff" || { echo "PATCH DOES NOT APPLY"; exit 3; }
go build ./... || { echo "DOES NOT BUILD"; exit 3; }
echo "--- demo WITH the change"
go test -vet=off -count=1 $PKGS > "$DST/demo_with.log" 2>&1; C=$?
grep -E '^(--- FAIL|FAIL|ok)' "$DST/demo_with.log" | head -8
echo "--- existing suite WITH the change (demo files removed)"
for d in $DEMOS; do rm -f "$WT/$d"; done
go test -vet=off -count=1 ./... 2>&1 | grep -E '^(ok|FAIL|---)' | grep -v 'util/iter' > "$DST/suite_with.log"
# packages that failed are re-run three times: the repository has a flaky test (encoding/*: TestRoundTrip
# registers its gRPC service after Serve was started in a goroutine; it fails now and then on the
# unchanged tree as well)
S=0
for pkg in $(grep -E "^FAIL[[:space:]]+github" "$DST/suite_with.log" | awk '{print $2}' | sed 's#github.com/jamf/regatta#.#'); do
  okc=0
  for k in 1 2 3; do go test -vet=off -count=1 "$pkg" >/dev/null 2>&1 && okc=$((okc+1)); done
  echo "re-run of $pkg: $okc/3 ok" | tee -a "$DST/suite_with.log"
  [ $okc -eq 3 ] || S=$((S+1))
done
grep -E '^(FAIL|--- FAIL)' "$DST/suite_with.log" | head
echo "RESULT id=$ID demo_without_exit=$W demo_with_exit=$C suite_failures=$S"
python3 - "$DST" "$ID" "$W" "$C" "$S" <<'PY'
import json,sys,os
dst,i,w,c,s=sys.argv[1:]
am={}
try: am=json.load(open(dst+'/agent_meta.json'))
except Exception: pass
meta={"seed_id":i,"property":am.get("property"),"summary":am.get("summary"),"needs":am.get("needs"),
 "files":am.get("files"),"demo_files":open(dst+'/demo_files.txt').read().split(),
 "confirmed":{"demo_passes_without_change":w=="0","demo_fails_with_change":c!="0","repository_suite_failures_with_change":int(s),
   "how":"scripts/seed_verify.sh in a fresh scratch worktree of /repo HEAD (removed afterwards): go test of the demo package without the change, git apply, go build ./..., go test of the demo package, go test -vet=off -count=1 ./... (util/iter excluded: it never links)"},
 "checks":{}}
json.dump(meta,open(dst+'/meta.json','w'),indent=1)
PY
