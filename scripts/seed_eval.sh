#!/bin/bash
# usage: scripts/seed_eval.sh <seed-id> <check> [<check>...]  : runs the named checks (quick tier)
# against /verif/seeded/<seed-id>/patch.diff through a build overlay and records the verdicts in meta.json.
cd /verif
ID="$1"; shift
for C in "$@"; do
  log=$(mktemp)
  scripts/with_patch.sh seeded/$ID/patch.diff scripts/check.sh $C ${TIER:-quick} > "$log" 2>&1; code=$?
  sig=$(grep 'signature:' "$log" | sed 's/.*signature: //' | head -3 | tr '\n' ';' | cut -c1-300)
  echo "$ID vs $C: exit=$code $sig"
  python3 - "$ID" "$C" "$code" "$sig" "${TIER:-quick}" <<'PY'
import json,sys
i,c,code,sig,tier=sys.argv[1:]
p='/verif/seeded/%s/meta.json'%i
m=json.load(open(p))
m.setdefault('checks',{})[c]={"tier":tier,"exit":int(code),"caught":code=="1","first_signatures":sig}
json.dump(m,open(p,'w'),indent=1)
PY
  rm -f "$log"
done
